"""E2/E3 -- allocation-site points-to analysis with on-the-fly call graph.

Flow-insensitive, field-sensitive inclusion analysis over abstract objects
named by allocation site.  Solved by re-walking every function until no set
grows (the program is ~200 functions; the fixpoint takes a handful of rounds).

Values (hashable tuples):
  ("obj", site, cls)      instance allocated at *site*; cls is a loky class
                          qualname, or "ext:<dotted>" / "opaque:<name>" /
                          "extfield:<attr>" / "exc:<type>" for foreign objects
  ("func", q)             function object
  ("bound", recv, q)      bound method (q is a loky qualname or "ext:<name>")
  ("class", q)            loky class object
  ("module", name)        loky module
  ("ext", dotted)         foreign module / function / class
  ("tuple", site)         tuple display; fields "0", "1", ...
  ("cont", site)          list/dict/set/deque...; fields "elem", "key"
  ("none",)               None
  ("unknown",)            user-provided value
  ("super", clsq, self)   result of super()
"""
import ast

from .model import AnalysisError, Program, static_truth, func_nodes, norm

NONE = ("none",)
UNKNOWN = ("unknown",)

USER_PROGRAM = '''
from loky.process_executor import ProcessPoolExecutor
from loky.reusable_executor import get_reusable_executor, _ReusablePoolExecutor
from loky.backend.context import cpu_count, get_context
from loky.backend import resource_tracker
from loky.backend.reduction import set_loky_pickler, dumps, dump
from loky.cloudpickle_wrapper import wrap_non_picklable_objects
from loky.backend import synchronize

def user_plain():
    ex = ProcessPoolExecutor(UNKNOWN, UNKNOWN, UNKNOWN, UNKNOWN, UNKNOWN, UNKNOWN, UNKNOWN, UNKNOWN)
    f = ex.submit(UNKNOWN, UNKNOWN)
    it = ex.map(UNKNOWN, UNKNOWN)
    ex.shutdown(UNKNOWN, UNKNOWN)
    ex.shutdown(UNKNOWN, UNKNOWN)

def user_reusable():
    rex = get_reusable_executor(UNKNOWN, UNKNOWN, UNKNOWN, UNKNOWN, UNKNOWN, UNKNOWN, UNKNOWN, UNKNOWN, UNKNOWN, UNKNOWN)
    f = rex.submit(UNKNOWN, UNKNOWN)
    it = rex.map(UNKNOWN, UNKNOWN)
    rex.shutdown(UNKNOWN, UNKNOWN)

def user_misc():
    cpu_count(UNKNOWN)
    set_loky_pickler(UNKNOWN)
    wrap_non_picklable_objects(UNKNOWN, UNKNOWN)
    dumps(UNKNOWN, UNKNOWN, UNKNOWN)
    resource_tracker.main(UNKNOWN, UNKNOWN)
    resource_tracker._resource_tracker.ensure_running()
    resource_tracker._resource_tracker.maybe_unlink(UNKNOWN, UNKNOWN)
    c = synchronize.Condition(UNKNOWN)
    c.wait(UNKNOWN)
    c.notify()
    c.notify_all()
    e = synchronize.Event()
    e.set()
    e.clear()
    e.wait(UNKNOWN)
    e.is_set()
    synchronize.Lock()
    synchronize.RLock()
    synchronize.Semaphore(UNKNOWN)
    synchronize.BoundedSemaphore(UNKNOWN)

user_plain()
user_reusable()
user_misc()
'''

USER_MOD = "__user__"

CONT_READ = {"pop", "popitem", "get", "values", "items", "keys", "popleft",
             "copy", "setdefault", "__getitem__"}
CONT_WRITE = {"append", "add", "put", "put_nowait", "appendleft", "insert",
              "extend", "update", "remove", "clear", "discard"}

# foreign method -> loky-overridable hook it invokes on the same receiver
# (stdlib facts, re-checked against the interpreter's stdlib in the thorough
# tier, see stdlib_facts.py)
EXT_METHOD_HOOKS = {
    "put": ["_start_thread"],
    "put_nowait": ["_start_thread"],
    "start": ["run"],
    "map": ["submit"],
    "__exit__": ["shutdown"],
}


class PointsTo:
    def __init__(self, prog: Program, user_program=USER_PROGRAM):
        self.prog = prog
        if USER_MOD not in prog.modules and user_program:
            from .model import Module
            m = Module(USER_MOD, "<user>", user_program)
            prog.modules[USER_MOD] = m
            prog._index_module(m)
        self.pts = {}
        self.fields = {}
        self.tuple_len = {}
        self.changed = False
        self.calls = {}  # id(call node) -> set of (callee qualname, kind)
        self.call_node = {}  # id(call node) -> (Func, node)
        self.site_info = {}  # site -> (func qualname, text)
        self.final = False
        self._cache = {}
        self._mro_cache = {}
        self._stored_attrs = None
        self.rounds = 0
        self.solve()

    # ------------------------------------------------------------------ core
    def add(self, key, vals):
        if not vals:
            return
        s = self.pts.get(key)
        if s is None:
            self.pts[key] = set(vals)
            self.changed = True
            if key[0] == "F":
                self.fields.setdefault(key[1], set()).add(key[2])
        else:
            n = len(s)
            s.update(vals)
            if len(s) != n:
                self.changed = True

    def get(self, key):
        return self.pts.get(key, ())

    def solve(self):
        self.changed = True
        while self.changed:
            self.changed = False
            self.rounds += 1
            if self.rounds > 60:
                raise AnalysisError("points-to analysis did not converge")
            for f in list(self.prog.funcs.values()):
                self.walk_func(f)
        self.final = True

    # ------------------------------------------------------------- class info
    def class_bases(self, clsq):
        c = self.prog.classes[clsq]
        owner = self.prog.owner.get(id(c.node))
        out = []
        for b in c.base_exprs:
            for v in self.ev(owner, b):
                if v[0] in ("class", "ext"):
                    out.append(v)
        return out

    def mro(self, clsq):
        """(list of loky class qualnames, list of ext dotted bases)."""
        if self.final and clsq in self._mro_cache:
            return self._mro_cache[clsq]
        seen, ext = [], []

        def rec(q):
            if q in seen:
                return
            seen.append(q)
            for b in self.class_bases(q):
                if b[0] == "class":
                    rec(b[1])
                elif b[1] not in ext:
                    ext.append(b[1])
        rec(clsq)
        # move shared ancestors after their subclasses (simple C3 stand-in)
        r = (seen, ext)
        if self.final:
            self._mro_cache[clsq] = r
        return r

    def is_subclass(self, clsq, baseq):
        if not clsq or clsq not in self.prog.classes:
            return False
        return baseq in self.mro(clsq)[0]

    def has_ext_base(self, clsq, dotted_suffix=None):
        if clsq not in self.prog.classes:
            return False
        ext = self.mro(clsq)[1]
        if dotted_suffix is None:
            return bool(ext)
        return any(e == dotted_suffix or e.endswith("." + dotted_suffix) for e in ext)

    def lookup_method(self, clsq, name, after=None):
        """First loky Func named *name* in the MRO of clsq (after class *after*)."""
        order = self.mro(clsq)[0]
        if after is not None:
            if after in order:
                order = order[order.index(after) + 1:]
            else:
                order = []
        for q in order:
            m = self.prog.classes[q].methods.get(name)
            if m is not None:
                return m
        return None

    def stored_attrs(self):
        """class qualname -> set of attribute names stored through `self.X`
        (or class attrs/methods) in that class's own body."""
        if self._stored_attrs is None:
            d = {}
            for cq, c in self.prog.classes.items():
                s = set(c.attrs) | set(c.methods)
                for m in c.methods.values():
                    if not m.params or m.node.name == "__setstate__":
                        continue
                    selfname = m.params[0]
                    for n in ast.walk(m.node):
                        if isinstance(n, ast.Attribute) and isinstance(n.ctx, ast.Store) \
                                and isinstance(n.value, ast.Name) and n.value.id == selfname:
                            s.add(n.attr)
                d[cq] = s
            self._stored_attrs = d
        return self._stored_attrs

    # ------------------------------------------------------------ name scopes
    def scope_key(self, func, name):
        f = func
        mod = func.module.name
        if f.kind != "module" and name in f.globals_decl:
            return ("G", mod, name)
        while f is not None and f.kind != "module":
            if name in f.locals:
                return ("L", f.qualname, name)
            f = f.parent
        if name in func.module.body_func.locals:
            return ("G", mod, name)
        return None

    # ----------------------------------------------------------- expressions
    def ev(self, func, node):
        if self.final:
            if id(node) not in self.prog.owner:
                # temporary node (e.g. an inlined copy): ids may be recycled, never cache
                return frozenset(self._ev(func, node))
            k = (func.qualname, id(node))
            r = self._cache.get(k)
            if r is None:
                r = self._cache[k] = frozenset(self._ev(func, node))
            return r
        return self._ev(func, node)

    def site(self, func, node, tag=""):
        s = f"{func.module.name}:{getattr(node, 'lineno', 0)}:{getattr(node, 'col_offset', 0)}{tag}"
        if s not in self.site_info:
            try:
                txt = norm(node)
            except Exception:
                txt = type(node).__name__
            self.site_info[s] = (func.qualname, txt[:80] + tag)
        return s

    def _ev(self, func, node):
        if node is None:
            return set()
        if isinstance(node, ast.Constant):
            return {NONE} if node.value is None else set()
        if isinstance(node, ast.Name):
            if node.id == "UNKNOWN" and func.module.name == USER_MOD:
                return {UNKNOWN}
            k = self.scope_key(func, node.id)
            if k is None:
                return {("ext", "builtins." + node.id)}
            return set(self.get(k))
        if isinstance(node, ast.Attribute):
            out = set()
            for v in self.ev(func, node.value):
                out |= self.load_attr(v, node.attr, func, node)
            return out
        if isinstance(node, ast.Call):
            return self.ev_call(func, node)
        if isinstance(node, ast.Tuple):
            t = ("tuple", self.site(func, node))
            self.tuple_len[t] = len(node.elts)
            for i, e in enumerate(node.elts):
                if isinstance(e, ast.Starred):
                    self.add(("F", t, "*"), self.elems(self.ev(func, e.value)))
                else:
                    self.add(("F", t, str(i)), self.ev(func, e))
            return {t}
        if isinstance(node, (ast.List, ast.Set)):
            c = ("cont", self.site(func, node))
            for e in node.elts:
                if isinstance(e, ast.Starred):
                    self.add(("F", c, "elem"), self.elems(self.ev(func, e.value)))
                else:
                    self.add(("F", c, "elem"), self.ev(func, e))
            return {c}
        if isinstance(node, ast.Dict):
            c = ("cont", self.site(func, node))
            for k, v in zip(node.keys, node.values):
                if k is None:
                    self.add(("F", c, "elem"), self.elems(self.ev(func, v)))
                else:
                    self.add(("F", c, "key"), self.ev(func, k))
                    self.add(("F", c, "elem"), self.ev(func, v))
            return {c}
        if isinstance(node, (ast.ListComp, ast.SetComp, ast.GeneratorExp, ast.DictComp)):
            for g in node.generators:
                self.assign(func, g.target, self.elems(self.ev(func, g.iter)))
                for c in g.ifs:
                    self.ev(func, c)
            c = ("cont", self.site(func, node))
            if isinstance(node, ast.DictComp):
                self.add(("F", c, "key"), self.ev(func, node.key))
                self.add(("F", c, "elem"), self.ev(func, node.value))
            else:
                self.add(("F", c, "elem"), self.ev(func, node.elt))
            return {c}
        if isinstance(node, ast.Subscript):
            out = set()
            idx = node.slice
            for v in self.ev(func, node.value):
                if v[0] == "tuple":
                    if isinstance(idx, ast.Constant) and isinstance(idx.value, int) and idx.value >= 0:
                        out |= set(self.get(("F", v, str(idx.value))))
                        out |= set(self.get(("F", v, "*")))
                    else:
                        out |= self.elems({v})
                elif v[0] == "cont":
                    if isinstance(idx, ast.Slice):
                        out.add(v)
                    else:
                        out |= set(self.get(("F", v, "elem")))
                elif v == UNKNOWN:
                    out.add(UNKNOWN)
            self.ev(func, idx) if not isinstance(idx, ast.Slice) else None
            return out
        if isinstance(node, ast.IfExp):
            self.ev(func, node.test)
            return self.ev(func, node.body) | self.ev(func, node.orelse)
        if isinstance(node, ast.BoolOp):
            out = set()
            for v in node.values:
                out |= self.ev(func, v)
            return out
        if isinstance(node, ast.NamedExpr):
            v = self.ev(func, node.value)
            self.assign(func, node.target, v)
            return v
        if isinstance(node, ast.Lambda):
            f = self.prog.func_of_node[id(node)]
            return {("func", f.qualname)}
        if isinstance(node, ast.Starred):
            return self.ev(func, node.value)
        if isinstance(node, ast.BinOp):
            l = self.ev(func, node.left)
            r = self.ev(func, node.right)
            if isinstance(node.op, ast.Add):
                return {v for v in l | r if v[0] in ("cont", "tuple")}
            return set()
        if isinstance(node, (ast.Compare, ast.UnaryOp, ast.JoinedStr, ast.FormattedValue)):
            for ch in ast.iter_child_nodes(node):
                if isinstance(ch, ast.expr):
                    self.ev(func, ch)
            return set()
        if isinstance(node, (ast.Yield, ast.YieldFrom, ast.Await)):
            if node.value is not None:
                self.ev(func, node.value)
            return set()
        return set()

    def elems(self, vals):
        out = set()
        for v in vals:
            if v[0] == "cont":
                out |= set(self.get(("F", v, "elem")))
            elif v[0] == "tuple":
                for a in self.fields.get(v, ()):
                    out |= self.pts[("F", v, a)]
            elif v == UNKNOWN:
                out.add(UNKNOWN)
        return out

    def obj_class(self, v):
        return v[2] if v[0] == "obj" else None

    def load_attr(self, v, attr, func=None, node=None):
        kind = v[0]
        if kind == "obj":
            out = set(self.get(("F", v, attr)))
            clsq = v[2]
            if clsq in self.prog.classes:
                vals, found = self.class_attr(clsq, attr, v)
                out |= vals
                if not found and not out:
                    order, ext = self.mro(clsq)
                    if ext:
                        stored = self.stored_attrs()
                        if not any(attr in stored[q] for q in order):  # noqa
                            if attr.startswith("_") and not attr.startswith("__"):
                                # field initialised by a foreign base class
                                o = ("obj", f"field:{v[1]}.{attr}", "extfield:" + attr)
                                self.site_info.setdefault(o[1], (self.site_info.get(v[1], ("?", "?"))[0], f"<{clsq.split(':')[1]}>.{attr}"))
                                out.add(o)
                            else:
                                out.add(("bound", v, "ext:" + attr))
            else:
                if not out:
                    out.add(("bound", v, "ext:" + attr))
                else:
                    # could also be a method of the foreign object
                    pass
            return out
        if kind == "module":
            m = self.prog.modules.get(v[1])
            if m is None:
                return set()
            sub = f"{v[1]}.{attr}"
            out = set(self.get(("G", v[1], attr)))
            if sub in self.prog.modules and not out:
                out.add(("module", sub))
            return out
        if kind == "class":
            vals, found = self.class_attr(v[1], attr, None, via_class=v)
            if not found:
                order, ext = self.mro(v[1])
                if ext:
                    vals.add(("ext", ext[0] + "." + attr))
            return vals
        if kind == "ext":
            return {("ext", v[1] + "." + attr)}
        if kind == "unknown":
            return {UNKNOWN}
        if kind == "super":
            _, clsq, selfv = v
            base_cls = selfv[2] if selfv[0] == "obj" and selfv[2] in self.prog.classes else clsq
            m = self.lookup_method(base_cls, attr, after=clsq)
            if m is not None:
                return {("bound", selfv, m.qualname)}
            return {("bound", selfv, "ext:" + attr)}
        if kind in ("cont", "tuple"):
            return {("bound", v, "ext:" + attr)}
        if kind == "bound":
            return set()
        return set()

    def class_attr(self, clsq, attr, obj, via_class=None):
        """Look *attr* up the loky MRO of clsq. Returns (values, found)."""
        out = set()
        for q in self.mro(clsq)[0]:
            c = self.prog.classes[q]
            vals = self.get(("CA", q, attr))
            if vals or attr in c.methods or attr in c.attrs:
                for x in vals:
                    if x[0] == "func" and x[1] in self.prog.funcs:
                        f = self.prog.funcs[x[1]]
                        if "staticmethod" in f.decorators:
                            out.add(x)
                        elif "classmethod" in f.decorators:
                            out.add(("bound", ("class", clsq), x[1]))
                        elif obj is not None:
                            out.add(("bound", obj, x[1]))
                        else:
                            out.add(x)
                    else:
                        out.add(x)
                return out, True
        return out, False

    # ----------------------------------------------------------------- calls
    def record_call(self, func, node, callee_q, kind):
        self.call_node[id(node)] = (func, node)
        s = self.calls.setdefault(id(node), set())
        if (callee_q, kind) not in s:
            s.add((callee_q, kind))
            self.changed = True

    def bind(self, callee, pos, kw, star_vals, kwstar_vals):
        """pos: list of value-sets; kw: name -> value-set."""
        q = callee.qualname
        params = callee.params
        for i, vals in enumerate(pos):
            if i < len(params):
                self.add(("L", q, params[i]), vals)
            elif callee.vararg:
                c = ("cont", f"vararg:{q}")
                self.add(("F", c, "elem"), vals)
                self.add(("L", q, callee.vararg), {c})
        if star_vals:
            for p in params[len(pos):]:
                self.add(("L", q, p), star_vals)
            if callee.vararg:
                c = ("cont", f"vararg:{q}")
                self.add(("F", c, "elem"), star_vals)
                self.add(("L", q, callee.vararg), {c})
        for name, vals in kw.items():
            if name in params or name in callee.kwonly:
                self.add(("L", q, name), vals)
            elif callee.kwarg:
                c = ("cont", f"kwarg:{q}")
                self.add(("F", c, "elem"), vals)
                self.add(("L", q, callee.kwarg), {c})
        if kwstar_vals:
            bound = set(params[: len(pos)]) | set(kw)
            for p in list(params) + list(callee.kwonly):
                if p not in bound:
                    self.add(("L", q, p), kwstar_vals)
            if callee.kwarg:
                c = ("cont", f"kwarg:{q}")
                self.add(("F", c, "elem"), kwstar_vals)
                self.add(("L", q, callee.kwarg), {c})

    def call_func(self, func, node, callee_q, recv, pos, kw, star_vals, kwstar_vals, kind="direct"):
        callee = self.prog.funcs.get(callee_q)
        if callee is None:
            return set()
        self.record_call(func, node, callee_q, kind)
        p = list(pos)
        if recv is not None:
            p = [{recv}] + p
        self.bind(callee, p, kw, star_vals, kwstar_vals)
        return set(self.get(("R", callee_q)))

    def tuple_to_pos(self, vals):
        """Turn tuple values into positional value-sets (for deferred calls)."""
        pos = []
        star = set()
        for v in vals:
            if v[0] == "tuple":
                n = self.tuple_len.get(v)
                if n is None:
                    n = 1 + max([int(a) for a in self.fields.get(v, ()) if a.isdigit()], default=-1)
                for i in range(n):
                    while len(pos) <= i:
                        pos.append(set())
                    pos[i] |= set(self.get(("F", v, str(i))))
                star |= set(self.get(("F", v, "*")))
            elif v[0] == "cont":
                star |= set(self.get(("F", v, "elem")))
            elif v == UNKNOWN:
                star.add(UNKNOWN)
        return pos, star

    def deferred(self, func, node, targets, argvals, kind):
        pos, star = self.tuple_to_pos(argvals)
        for t in targets:
            self.invoke(func, node, t, pos, {}, star, set(), kind)

    def invoke(self, func, node, v, pos, kw, star_vals, kwstar_vals, kind="direct"):
        """Call value *v*; returns result values."""
        k = v[0]
        if k == "func":
            return self.call_func(func, node, v[1], None, pos, kw, star_vals, kwstar_vals, kind)
        if k == "bound":
            recv, q = v[1], v[2]
            if not q.startswith("ext:"):
                return self.call_func(func, node, q, recv, pos, kw, star_vals, kwstar_vals, kind)
            return self.ext_method(func, node, recv, q[4:], pos, kw, star_vals)
        if k == "class":
            clsq = v[1]
            o = ("obj", self.site(func, node), clsq)
            init = self.lookup_method(clsq, "__init__")
            if init is not None:
                self.call_func(func, node, init.qualname, o, pos, kw, star_vals, kwstar_vals, kind)
            else:
                self.record_call(func, node, "<alloc>" + clsq, kind)
            return {o}
        if k == "ext":
            return self.ext_call(func, node, v[1], pos, kw, star_vals)
        if k == "obj":
            cq = v[2]
            if cq in self.prog.classes:
                m = self.lookup_method(cq, "__call__")
                if m is not None:
                    return self.call_func(func, node, m.qualname, v, pos, kw, star_vals, kwstar_vals, kind)
                return set()
            if cq == "ext:weakref.ref":
                return set(self.get(("F", v, "referent"))) | {NONE}
            if cq.startswith("ext:functools.partial"):
                out = set()
                for f in self.get(("F", v, "func")):
                    ppos, pstar = self.tuple_to_pos(self.get(("F", v, "args")))
                    out |= self.invoke(func, node, f, ppos + list(pos), kw, pstar | star_vals, kwstar_vals, kind)
                return out
            return {("obj", self.site(func, node), "opaque:call")}
        if k == "unknown":
            name = node.func.attr if isinstance(node.func, ast.Attribute) else "call"
            o = ("obj", self.site(func, node), "opaque:" + name)
            if "target" in kw:
                self.deferred(func, node, kw["target"], kw.get("args", set()), "process")
            return {o}
        return set()

    def ev_call(self, func, node):
        # super() special form
        if isinstance(node.func, ast.Name) and node.func.id == "super" and not node.args \
                and self.scope_key(func, "super") is None:
            m = func
            while m is not None and m.cls is None:
                m = m.parent
            if m is not None and m.params:
                out = set()
                for sv in self.get(("L", m.qualname, m.params[0])):
                    out.add(("super", m.cls.qualname, sv))
                return out
            return set()
        pos, kw, star_vals, kwstar_vals = [], {}, set(), set()
        for a in node.args:
            if isinstance(a, ast.Starred):
                star_vals |= self.elems(self.ev(func, a.value))
            else:
                pos.append(self.ev(func, a))
        for k in node.keywords:
            if k.arg is None:
                kwstar_vals |= self.elems(self.ev(func, k.value))
            else:
                kw[k.arg] = self.ev(func, k.value)
        out = set()
        fvals = self.ev(func, node.func)
        self.call_node[id(node)] = (func, node)
        for v in list(fvals):
            out |= self.invoke(func, node, v, pos, kw, star_vals, kwstar_vals)
        return out

    # --------------------------------------------------- foreign summaries
    def ext_method(self, func, node, recv, name, pos, kw, star_vals):
        rk = recv[0]
        if rk == "cont":
            if name in ("append", "add", "put", "put_nowait", "appendleft", "remove", "discard"):
                if pos:
                    self.add(("F", recv, "elem"), pos[0])
                return set()
            if name == "insert":
                if len(pos) > 1:
                    self.add(("F", recv, "elem"), pos[1])
                return set()
            if name in ("extend", "update"):
                if pos:
                    self.add(("F", recv, "elem"), self.elems(pos[0]))
                return set()
            if name in ("pop", "get", "popleft", "setdefault", "__getitem__"):
                out = set(self.get(("F", recv, "elem")))
                if len(pos) > 1:
                    out |= pos[1]
                    if name == "setdefault":
                        self.add(("F", recv, "elem"), pos[1])
                return out
            if name in ("values", "copy"):
                c = ("cont", self.site(func, node))
                self.add(("F", c, "elem"), self.get(("F", recv, "elem")))
                self.add(("F", c, "key"), self.get(("F", recv, "key")))
                return {c}
            if name == "keys":
                c = ("cont", self.site(func, node))
                self.add(("F", c, "elem"), self.get(("F", recv, "key")))
                return {c}
            if name == "items":
                c = ("cont", self.site(func, node))
                t = ("tuple", self.site(func, node, "#item"))
                self.add(("F", t, "0"), self.get(("F", recv, "key")))
                self.add(("F", t, "1"), self.get(("F", recv, "elem")))
                self.add(("F", c, "elem"), {t})
                return {c}
            if name == "popitem":
                t = ("tuple", self.site(func, node))
                self.add(("F", t, "0"), self.get(("F", recv, "key")))
                self.add(("F", t, "1"), self.get(("F", recv, "elem")))
                return {t}
            return set()
        if rk == "tuple":
            return set()
        if rk == "obj":
            cq = recv[2]
            if cq in self.prog.classes:
                out = set()
                for hook in EXT_METHOD_HOOKS.get(name, ()):
                    m = self.lookup_method(cq, hook)
                    if m is not None:
                        if hook == "submit":
                            out |= self.call_func(func, node, m.qualname, recv, pos[:1], {}, {UNKNOWN}, set(), "ext-hook")
                        elif hook == "shutdown":
                            out |= self.call_func(func, node, m.qualname, recv, [], {}, set(), set(), "ext-hook")
                        else:
                            self.call_func(func, node, m.qualname, recv, [], {}, set(), set(),
                                           "thread" if hook == "run" else "ext-hook")
                if name in ("join", "start", "close", "release", "acquire", "put", "put_nowait",
                            "__init__", "join_thread", "full", "empty", "is_alive", "cancel_join_thread"):
                    return out
                return out | {("obj", self.site(func, node), "opaque:" + name)}
            if cq == "ext:queue.Queue":
                if name in ("put", "put_nowait"):
                    if pos:
                        self.add(("F", recv, "elem"), pos[0])
                    return set()
                if name in ("get", "get_nowait"):
                    return set(self.get(("F", recv, "elem")))
            if name in ("acquire", "release", "join", "close", "start", "kill", "terminate",
                        "is_alive", "clear", "poll", "send_bytes", "wakeup"):
                return set()
            o = ("obj", self.site(func, node), "opaque:" + name)
            if "target" in kw:
                self.deferred(func, node, kw["target"], kw.get("args", set()), "process")
            return {o}
        return set()

    def ext_call(self, func, node, dotted, pos, kw, star_vals):
        base = dotted.split(".")[-1]
        if dotted in ("builtins.list", "builtins.tuple", "builtins.set", "builtins.sorted",
                      "builtins.reversed", "builtins.iter", "builtins.frozenset",
                      "collections.deque"):
            c = ("cont", self.site(func, node))
            if pos:
                self.add(("F", c, "elem"), self.elems(pos[0]))
            return {c}
        if dotted == "builtins.enumerate":
            # a container of (index, element) pairs
            c = ("cont", self.site(func, node))
            t = ("tuple", self.site(func, node, "#item"))
            if pos:
                self.add(("F", t, "1"), self.elems(pos[0]))
            self.add(("F", c, "elem"), {t})
            return {c}
        if dotted == "builtins.zip":
            c = ("cont", self.site(func, node))
            t = ("tuple", self.site(func, node, "#item"))
            for i, pv in enumerate(pos):
                self.add(("F", t, str(i)), self.elems(pv))
            self.add(("F", c, "elem"), {t})
            return {c}
        if dotted == "builtins.dict":
            c = ("cont", self.site(func, node))
            if pos:
                self.add(("F", c, "elem"), self.elems(pos[0]))
                for v in pos[0]:
                    if v[0] == "cont":
                        self.add(("F", c, "key"), self.get(("F", v, "key")))
            for v in kw.values():
                self.add(("F", c, "elem"), v)
            return {c}
        if dotted in ("builtins.staticmethod", "builtins.classmethod"):
            return set(pos[0]) if pos else set()
        if dotted == "builtins.getattr":
            out = set()
            a = node.args[1] if len(node.args) > 1 else None
            if isinstance(a, ast.Constant) and isinstance(a.value, str) and pos:
                for v in pos[0]:
                    out |= {x for x in self.load_attr(v, a.value, func, node)
                            if not (x[0] == "bound" and str(x[2]).startswith("ext:"))}
            if len(pos) > 2:
                out |= pos[2]
            return out
        if dotted in ("builtins.isinstance", "builtins.len", "builtins.hasattr", "builtins.callable",
                      "builtins.str", "builtins.int", "builtins.repr", "builtins.print", "builtins.sum",
                      "builtins.all", "builtins.any", "builtins.min", "builtins.max", "builtins.range",
                      "builtins.type", "builtins.float", "builtins.bool", "builtins.id", "builtins.next",
                      "builtins.map", "builtins.zip", "builtins.enumerate", "builtins.setattr"):
            return set()
        if dotted in ("weakref.ref",):
            o = ("obj", self.site(func, node), "ext:weakref.ref")
            if pos:
                self.add(("F", o, "referent"), pos[0])
            if len(pos) > 1:
                for cb in pos[1]:
                    self.invoke(func, node, cb, [{o}], {}, set(), set(), "gc")
            return {o}
        if dotted == "weakref.WeakKeyDictionary":
            return {("cont", self.site(func, node))}
        if dotted == "threading.Thread" or dotted.endswith(".Thread"):
            o = ("obj", self.site(func, node), "ext:threading.Thread")
            if "target" in kw:
                self.add(("F", o, "target"), kw["target"])
                self.deferred(func, node, kw["target"], kw.get("args", set()), "thread")
            return {o}
        if dotted.endswith("util.Finalize") or base == "Finalize":
            o = ("obj", self.site(func, node), "ext:Finalize")
            cbs = pos[1] if len(pos) > 1 else kw.get("callback", set())
            args = pos[2] if len(pos) > 2 else kw.get("args", set())
            self.deferred(func, node, cbs, args, "finalize")
            return {o}
        if dotted == "threading._register_atexit":
            if pos:
                for f in pos[0]:
                    self.invoke(func, node, f, pos[1:], {}, set(), set(), "atexit")
            return set()
        if dotted.endswith("util.register_after_fork") or base == "register_after_fork":
            if len(pos) > 1:
                for f in pos[1]:
                    self.invoke(func, node, f, [pos[0]], {}, set(), set(), "afterfork")
            return set()
        if dotted in ("multiprocessing.Pipe", "multiprocessing.connection.Pipe"):
            t = ("tuple", self.site(func, node))
            self.add(("F", t, "0"), {("obj", self.site(func, node, "#r"), "ext:Connection")})
            self.add(("F", t, "1"), {("obj", self.site(func, node, "#w"), "ext:Connection")})
            return {t}
        if dotted == "os.pipe":
            t = ("tuple", self.site(func, node))
            self.add(("F", t, "0"), {("obj", self.site(func, node, "#r"), "ext:fd")})
            self.add(("F", t, "1"), {("obj", self.site(func, node, "#w"), "ext:fd")})
            return {t}
        if dotted == "functools.partial":
            o = ("obj", self.site(func, node), "ext:functools.partial")
            if pos:
                self.add(("F", o, "func"), pos[0])
                t = ("tuple", self.site(func, node, "#pa"))
                for i, a in enumerate(pos[1:]):
                    self.add(("F", t, str(i)), a)
                self.add(("F", o, "args"), {t})
            return {o}
        o = ("obj", self.site(func, node), "ext:" + dotted)
        if "target" in kw:
            self.deferred(func, node, kw["target"], kw.get("args", set()), "process")
        return {o}

    # ------------------------------------------------------------ statements
    def assign(self, func, target, vals):
        if isinstance(target, ast.Name):
            k = self.scope_key(func, target.id)
            if k is not None:
                self.add(k, vals)
        elif isinstance(target, ast.Attribute):
            for o in self.ev(func, target.value):
                if o[0] == "obj":
                    self.add(("F", o, target.attr), vals)
                elif o[0] == "module":
                    self.add(("G", o[1], target.attr), vals)
                elif o[0] == "class":
                    self.add(("CA", o[1], target.attr), vals)
        elif isinstance(target, (ast.Tuple, ast.List)):
            for i, t in enumerate(target.elts):
                if isinstance(t, ast.Starred):
                    self.assign(func, t.value, vals)
                    continue
                sub = set()
                for v in vals:
                    if v[0] == "tuple":
                        sub |= set(self.get(("F", v, str(i)))) | set(self.get(("F", v, "*")))
                    elif v[0] == "cont":
                        sub |= set(self.get(("F", v, "elem")))
                    elif v == UNKNOWN:
                        sub.add(UNKNOWN)
                self.assign(func, t, sub)
        elif isinstance(target, ast.Subscript):
            for o in self.ev(func, target.value):
                if o[0] == "cont":
                    self.add(("F", o, "elem"), vals)
                    if not isinstance(target.slice, ast.Slice):
                        self.add(("F", o, "key"), self.ev(func, target.slice))
        elif isinstance(target, ast.Starred):
            self.assign(func, target.value, vals)

    def ev_target_load(self, func, t):
        if isinstance(t, ast.Name):
            k = self.scope_key(func, t.id)
            return set(self.get(k)) if k else set()
        if isinstance(t, ast.Attribute):
            out = set()
            for v in self.ev(func, t.value):
                out |= self.load_attr(v, t.attr, func, t)
            return out
        if isinstance(t, ast.Subscript):
            return self.elems(self.ev(func, t.value))
        return set()

    def walk_func(self, f):
        q = f.qualname
        # defaults are evaluated in the defining scope
        if f.kind != "module":
            owner = self.prog.owner.get(id(f.node))
            for p, d in f.defaults.items():
                self.add(("L", q, p), self.ev(owner, d))
            if f.vararg:
                self.add(("L", q, f.vararg), {("cont", f"vararg:{q}")})
            if f.kwarg:
                self.add(("L", q, f.kwarg), {("cont", f"kwarg:{q}")})
        if f.kind == "lambda":
            self.add(("R", q), self.ev(f, f.node.body))
            return
        self.walk_body(f, f.node.body)

    def walk_body(self, f, stmts, cls=None):
        for s in stmts:
            self.walk_stmt(f, s, cls)

    def walk_stmt(self, f, s, cls=None):
        q = f.qualname
        if isinstance(s, (ast.FunctionDef, ast.AsyncFunctionDef)):
            nf = self.prog.func_of_node[id(s)]
            v = {("func", nf.qualname)}
            if cls is not None:
                self.add(("CA", cls.qualname, s.name), v)
            else:
                self.assign(f, ast.Name(id=s.name, ctx=ast.Store()), v)
            return
        if isinstance(s, ast.ClassDef):
            c = self.prog.class_of_node[id(s)]
            self.assign(f, ast.Name(id=s.name, ctx=ast.Store()), {("class", c.qualname)})
            self.walk_body(f, s.body, c)
            return
        if isinstance(s, ast.Assign):
            vals = self.ev(f, s.value)
            for t in s.targets:
                if cls is not None and isinstance(t, ast.Name):
                    self.add(("CA", cls.qualname, t.id), vals)
                else:
                    self.assign(f, t, vals)
            return
        if isinstance(s, ast.AnnAssign):
            if s.value is not None:
                self.assign(f, s.target, self.ev(f, s.value))
            return
        if isinstance(s, ast.AugAssign):
            vals = self.ev(f, s.value)
            tv = self.ev_target_load(f, s.target)
            for t in tv:
                if t[0] == "cont":
                    self.add(("F", t, "elem"), self.elems(vals))
            self.assign(f, s.target, {v for v in vals if v[0] in ("cont", "tuple")})
            return
        if isinstance(s, ast.Return):
            if s.value is not None:
                self.add(("R", q), self.ev(f, s.value))
            return
        if isinstance(s, ast.Expr):
            v = s.value
            if isinstance(v, (ast.Yield, ast.YieldFrom)) and v.value is not None:
                vals = self.ev(f, v.value)
                c = ("cont", f"gen:{q}")
                self.add(("F", c, "elem"), vals if isinstance(v, ast.Yield) else self.elems(vals))
                self.add(("R", q), {c})
            else:
                self.ev(f, v)
            return
        if isinstance(s, ast.If):
            t = static_truth(s.test)
            self.ev(f, s.test)
            if t is not False:
                self.walk_body(f, s.body, cls)
            if t is not True:
                self.walk_body(f, s.orelse, cls)
            return
        if isinstance(s, (ast.For, ast.AsyncFor)):
            self.assign(f, s.target, self.elems(self.ev(f, s.iter)))
            self.walk_body(f, s.body)
            self.walk_body(f, s.orelse)
            return
        if isinstance(s, ast.While):
            self.ev(f, s.test)
            self.walk_body(f, s.body)
            self.walk_body(f, s.orelse)
            return
        if isinstance(s, (ast.With, ast.AsyncWith)):
            for it in s.items:
                vals = self.ev(f, it.context_expr)
                if it.optional_vars is not None:
                    self.assign(f, it.optional_vars, vals)
            self.walk_body(f, s.body)
            return
        if isinstance(s, ast.Try) or s.__class__.__name__ == "TryStar":
            self.walk_body(f, s.body, cls)
            for h in s.handlers:
                if h.name:
                    tname = norm(h.type) if h.type is not None else "BaseException"
                    self.assign(f, ast.Name(id=h.name, ctx=ast.Store()),
                                {("obj", self.site(f, h), "exc:" + tname)})
                self.walk_body(f, h.body, cls)
            self.walk_body(f, s.orelse, cls)
            self.walk_body(f, s.finalbody, cls)
            return
        if isinstance(s, ast.Import):
            for a in s.names:
                r = self.prog.resolve_import(f.module, s, a)
                name = (a.asname or a.name.split(".")[0])
                self.assign(f, ast.Name(id=name, ctx=ast.Store()), {self._import_val(r)} if r[0] != "global" else set())
            return
        if isinstance(s, ast.ImportFrom):
            for a in s.names:
                r = self.prog.resolve_import(f.module, s, a)
                name = a.asname or a.name
                if r[0] == "global":
                    vals = set(self.get(("G", r[1], r[2])))
                else:
                    vals = {self._import_val(r)}
                self.assign(f, ast.Name(id=name, ctx=ast.Store()), vals)
            return
        if isinstance(s, ast.Raise):
            if s.exc is not None:
                self.ev(f, s.exc)
            if s.cause is not None:
                self.ev(f, s.cause)
            return
        if isinstance(s, ast.Assert):
            self.ev(f, s.test)
            return
        if isinstance(s, ast.Delete):
            return
        if isinstance(s, ast.Match):
            self.ev(f, s.subject)
            for c in s.cases:
                self.walk_body(f, c.body)
            return
        # Pass, Break, Continue, Global, Nonlocal
        return

    def _import_val(self, r):
        if r[0] == "module":
            return ("module", r[1])
        return ("ext", r[1])

    # --------------------------------------------------------------- queries
    def callees(self, call_node):
        return {q for q, _ in self.calls.get(id(call_node), ()) if not q.startswith("<alloc>")}

    def callee_kinds(self, call_node):
        return set(self.calls.get(id(call_node), ()))

    def call_sites_in(self, func):
        for n in func_nodes(func):
            if isinstance(n, ast.Call):
                yield n

    def describe(self, v):
        if v[0] == "obj":
            fq, txt = self.site_info.get(v[1], ("?", "?"))
            return f"{v[2].split(':')[-1]}@{fq.split(':')[-1]}[{txt}]"
        if v[0] in ("cont", "tuple"):
            fq, txt = self.site_info.get(v[1], ("?", v[1]))
            return f"{v[0]}@{fq.split(':')[-1]}[{txt}]"
        return str(v)


