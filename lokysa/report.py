"""Obligation bookkeeping, known-findings matching, evidence and witnesses."""
import json
import os
import re
import time

from .model import AnalysisError

VERIF = os.path.dirname(os.path.dirname(os.path.abspath(__file__)))
EVIDENCE_DIR = os.environ.get("LOKYSA_EVIDENCE_DIR") or os.path.join(VERIF, "evidence")
REPLAY_DIR = os.path.join(EVIDENCE_DIR, "replay")
KNOWN = os.path.join(VERIF, "known_findings.json")


def _norm_construct(s):
    return re.sub(r"\s+", " ", s).strip()[:200]


class Finding:
    def __init__(self, rule, func, construct, message, loc=None, path=None):
        self.rule = rule
        self.func = func
        self.construct = _norm_construct(construct)
        self.message = message
        self.loc = loc
        self.path = path or []

    @property
    def key(self):
        return f"{self.rule}|{self.func}|{self.construct}"

    def to_json(self):
        return {"rule": self.rule, "function": self.func, "construct": self.construct,
                "message": self.message, "loc": self.loc, "path": self.path, "key": self.key}


class Report:
    """Collects obligations (rule instances) and findings for one property."""

    def __init__(self, prop):
        self.prop = prop
        self.obligations = []  # dict(rule, instance, ok, loc)
        self.findings = []
        self.notes = []
        self.info = {}
        self.floors = {}
        self.trusted = []
        self.analysis_errors = []

    def ok(self, rule, instance, loc=None):
        self.obligations.append({"rule": rule, "instance": instance, "ok": True, "loc": loc})

    def fail(self, rule, func, construct, message, loc=None, path=None, instance=None):
        f = Finding(rule, func, construct, message, loc, path)
        if any(x.key == f.key for x in self.findings):
            return f
        self.findings.append(f)
        self.obligations.append({"rule": rule, "instance": instance or f"{func}: {f.construct}",
                                 "ok": False, "loc": loc, "message": message})
        return f

    def check(self, cond, rule, instance, func, construct, message, loc=None, path=None):
        if cond:
            self.ok(rule, instance, loc)
        else:
            self.fail(rule, func, construct, message, loc, path, instance=instance)
        return cond

    def count(self, rule):
        return sum(1 for o in self.obligations if o["rule"] == rule)

    def floor(self, rule, n):
        """Fail the *analysis* (not the property) if fewer than n instances of
        the rule were found: a rule matching nothing passes vacuously."""
        self.floors[rule] = n
        c = self.count(rule)
        if c < n and not any(f.rule == rule for f in self.findings):
            raise AnalysisError(f"rule {rule}: {c} instances found, floor is {n} "
                                f"(anchor moved or idiom not recognised)")

    def _run_one(self, r, e):
        """run one rule function on engine e, recording into self; returns an error text or None."""
        try:
            r(e, self)
        except AnalysisError as ex:
            return f"{getattr(r, '__name__', r)}: {ex}"
        except Exception as ex:  # noqa -- an internal error of one rule is an analysis error of that rule, never a pass and never a violation
            import traceback
            tb = traceback.extract_tb(ex.__traceback__)[-1]
            return (f"{getattr(r, '__name__', r)}: internal error {type(ex).__name__}: {ex} ({os.path.basename(tb.filename)}:{tb.lineno}); "
                    "the code has a shape this rule does not understand")
        return None

    def _snapshot(self):
        return (len(self.obligations), len(self.findings), len(self.notes), dict(self.info), dict(self.floors), list(self.trusted))

    def _rollback(self, snap):
        delta = (self.obligations[snap[0]:], self.findings[snap[1]:], self.notes[snap[2]:], dict(self.info), dict(self.floors), list(self.trusted))
        del self.obligations[snap[0]:]
        del self.findings[snap[1]:]
        del self.notes[snap[2]:]
        self.info, self.floors, self.trusted = dict(snap[3]), dict(snap[4]), list(snap[5])
        return delta

    def _restore(self, delta):
        self.obligations += delta[0]
        self.findings += delta[1]
        self.notes += delta[2]
        self.info, self.floors, self.trusted = delta[3], delta[4], delta[5]

    def run_rules(self, e, rules):
        """Run every rule; an AnalysisError in one rule does not hide the violations found by the others.  Errors are
        re-raised at the end only if no violation at all was found (never a pass).

        Refinement: when a rule reports a violation that is not a listed known finding, or declines, it is run again on
        equivalent programs in which single-call-site private helpers are inlined (inline.py: the inverse of extract-method).
        If the rule accepts one of them -- no violation, no error, its floors met -- that verdict stands: the variants are
        the same program written differently, and an intraprocedural rule follows its path through them."""
        errors = []
        known = load_known()
        refine = os.environ.get("LOKYSA_NO_REFINE") != "1" and hasattr(e, "variant")
        for r in rules:
            snap = self._snapshot()
            err = self._run_one(r, e)
            bad = [f for f in self.findings[snap[1]:] if match_known(self.prop, f, known) is None]
            if (bad or err) and refine:
                first = self._rollback(snap)
                accepted = False
                for sel in _selections(e, bad, err):
                    v = e.variant(sel)
                    if v is None:
                        continue
                    err2 = self._run_one(r, v)
                    bad2 = [f for f in self.findings[snap[1]:] if match_known(self.prop, f, known) is None]
                    if not bad2 and not err2:
                        names = ", ".join(sorted(k[2] for k in v.prog.inlined))
                        self.ok("R-REFINE", f"{getattr(r, '__name__', r)}: decided on the equivalent program with the single-call-site helper(s) {names} inlined "
                                f"(on the program as written: {('violation ' + bad[0].rule + ' in ' + bad[0].func) if bad else 'declined'})", None)
                        self.info.setdefault("refined_rules", []).append({"rule_function": getattr(r, "__name__", str(r)), "inlined": names})
                        accepted = True
                        err = None
                        break
                    self._rollback(snap)
                if not accepted:
                    self._restore(first)
            if err:
                errors.append(err)
        self.analysis_errors = getattr(self, "analysis_errors", []) + errors
        for er in errors:
            self.note("analysis incomplete: " + er)

    def note(self, s):
        self.notes.append(s)

    def trust(self, s):
        if s not in self.trusted:
            self.trusted.append(s)


# Search heuristic only (never decides a verdict): the single-call-site private helpers that exist on the tree the rules were
# validated on, i.e. the units the rules already know as separate functions.  The first "inline everything" variant tried leaves
# these alone and inlines every *other* eligible helper -- the ones an extract-method / split-into-steps refactoring introduced.
# If one of them is renamed or removed upstream the only effect is that this particular variant is less likely to be accepted.
BASELINE_UNITS = frozenset({
    "_launch", "_kill", "_sendback_result", "_ensure_executor_running", "_wait_job_completion", "_cpu_count_cgroup", "_cpu_count_user",
    "_count_physical_cores_darwin", "_kill_process_tree_without_psutil", "_windows_taskkill_process_tree", "_format_exitcodes",
    "_check_not_importing_main", "_chain_initializers", "_enable_faulthandler_if_needed", "_resize", "_start_executor_manager_thread",
    "_check_max_depth", "_check_system_limits", "_adjust_process_count", "_setup_queues", "_python_exit", "_process_worker", "_feed",
})


def _selections(e, bad, err=None):
    """helper selections to try, most specific first: helpers related to the functions a finding names (the helper itself, or
    a helper called there), one at a time, then together, then every eligible helper."""
    try:
        cands = e.inline_candidates()
    except Exception:  # noqa
        return
    names = sorted({k[2] for k in cands})
    rel = []
    for f in bad:
        short = f.func.split(".")[-1]
        if short in names and short not in rel:
            rel.append(short)
        for q, fn in e.prog.funcs.items():
            if fn.short == f.func or q.endswith(":" + f.func):
                import ast as _ast
                for n in _ast.walk(fn.node):
                    if isinstance(n, _ast.Call):
                        nm = n.func.attr if isinstance(n.func, _ast.Attribute) else n.func.id if isinstance(n.func, _ast.Name) else None
                        if nm in names and nm not in rel:
                            rel.append(nm)
    if bad and not rel and not [n for n in names if n not in BASELINE_UNITS]:
        return          # no helper is called from (or is) a function the findings name, none was introduced: inlining changes nothing there
    seen = set()
    tail = []
    if not bad:
        # a rule that declined names no function: try the helpers one by one, those of a module the message mentions first
        def pri(n):
            paths = [k[0] for k in cands if k[2] == n]
            return 0 if err and any(p_[:-3].replace("/", ".") in err for p_ in paths) else 1
        tail = [[n] for n in sorted((n for n in names if n not in rel), key=lambda n: (pri(n), n))][:12]
    fresh = [n for n in names if n not in BASELINE_UNITS]
    for sel in [[n] for n in rel] + ([rel] if len(rel) > 1 else []) + ([fresh] if fresh else []) + [None] + tail:
        key = None if sel is None else frozenset(sel)
        if key in seen:
            continue
        seen.add(key)
        yield sel


def load_known():
    if not os.path.exists(KNOWN):
        return {"known": [], "fixed": []}
    with open(KNOWN) as fh:
        return json.load(fh)


def match_known(prop, finding, known):
    for k in known.get("known", []):
        if prop in k.get("properties", []) and k["rule"] == finding.rule \
                and k["function"] == finding.func and _norm_construct(k["construct"]) == finding.construct:
            return k
    return None


def write_evidence(prop, tier, seed, report, wall, violations, known_hits, engine, extra=None, explanation=""):
    os.makedirs(EVIDENCE_DIR, exist_ok=True)
    obl = report.obligations
    rules = sorted({o["rule"] for o in obl})
    distinct = len({(o["rule"], o["instance"]) for o in obl})
    samples = []
    seen_rules = set()
    for o in obl:
        if o["rule"] not in seen_rules:
            seen_rules.add(o["rule"])
            samples.append({"rule": o["rule"], "instance": o["instance"], "verdict": "holds" if o["ok"] else "violated", "loc": o["loc"]})
    for o in obl:
        if not o["ok"]:
            samples.append({"rule": o["rule"], "instance": o["instance"], "verdict": "violated", "loc": o["loc"], "message": o.get("message")})
    cov = {
        "explanation": explanation,
        "obligations": len(obl),
        "discharged": sum(1 for o in obl if o["ok"]),
        "evaluations": len(obl),
        "distinct_nontrivial": distinct,
        "rule": "one obligation per (rule, instance) extracted from /repo's current source; an instance is a call "
                "site, CFG path class, guard row, table row or resource located through the resolved program; "
                "distinct = distinct (rule, instance) pairs",
        "samples": samples[:60],
        "rules": {r: {"instances": sum(1 for o in obl if o["rule"] == r),
                      "violated": sum(1 for o in obl if o["rule"] == r and not o["ok"]),
                      "floor": report.floors.get(r)} for r in rules},
        "trusted_base": report.trusted,
        "exhaustive": True,
        "known_findings_matched": [k["id"] for k in known_hits],
        "notes": report.notes,
    }
    if engine is not None:
        cov["analysed"] = {
            "files": engine.prog.digests(),
            "functions": sum(1 for f in engine.prog.funcs.values() if f.module.name != "__user__"),
            "call_sites_resolved": len(engine.pt.calls),
            "points_to_rounds": engine.pt.rounds,
            "skipped_build_arms": engine.prog.skipped_arms,
            "engine_build_s": round(engine.build_time, 3),
        }
        if getattr(engine, "_anchors", None) is not None:
            try:
                cov["anchors_resolved_by_role"] = {k: (v if isinstance(v, str) else v[:4]) for k, v in engine._anchors.summary_resolved().items()}
            except Exception:
                pass
    cov.update(report.info)
    if extra:
        cov.update(extra)
    ev = {
        "property_id": prop,
        "tier": tier,
        "seed": seed,
        "level": "other",
        "coverage": cov,
        "assumptions": report.trusted,
        "wall_s": round(wall, 3),
        "violations": violations,
    }
    path = os.path.join(EVIDENCE_DIR, f"{prop}.json")
    with open(path, "w") as fh:
        json.dump(ev, fh, indent=1, default=str)
    return path


def write_replay(prop, finding):
    os.makedirs(REPLAY_DIR, exist_ok=True)
    h = abs(hash(finding.key)) % (10 ** 8)
    import hashlib
    h = hashlib.sha1(finding.key.encode()).hexdigest()[:10]
    path = os.path.join(REPLAY_DIR, f"{prop}-{finding.rule}-{h}.json")
    with open(path, "w") as fh:
        json.dump({"property": prop, **finding.to_json()}, fh, indent=1)
    return path


def clean_replays(prop):
    if os.path.isdir(REPLAY_DIR):
        for f in os.listdir(REPLAY_DIR):
            if f.startswith(prop + "-"):
                try:
                    os.remove(os.path.join(REPLAY_DIR, f))
                except OSError:
                    pass
