"""C18 -- every worker is a fresh, initialised interpreter with only intended inheritance."""
from ..rules import process as P
from ..rules import timeouts as T
from ..rules import contain as C

EXPLANATION = (
    'Static analysis. Decides: the low-level fork/exec gets close_fds=True, pass_fds derived only from the keep-list, '
    'the environment {**os.environ, **env} (overlay last); the keep-list provably contains only the child ends of the '
    'two pipes, the tracker fd and descriptors added during pickling of the process object, never a parent end; child '
    'ends and the error pipe are closed on all paths (R-SPAWN-FRESH); in the worker every path to the first task read '
    'runs initializer(*initargs) when configured and its failure cannot reach the loop (R-INIT-FIRST); the single '
    "spawn site ships its 8 arguments in the worker's parameter order, each role object (call queue, result queue, "
    'management lock, exit lock) bound to the parameter used as such, initializer/initargs/timeout by field, depth+1, '
    'env= (R-ARGS, R-SPAWN-SITE: respawn and resize cannot differ); init_main_module defaults to False and '
    'main-module keys are shipped and applied only under it (R-MAIN-FLAG); poll maps signalled -> -signal, exited -> '
    'status, only for its own child; the sentinel has a closing finaliser (R-EXITCODE); the worker is started with '
    "`-m` of this copy's module (R-VENDOR). Also decided: the initializer is tested by identity only, never by truth "
    'value (R-INIT-TRUTH); get_context resolves `method or <default> or "loky"` on every (requested, default) pair '
    '(R-CTX-NAME); the initializer keeps its own initargs through the chaining helpers of loky.initializers: pairs enter in order, '
    'are filtered together, re-assembled at the same index, zipped in step by the compound initializer, provider answers are '
    '(callable, tuple of matching arity) (R-INIT-CHAIN). Not decided: the descriptor table of a live worker.'
)


def run(e, R, tier):
    R.run_rules(e, [
        P.r_spawn_fresh,
        P.r_env_overlay_kept,
        P.r_init_first,
        P.r_args,
        T.r_spawn_site,
        P.r_main_flag,
        P.r_exitcode,
        P.r_vendor,
        P.r_init_truth,
        P.r_ctx_name,
        P.r_init_chain,
    ])
