"""C10 -- resizing preserves submitted work and surviving workers, and terminates."""
from ..rules import liveness as L
from ..rules import reusable as X
from ..rules import timeouts as T
from ..rules import broken as B

EXPLANATION = (
    "Static analysis. Decides: _resize and the reusable submit hold the same lock object; the wait for job completion "
    "dominates the sentinel posts; max_workers is written under the processes management lock before the posts; exactly "
    "(alive - target) sentinels are posted, under that lock; no kill/terminate effect (survivors are kept); the pool is "
    "topped up after the shrink phase and the manager is woken afterwards (R-WAKE spawn instance); all three polling loops "
    "can end in the failure post-state (R-POLL); the unbounded wait for the pending table to empty is backed by the obligation that every entry leaves the table -- cancelled items, every feeder error class, delivered results (R-RESIZE-DRAIN). Not decided: which pids survive."
)


def run(e, R, tier):
    R.run_rules(e, [
        L.r_lock_order,
        L.r_iter_snapshot,
        X.r_resize,
        X.r_resize_drain,
        T.r_timeout_exit,
        lambda e, R: L.r_poll(e, R, only_funcs={f.qualname for f in e.prog.funcs.values() if f.module.name == "loky.reusable_executor"}),
        L.r_wake,
        B.r_mgr_total,
    ])
