"""C11 -- the resource tracker's reference counts are exact."""
from ..rules import tracker as T
from ..rules import process as Pr

EXPLANATION = (
    'Static analysis. The tracker loop is a small state machine whose transition function is visible in the code: the '
    'per-line dispatch is abstractly interpreted over (command literal or unknown, resource type known/unknown, '
    'refcount absent/1/2/3) -- 40+ rows -- and compared with the refcounting contract: REGISTER +1 (1 if absent) no '
    'cleanup; UNREGISTER delete, no cleanup; MAYBE_UNLINK -1 and, iff the post-decrement count is 0, delete + exactly '
    'one cleanup of that type with that name; PROBE nothing; unknown command or type raise before any mutation '
    '(R-RT-TABLE). The dispatch sits inside a BaseException barrier that cannot leave the loop, the only loop exit is '
    'EOF, the sweep is in finally, visits every type once and folders last, each name in its own try (R-RT-LOOP). '
    "name = ':'-join of the middle fields; every command literal sent by loky's and the stdlib's clients (read from "
    'the stdlib AST) is dispatched; every resource type used in loky has a cleanup function (R-RT-PROTO). The '
    'abstract interpreter evaluates the dispatch AST over an abstract domain; it does not run loky. The EOF test '
    'looks at the unmodified readline() result (a blank line is malformed input, not EOF). loky stays vendorable: its '
    'own modules are imported relatively and the child interpreters (worker `-m`, tracker `-c`) are given the module '
    'name of this copy, never a literal (R-VENDOR). Also decided: the registry entry is deleted before its cleanup '
    'function runs (R-RT-TABLE). Not decided: OS unlink semantics.'
)


def run(e, R, tier):
    R.run_rules(e, [
        T.r_rt_table,
        T.r_rt_loop,
        T.r_rt_sweep,
        T.r_rt_proto,
        Pr.r_vendor,
    ])
