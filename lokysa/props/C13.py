"""C13 -- no named semaphore or tracked resource outlives its process tree."""
from ..rules import sync as S
from ..rules import tracker as T
from ..rules import process as Pr

EXPLANATION = (
    "Static analysis. Decides: in SemLock.__init__ every path that creates the C semaphore reaches the registration with "
    "the tracker (type 'semlock', the created semaphore's own name) and a finaliser on the object calling the cleanup with "
    "that same name; the cleanup unlinks and, in finally, unregisters the name it was given; an unpickled copy neither "
    "registers, unlinks nor installs a finaliser; every primitive (Lock, RLock, Semaphore, BoundedSemaphore, Condition's "
    "three semaphores and lock, Event) is built through SemLock.__init__ (R-SEM-LIFE); the loky context's factories "
    "return loky's own classes (R-CTX-FACTORY); the tracker's end-of-life sweep cleans every remaining name of every type "
    "(R-RT-LOOP) with the exact refcount table (R-RT-TABLE); the tracker is started under the module name of this copy, "
    "so a vendored loky still has one (R-VENDOR). Not decided: the kernel's semaphore namespace itself."
)


def run(e, R, tier):
    R.run_rules(e, [
        S.r_sem_life,
        S.r_ctx_factory,
        T.r_rt_loop,
        T.r_rt_sweep,
        T.r_rt_table,
        T.r_rt_proto,
        T.r_relaunch,
        Pr.r_vendor,
    ])
