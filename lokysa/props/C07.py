"""C07 -- idle-timeout exits are invisible: never 'broken', never a lost task."""
from ..rules import liveness as L
from ..rules import shutdown as S
from ..rules import timeouts as T
from ..rules import scenario as SC

EXPLANATION = (
    "Static analysis. Decides on the worker's CFG that a timeout exit is only possible through a successful "
    'NON-blocking probe of the processes management lock (failed probe => back to waiting), never with a task in '
    'hand, and that every clean exit announces its pid before waiting on its exit lock (R-TIMEOUT-EXIT); that the '
    "manager's pid branch removes under the lock -> releases that worker's exit lock -> joins, and never flags broken "
    '(R-EXIT-HANDSHAKE); that the respawn guard, evaluated as a decision table over (pending, running, workers), is '
    "true on every row with pending>0 and no worker left, its inner condition equals 'pool below max_workers', and "
    'the spawn is under the lock (R-RESPAWN-GUARD, R-SPAWN-LOCKED); plus R-NULLED/R-MGR-SELF (known finding D4; D3 '
    'repaired in /repo: respawn after shutdown(wait=False) / executor GC). Also decided: after every exit '
    'announcement the worker stops the executors nested in it before returning (R-EXIT-NESTED). Not decided: the '
    'outcome of each individual race; the UserWarning.'
)


def run(e, R, tier):
    R.run_rules(e, [
        T.r_timeout_exit,
        L.r_iter_snapshot,
        S.r_exit_handshake,
        T.r_respawn_guard,
        T.r_spawn_locked,
        T.r_spawn_site,
        L.r_nulled,
        L.r_mgr_self,
        SC.r_scn_worker,
        SC.r_scn_result,
        T.r_exit_nested,
    ])
    R.trust("queue get(timeout) raises Empty on timeout; Lock.acquire(block=False) never blocks")
