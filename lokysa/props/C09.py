"""C09 -- get_reusable_executor always returns a live, correctly configured singleton."""
from ..rules import liveness as L
from ..rules import reusable as X

EXPLANATION = (
    "Static analysis. Decides: every access to the singleton globals is under the executor lock; the replace condition "
    "(decision table, 8 rows) equals broken or shutdown or not reuse, with reuse='auto' resolved by equality of the "
    "requested and the stored kwargs; argument completeness (every factory parameter except max_workers/kill_workers/reuse "
    "is a key of the compared+stored kwargs, the public function and the reusable constructor forward every parameter by "
    "name); on replacement shutdown(wait=True, kill_workers=...) precedes the reset of the globals which precedes the "
    "returned recursive construction with the new arguments; ids grow by one under the lock; the reuse branch resizes to "
    "the requested size, and the resize itself publishes the new size only together with the sentinels, after the wait for "
    "running jobs (R-RESIZE: an interrupted resize must not leave the new size recorded without the workers); the factory call terminates structurally (R-POLL on the resize loops), and the unbounded wait for the pending table to empty is backed by the whole-program obligation that every entry leaves the table (R-RESIZE-DRAIN: cancelled items, every feeder error class, delivered results). Not decided: race outcomes as values."
)


def run(e, R, tier):
    R.run_rules(e, [
        L.r_lock_order,
        L.r_iter_snapshot,
        X.r_singleton,
        X.r_resize,
        X.r_resize_drain,
        lambda e, R: L.r_poll(e, R, only_funcs={f.qualname for f in e.prog.funcs.values() if f.module.name == "loky.reusable_executor"}),
    ])
