"""C16 -- wrap_non_picklable_objects is behaviour-preserving."""
from ..rules import pickling as P

EXPLANATION = (
    "Static analysis. Decides: every construction of a wrapper goes through the callable() dispatch (callable wrapper iff "
    "callable(obj)), including after a pickle round trip, and the class-wrapping path derives the wrapper class from the "
    "callable wrapper iff the wrapped class defines __call__ (R-WRAP-DISPATCH; the pinned tree violated this: D6, fixed); "
    "sibling constructors set the same field set, keep the requested flag and forward constructor arguments; __getattr__ "
    "forwards every name except exactly those fields (R-WRAP-FIELDS); __reduce__ returns (loads, (payload,)) when "
    "keep_wrapper is false and the re-wrapping constructor with the same flag otherwise, the payload being "
    "cloudpickle.dumps of the wrapped object (R-WRAP-REDUCE). Not decided: behaviour of arbitrary wrapped objects (values)."
)


def run(e, R, tier):
    R.run_rules(e, [
        P.r_wrap_dispatch,
        P.r_wrap_fields,
        P.r_wrap_reduce,
    ])
