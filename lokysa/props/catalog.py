"""Per-property manifest texts (level, note, technique)."""

CATALOG = {
    "C01": {
        "ref": "DESIGN.md section 4 C01, section 3",
        "technique": "static analysis: points-to + call graph roles; CFG must-pass-through (wake-up post-domination lifted to the API boundary), "
                     "typestate of fields nulled by shutdown, abstract evaluation of polling guards, lock-order / wait-for cycle search",
        "level": "Decides, on every path of the current source, ten structural necessary conditions of deadlock freedom (no lost wake-up, wake-up pipe "
                 "under its lock, single owner resolves a future, nothing dropped unresolved, manager exits only when nothing is pending, nulled-field "
                 "typestate, manager self-sufficiency, polling loops can end, acyclic wait-for graph, enabling facts of the manager's blocking calls). "
                 "Schedule-independent, which is what the single-schedule tests cannot give; it found five genuine hangs on the pinned tree. It does not "
                 "prove liveness as a whole.",
        "note": "Partial: necessary conditions only. Trusted: the extractor and points-to engine; stdlib facts (Queue.put starts the feeder, "
                "Thread.start runs run, Executor.map calls submit). Not decided: fairness/OS behaviour, worker death inside the shutdown phase, "
                "user callbacks re-entering the API on the manager thread. Known findings D3, D4 are listed in known_findings.json.",
    },
    "C02": {
        "ref": "DESIGN.md section 4 C02",
        "technique": "static analysis: wait-set completeness by expression expansion over points-to roles; exhaustive CFG path enumeration with "
                     "constant propagation of the (result, is_broken, exception) triple; dominance ordering of flag/fail/kill/join; class-hierarchy check",
        "level": "Decides for all paths of the current source that the manager waits on the sentinel of every registered worker plus both readers, "
                 "that every path class of the wait function returns the right (is_broken, exception) pair (sentinel-only => TerminatedWorkerError with "
                 "exit codes, clean pid+sentinel never a crash), that broken => flag, fail all, kill trees (children enumerated before the parent is "
                 "killed), join, that submit re-raises the stored error under the lock before mutating state, and that the exception classes are the "
                 "concurrent.futures ones. Crash points and schedules are covered because the rules are path properties, not runs.",
        "note": "Partial: structural clauses only. Not decided: that the kernel reports sentinel readiness, detection latency, exit-code text, "
                "the win32 arm. Trusted: extractor, points-to, stdlib semantics of multiprocessing.connection.wait.",
    },
    "C05": {
        "ref": "DESIGN.md section 4 C05",
        "technique": "static analysis: dominance ordering of shutdown effects, guard decision table (16 rows) of the shutting-down predicate, "
                     "escape analysis + heap reachability for the manager->executor reference, lock context of joins",
        "level": "Decides for every path of the current source: shutdown() flags under the lock, wakes, joins only on `wait` under the lock shared "
                 "with the at-exit hook; the shutting-down predicate equals G or ((N or S) and not B) on all 16 rows; the manager exits only on "
                 "empty pending; the drain releases every exit lock under the management lock, posts exactly as many non-blocking sentinels as "
                 "released workers, then closes call queue -> joins feeder -> closes result queue -> closes wake-up under its lock -> joins every "
                 "worker; the manager holds no strong reference to the executor; the at-exit hook wakes all then joins all registered managers.",
        "note": "Partial: structural clauses. Known findings D3/D4 (respawn after shutdown(wait=False) / after executor GC) are listed in "
                "known_findings.json. Not decided: a worker crashing inside the shutdown phase; effectiveness of join_thread().",
    },
    "C07": {
        "ref": "DESIGN.md section 4 C07",
        "technique": "static analysis: CFG path rules on the worker main (non-blocking probe, announce-then-wait, no exit with a task), "
                     "decision table of the respawn guard over order types of (pending, running, workers), lock context at spawn sites",
        "level": "Decides on all paths of the worker loop that a timeout exit goes through a successful non-blocking probe of the management lock, "
                 "that a failed probe resumes waiting, that no exit happens with a task in hand, that every clean exit announces the pid before "
                 "waiting on the exit lock; on the manager side remove-under-lock -> release -> join without any broken/kill effect; the respawn "
                 "guard is true on every row with pending>0 and no worker; spawn under the management lock.",
        "note": "Partial. Known findings D3/D4 apply (respawn needs the live executor object and its un-nulled fields). Not decided: race outcomes as values.",
    },
    "C08": {
        "ref": "DESIGN.md section 4 C08",
        "technique": "static analysis: who-may-insert on the worker table (points-to), syntactic normal form of the spawn-loop guard, "
                     "must-pass-through of the top-up in submit, decision table of the top-up condition",
        "level": "Decides that the single insertion site of the worker table is guarded by len(table) < max_workers (strict), one insertion per "
                 "iteration after start(), that every accepting submit path reaches the top-up whose condition is true whenever the pool is "
                 "short, that spawn callers hold the management lock, and that the worker runs one call at a time.",
        "note": "Partial: the upper-bound clause is decided structurally; 'parallelism is actually delivered' is scheduling/performance and is not decided.",
    },
    "C03": {
        "ref": "DESIGN.md section 4 C03",
        "technique": "static analysis: role-flow agreement of constructor fields (id, fn, args, kwargs, value, error) across submit -> work item -> "
                     "call item -> worker -> result item -> manager; dominance / control dependence of the single dispatch site; lock context of id allocation",
        "level": "Decides routing structurally for all paths: ids come from a counter that only grows by one under the lock and the pending key, the "
                 "queued id and the pre-increment counter are one term; fn/args/kwargs travel one-to-one and the call item computes "
                 "fn(*args, **kwargs) of its own fields; value and exception fields are never swapped and are reported under the running item's id; "
                 "the manager resolves the item popped under that id with the matching field; exactly one dispatch site, on the manager thread, "
                 "only when set_running_or_notify_cancel() is true, fed by a consuming get; no re-queue; no retry in the worker.",
        "note": "Partial: map(...) == list(map(...)) for every chunksize/length, order of the chunk chain and execution counts under respawn are "
                "runtime values and are NOT decided (an AST match on the reverse/pop idiom would be a frozen fragment).",
    },
    "C04": {
        "ref": "DESIGN.md section 4 C04",
        "technique": "static analysis: handler-breadth and handler-continuation rules on CFGs with labelled exceptional edges; must-pass-through of "
                     "slot release and error hook in the feeder; acquire/release pairing on the pipe write lock; effect queries (no broken/kill effect)",
        "level": "Decides that every call of user code in the worker, the result put and every done-callback sit inside a BaseException handler that "
                 "reports under the task's own id and neither re-raises nor leaves the loop; that the feeder pickles before taking the pipe lock, "
                 "releases it in finally, and on error releases the queue slot and calls the hook on every continuation; that the hook fails only "
                 "its own future with PicklingError/RuntimeError + cause, wakes the manager and never flags broken / kills; that the remote "
                 "traceback is attached as __cause__ of the task's own exception object.",
        "note": "Partial: containment is decided as control-flow/effect structure; the values of sibling outcomes and send_bytes size limits are not.",
    },
    "C06": {
        "ref": "DESIGN.md section 4 C06",
        "technique": "static analysis: parameter-flow of kill_workers across four functions, control dependence on the kill flag, dominance order "
                     "fail-then-kill, kill-tree enumeration-before-kill order in both implementations",
        "level": "Decides that kill_workers=True reaches the flag (and is not reset by the manager), that on the flag's branch every pending item is "
                 "atomically removed and failed with ShutdownExecutorError before the kill, that the kill empties the worker table and kills every "
                 "tree with children enumerated before their parent dies and reaped afterwards, after which the manager leaves through the "
                 "empty-pending exit.",
        "note": "Partial: wall-clock promptness and the behaviour of psutil/pgrep are not decided.",
    },
    "C09": {
        "ref": "DESIGN.md section 4 C09",
        "technique": "static analysis: lock context of every access to the singleton globals, decision table of the replace condition, "
                     "set comparison of factory parameters against kwargs keys (argument completeness), dominance order of replacement steps, abstract "
                     "evaluation of the resize polling guards",
        "level": "Decides for every path of the factory: globals only under the executor lock; replace iff broken or shutdown or not reuse (8 rows), "
                 "'auto' = equality of requested and stored kwargs; no constructor argument can be silently dropped (public function -> factory -> "
                 "kwargs -> constructor -> base constructor, by name); shutdown(wait=True) -> reset -> returned recursive construction; ids grow by "
                 "one under the lock; reuse resizes to the requested size; the call's polling loops can end.",
        "note": "Partial: outcomes of thread races as values are not decided; the health of the returned executor relies on C01/C02 clauses.",
    },
    "C10": {
        "ref": "DESIGN.md section 4 C10",
        "technique": "static analysis: lock identity between submit and resize (points-to tokens), dominance order of wait-jobs / size write / "
                     "sentinel posts, symbolic sentinel count, effect query (no kill), abstract evaluation of the three polling guards",
        "level": "Decides that submit and _resize are serialised by one lock object, that job completion is awaited before sentinels, that the new "
                 "size is written under the management lock before exactly alive-target sentinels are posted under it, that nothing is killed, "
                 "that the pool is topped up and the manager woken afterwards, and that every wait loop terminates in the failure post-state.",
        "note": "Partial: which pids survive is a runtime value and is not decided.",
    },
}

NOT_APPLICABLE = {}
