"""Per-property manifest texts (level, note, technique)."""

CATALOG = {
    "C01": {
        "ref": "DESIGN.md section 4 C01, section 3",
        "technique": "static analysis: points-to + call graph roles; CFG must-pass-through (wake-up post-domination lifted to the API boundary), "
                     "typestate of fields nulled by shutdown, abstract evaluation of polling guards, lock-order / wait-for cycle search",
        "level": "Decides, on every path of the current source, ten structural necessary conditions of deadlock freedom (no lost wake-up, wake-up pipe "
                 "under its lock, single owner resolves a future, nothing dropped unresolved, manager exits only when nothing is pending, nulled-field "
                 "typestate, manager self-sufficiency, polling loops can end, acyclic wait-for graph, enabling facts of the manager's blocking calls). "
                 "Schedule-independent, which is what the single-schedule tests cannot give; it found five genuine hangs on the pinned tree. It does not "
                 "prove liveness as a whole.",
        "note": "Partial: necessary conditions only. Trusted: the extractor and points-to engine; stdlib facts (Queue.put starts the feeder, "
                "Thread.start runs run, Executor.map calls submit). Not decided: fairness/OS behaviour, worker death inside the shutdown phase, "
                "user callbacks re-entering the API on the manager thread. Known findings D4 (no respawn once the executor object was collected) and D13 (manager blocked in recv() when a worker dies in the middle of writing a large result) are listed in known_findings.json; D1-D3, D5-D12 were repaired in /repo with fix: commits.",
    },
    "C02": {
        "ref": "DESIGN.md section 4 C02",
        "technique": "static analysis: wait-set completeness by expression expansion over points-to roles; exhaustive CFG path enumeration with "
                     "constant propagation of the (result, is_broken, exception) triple; dominance ordering of flag/fail/kill/join; class-hierarchy check",
        "level": "Decides for all paths of the current source that the manager waits on the sentinel of every registered worker plus both readers, "
                 "that every path class of the wait function returns the right (is_broken, exception) pair (sentinel-only => TerminatedWorkerError with "
                 "exit codes, clean pid+sentinel never a crash), that broken => flag, fail all, kill trees (children enumerated before the parent is "
                 "killed), join, that submit re-raises the stored error under the lock before mutating state, and that the exception classes are the "
                 "concurrent.futures ones. Crash points and schedules are covered because the rules are path properties, not runs.",
        "note": "Partial: structural clauses only. Known finding D13 (a worker killed in the middle of writing a large result leaves the manager in a blocking "
                "recv(): the death is never detected) is listed in known_findings.json. Not decided: that the kernel reports sentinel readiness, detection "
                "latency, exit-code text, the win32 arm. Trusted: extractor, points-to, stdlib semantics of multiprocessing.connection.wait.",
    },
    "C05": {
        "ref": "DESIGN.md section 4 C05",
        "technique": "static analysis: dominance ordering of shutdown effects, guard decision table (16 rows) of the shutting-down predicate, "
                     "escape analysis + heap reachability for the manager->executor reference, lock context of joins",
        "level": "Decides for every path of the current source: shutdown() flags under the lock, wakes, joins only on `wait` under the lock shared "
                 "with the at-exit hook; the shutting-down predicate equals G or ((N or S) and not B) on all 16 rows; the manager exits only on "
                 "empty pending; the drain releases every exit lock under the management lock, posts exactly as many non-blocking sentinels as "
                 "released workers, then closes call queue -> joins feeder -> closes result queue -> closes wake-up under its lock -> joins every "
                 "worker; the manager holds no strong reference to the executor; the at-exit hook wakes all then joins all registered managers.",
        "note": "Partial: structural clauses. Known finding D4 (no respawn after the executor object was collected) is listed in "
                "known_findings.json. Not decided: a worker crashing inside the shutdown phase; effectiveness of join_thread().",
    },
    "C07": {
        "ref": "DESIGN.md section 4 C07",
        "technique": "static analysis: CFG path rules on the worker main (non-blocking probe, announce-then-wait, no exit with a task), "
                     "decision table of the respawn guard over order types of (pending, running, workers), lock context at spawn sites",
        "level": "Decides on all paths of the worker loop that a timeout exit goes through a successful non-blocking probe of the management lock, "
                 "that a failed probe resumes waiting, that no exit happens with a task in hand, that every clean exit announces the pid before "
                 "waiting on the exit lock; on the manager side remove-under-lock -> release -> join without any broken/kill effect; the respawn "
                 "guard is true on every row with pending>0 and no worker; spawn under the management lock.",
        "note": "Partial. Known finding D4 applies (the respawn needs the live executor object). Not decided: race outcomes as values.",
    },
    "C08": {
        "ref": "DESIGN.md section 4 C08",
        "technique": "static analysis: who-may-insert on the worker table (points-to), syntactic normal form of the spawn-loop guard, "
                     "must-pass-through of the top-up in submit, decision table of the top-up condition",
        "level": "Decides that the single insertion site of the worker table is guarded by len(table) < max_workers (strict), one insertion per "
                 "iteration after start(), that every accepting submit path reaches the top-up whose condition is true whenever the pool is "
                 "short, that spawn callers hold the management lock, that the worker runs one call at a time, and that the capacity term of the "
                 "call queue is at least max_workers in force (evaluated over sample sizes; the manager is not woken when a worker takes an item).",
        "note": "Partial: the upper-bound clause is decided structurally; of 'parallelism is actually delivered' only the necessary conditions top-up, "
                "respawn count and queue capacity are decided (known finding D18: the reusable executor's capacity 2*cpu_count()+1 ignores max_workers).",
    },
    "C03": {
        "ref": "DESIGN.md section 4 C03",
        "technique": "static analysis: role-flow agreement of constructor fields (id, fn, args, kwargs, value, error) across submit -> work item -> "
                     "call item -> worker -> result item -> manager; dominance / control dependence of the single dispatch site; lock context of id allocation",
        "level": "Decides routing structurally for all paths: ids come from a counter that only grows by one under the lock and the pending key, the "
                 "queued id and the pre-increment counter are one term; fn/args/kwargs travel one-to-one and the call item computes "
                 "fn(*args, **kwargs) of its own fields; value and exception fields are never swapped and are reported under the running item's id; "
                 "the manager resolves the item popped under that id with the matching field; exactly one dispatch site, on the manager thread, "
                 "only when set_running_or_notify_cancel() is true, fed by a consuming get; no re-queue; no retry in the worker; failure vs success is "
                 "chosen by identity of the exception field, not its truth value; wrapped callables are rebuilt from their own pickled object.",
        "note": "Partial: map(...) == list(map(...)) for every chunksize/length, order of the chunk chain and execution counts under respawn are "
                "runtime values and are NOT decided (an AST match on the reverse/pop idiom would be a frozen fragment).",
    },
    "C04": {
        "ref": "DESIGN.md section 4 C04",
        "technique": "static analysis: handler-breadth and handler-continuation rules on CFGs with labelled exceptional edges; must-pass-through of "
                     "slot release and error hook in the feeder; acquire/release pairing on the pipe write lock; effect queries (no broken/kill effect)",
        "level": "Decides that every call of user code in the worker, the result put and every done-callback sit inside a BaseException handler that "
                 "reports under the task's own id and neither re-raises nor leaves the loop; that the feeder pickles before taking the pipe lock, "
                 "releases it in finally, and on error releases the queue slot and calls the hook on every continuation; that the hook fails only "
                 "its own future with PicklingError/RuntimeError + cause, wakes the manager and never flags broken / kills; that the remote "
                 "traceback is attached as __cause__ of the task's own exception object; that the task's exception travels through the "
                 "pickling-safe send; that the feeder's silent IndexError handler covers the buffer pop only; that no unguarded f-string / "
                 "repr / str of a user object is evaluated on the worker loop, the manager or the feeder hook.",
        "note": "Partial: containment is decided as control-flow/effect structure; the values of sibling outcomes and send_bytes size limits are not.",
    },
    "C06": {
        "ref": "DESIGN.md section 4 C06",
        "technique": "static analysis: parameter-flow of kill_workers across four functions, control dependence on the kill flag, dominance order "
                     "fail-then-kill, kill-tree enumeration-before-kill order in both implementations",
        "level": "Decides that kill_workers=True reaches the flag (and is not reset by the manager), that on the flag's branch every pending item is "
                 "atomically removed and failed with ShutdownExecutorError before the kill, that the kill empties the worker table and kills every "
                 "tree with children enumerated before their parent dies and reaped afterwards (a blocking waitpid, not a wait on the inheritable "
                 "sentinel pipe), after which the manager leaves through the empty-pending exit.",
        "note": "Partial: wall-clock promptness and the behaviour of psutil/pgrep are not decided.",
    },
    "C09": {
        "ref": "DESIGN.md section 4 C09",
        "technique": "static analysis: lock context of every access to the singleton globals, decision table of the replace condition, "
                     "set comparison of factory parameters against kwargs keys (argument completeness), dominance order of replacement steps, abstract "
                     "evaluation of the resize polling guards",
        "level": "Decides for every path of the factory: globals only under the executor lock; replace iff broken or shutdown or not reuse (8 rows), "
                 "'auto' = equality of requested and stored kwargs; no constructor argument can be silently dropped (public function -> factory -> "
                 "kwargs -> constructor -> base constructor, by name); shutdown(wait=True) -> reset -> returned recursive construction; ids grow by "
                 "one under the lock; reuse resizes to the requested size; the call's polling loops can end, and every entry of the pending table the resize waits on leaves it (cancel, feeder errors, results).",
        "note": "Partial: outcomes of thread races as values are not decided; the health of the returned executor relies on C01/C02 clauses.",
    },
    "C10": {
        "ref": "DESIGN.md section 4 C10",
        "technique": "static analysis: lock identity between submit and resize (points-to tokens), dominance order of wait-jobs / size write / "
                     "sentinel posts, symbolic sentinel count, effect query (no kill), abstract evaluation of the three polling guards",
        "level": "Decides that submit and _resize are serialised by one lock object, that job completion is awaited before sentinels, that the new "
                 "size is written under the management lock before exactly alive-target sentinels are posted under it, that nothing is killed, "
                 "that the pool is topped up and the manager woken afterwards, and that every wait loop terminates in the failure post-state; every entry of the pending table the resize waits on leaves it (cancel, every feeder error class, results).",
        "note": "Partial: which pids survive is a runtime value and is not decided.",
    },
    "C11": {
        "ref": "DESIGN.md section 4 C11",
        "technique": "static analysis: abstract interpretation of the tracker's per-line dispatch AST over (command, type known?, refcount) compared "
                     "row by row with the refcounting contract; CFG rules for the barrier/EOF/sweep; protocol literal agreement with the stdlib client AST",
        "level": "The transition function of the tracker loop is decided completely for its finite abstract domain (every dispatched command plus an "
                 "unknown one x known/unknown type x refcount absent/1/2/3): REGISTER +1, UNREGISTER delete, MAYBE_UNLINK -1 and cleanup exactly at "
                 "zero, PROBE nothing, anything else raises before any mutation; the barrier catches BaseException and cannot leave the loop, EOF is "
                 "the only exit, the sweep runs in finally over every type with folders last; names keep their ':'; client literals are dispatched.",
        "note": "obligations == discharged on the pinned tree; the interpreter of the dispatch and the extractor are the trusted base (not labelled proof). "
                "Not decided: OS unlink semantics; atomicity of <=512-byte pipe writes (stdlib/kernel).",
    },
    "C12": {
        "ref": "DESIGN.md section 4 C12",
        "technique": "static analysis: key agreement between writer (get_preparation_data) and reader (prepare) tables, dominance of ensure_running "
                     "over fd/pid reads, keep-list provenance, signal-mask pairing on all paths (with correlated-branch pruning), fall-through of the relaunch branch",
        "level": "Decides that the tracker fd/pid are shipped after ensure_running and installed field-for-field in the child, that the fd is inheritable "
                 "and in the keep-list, that the tracker ignores SIGINT/SIGTERM before its loop and the spawner blocks them around the spawn and "
                 "restores the mask in finally, and that a dead tracker is closed, reaped, reset and relaunched by the same call.",
        "note": "Partial: that all processes of a real tree observe one tracker pid, and the timing of the sweep, are runtime facts and are not decided.",
    },
    "C13": {
        "ref": "DESIGN.md section 4 C13",
        "technique": "static analysis: must-pass-through of register + finaliser after the semaphore creation, name-term agreement, finally-pairing of "
                     "unlink/unregister, effect query on __setstate__, points-to of the context factories' return values",
        "level": "Decides that every created named semaphore is registered under its own name with type 'semlock' and has a finaliser unlinking then "
                 "unregistering that name on every path, that unpickled copies have none of these effects, that every primitive is built through "
                 "that constructor, that the loky context hands out loky's classes, and that the tracker sweeps whatever is still registered.",
        "note": "Partial: the kernel namespace content is not decided. The shape of generated names is deliberately not checked (frozen fragment).",
    },
    "C14": {
        "ref": "DESIGN.md section 4 C14",
        "technique": "static analysis: constructor-argument table per primitive, role derivation of the three Condition semaphores from wait(), "
                     "token-balance matching of notify/notify_all, lock context of every Event flag access",
        "level": "Decides necessary conditions only: the (kind, value, maxvalue) table; wait's ordering/pairing obligations; the token balance of "
                 "notify and notify_all (#wake tokens = #sleepers grabbed = #woken signals awaited, re-zeroing); Event flag accesses under the "
                 "condition, set = 1 then notify_all, wait re-reads the flag; get/setstate agreement; the after-fork hooks are callable the way the stdlib calls them and reset the forked copy.",
        "note": "Partial by nature: correctness of the three-semaphore protocol under every interleaving is a model-checking question and is NOT decided "
                "by this family; the clauses above are what breaks it structurally.",
    },
    "C15": {
        "ref": "DESIGN.md section 4 C15",
        "technique": "static analysis: freshness of the installed dispatch table on every path + dominance over registrations, who-may-write shared "
                     "tables, parameter flow of reducers across constructor/queues/feeder/dumps, arity and role agreement of reducer/rebuild pairs",
        "level": "Decides scoping (no shared pickling registry is ever mutated by a per-executor pickler; loky's table only at import time), the flow "
                 "of job/result reducers to their own queue and into the worker-side copy, the pickler-name round trip, and the structural "
                 "well-formedness of every built-in reducer.",
        "note": "Partial: equality of behaviour after a pickle round trip is a runtime value and is not decided.",
    },
    "C16": {
        "ref": "DESIGN.md section 4 C16",
        "technique": "static analysis: dispatch completeness (who constructs wrappers, class hierarchy has __call__), sibling-constructor field "
                     "agreement, branch table of __reduce__ on keep_wrapper",
        "level": "Decides that a wrapper is callable iff the wrapped object is, on the instance path, after a round trip and on the class path; that "
                 "sibling constructors agree on fields and flags; that attribute forwarding excludes exactly the wrapper's fields; that __reduce__ "
                 "honours keep_wrapper. The pinned tree violated the first clause for classes (D6, repaired by a fix commit).",
        "note": "Partial: behaviour of arbitrary wrapped objects is not decided.",
    },
    "C17": {
        "ref": "DESIGN.md section 4 C17",
        "technique": "static analysis: term normalisation in the min/max lattice with helper inlining; guarded return sets of the affinity/cgroup/"
                     "physical-core helpers",
        "level": "The returned term of cpu_count() equals max(1, min(OS, AFF, CG, ENV)) as a normal form, hence for ALL configurations of the leaves; "
                 "the helpers' branches are decided by their guards (ceil(quota/period) only for positive quota and period; 'max'/absent => no limit); "
                 "the physical-cores path returns exactly {max(user,1) if user < OS, validated physical count, logical fallback with one warning}.",
        "note": "obligations == discharged; the normaliser and the leaf table are the trusted base. Not decided: what the OS returns for each leaf.",
    },
    "C18": {
        "ref": "DESIGN.md section 4 C18",
        "technique": "static analysis: constant/provenance checks on the low-level fork/exec arguments, keep-list provenance over all writers of the "
                     "list, resource pairing of pipe ends on all paths, must-pass-through of the initializer, role agreement of the spawn tuple by points-to",
        "level": "Decides close_fds=True, pass_fds only from the keep-list, environment overlay order, that no parent pipe end can enter the keep-list, "
                 "that child ends are closed in the parent, that the initializer precedes the first task on every path and its failure ends the "
                 "worker, that every spawn ships the same role-correct 8-tuple plus env, the init_main_module protocol, the exit-code mapping, and that get_context() asks for the requested start method before the process-wide default.",
        "note": "Partial: the descriptor table of a live worker is kernel state and is not decided.",
    },
    "C19": {
        "ref": "DESIGN.md section 4 C19",
        "technique": "static analysis: decision table of the depth guards over (depth, MAX_DEPTH, start method), dominance of the check over resource "
                     "creation, role agreement of the shipped depth",
        "level": "Decides the bound exactly: executor creation raises LokyRecursionError iff MAX_DEPTH > 0 and depth >= MAX_DEPTH (or fork and depth >= 1), "
                 "checked before anything is allocated, for every constructor; the depth a worker sees is its creator's + 1 from the only spawn site "
                 "and is installed before tasks run; nothing else writes it.",
        "note": "obligations == discharged; trusted base: the guard evaluator and the extractor.",
    },
    "C20": {
        "ref": "DESIGN.md section 4 C20",
        "technique": "static analysis: acquire/release pairing over resources (pipe ends, queues, wake-up pipe, processes) on all paths, reachability "
                     "of the releasing routine from every manager exit",
        "level": "Decides that every parent-side resource has its release on every normal path of the lifecycle code: both ends of every pipe closed "
                 "or owned, queues and wake-up pipe closed by the join of the internals which every manager exit reaches, every worker removed from "
                 "the table reaped, references dropped by shutdown().",
        "note": "Partial: accumulation as measured counts over repeated lifecycles is not decided; with the known finding D4 the releasing paths exist "
                "but are not reached (reported under C01/C05).",
    },
}

NOT_APPLICABLE = {}


# scenario obligations (rules/scenario.py and the polarity clauses added to the other rule modules)
_SCN = (" Branch polarity is decided by scenario obligations: the CFG is pruned under fixed truth values of a few role-resolved atoms and "
        "must-reach / never-reach is checked on the pruned graph.")
for _k in ("C01", "C02", "C03", "C04", "C05", "C06", "C07", "C09", "C10", "C12", "C14", "C15", "C16", "C17", "C20"):
    if "scenario obligations" not in CATALOG[_k]["technique"]:
        CATALOG[_k]["technique"] += _SCN
