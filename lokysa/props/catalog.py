"""Per-property manifest texts (level, note, technique)."""

CATALOG = {
    "C01": {
        "ref": "DESIGN.md section 4 C01, section 3",
        "technique": "static analysis: points-to + call graph roles; CFG must-pass-through (wake-up post-domination lifted to the API boundary), "
                     "typestate of fields nulled by shutdown, abstract evaluation of polling guards, lock-order / wait-for cycle search",
        "level": "Decides, on every path of the current source, ten structural necessary conditions of deadlock freedom (no lost wake-up, wake-up pipe "
                 "under its lock, single owner resolves a future, nothing dropped unresolved, manager exits only when nothing is pending, nulled-field "
                 "typestate, manager self-sufficiency, polling loops can end, acyclic wait-for graph, enabling facts of the manager's blocking calls). "
                 "Schedule-independent, which is what the single-schedule tests cannot give; it found five genuine hangs on the pinned tree. It does not "
                 "prove liveness as a whole.",
        "note": "Partial: necessary conditions only. Trusted: the extractor and points-to engine; stdlib facts (Queue.put starts the feeder, "
                "Thread.start runs run, Executor.map calls submit). Not decided: fairness/OS behaviour, worker death inside the shutdown phase, "
                "user callbacks re-entering the API on the manager thread. Known findings D3, D4 are listed in known_findings.json.",
    },
    "C02": {
        "ref": "DESIGN.md section 4 C02",
        "technique": "static analysis: wait-set completeness by expression expansion over points-to roles; exhaustive CFG path enumeration with "
                     "constant propagation of the (result, is_broken, exception) triple; dominance ordering of flag/fail/kill/join; class-hierarchy check",
        "level": "Decides for all paths of the current source that the manager waits on the sentinel of every registered worker plus both readers, "
                 "that every path class of the wait function returns the right (is_broken, exception) pair (sentinel-only => TerminatedWorkerError with "
                 "exit codes, clean pid+sentinel never a crash), that broken => flag, fail all, kill trees (children enumerated before the parent is "
                 "killed), join, that submit re-raises the stored error under the lock before mutating state, and that the exception classes are the "
                 "concurrent.futures ones. Crash points and schedules are covered because the rules are path properties, not runs.",
        "note": "Partial: structural clauses only. Not decided: that the kernel reports sentinel readiness, detection latency, exit-code text, "
                "the win32 arm. Trusted: extractor, points-to, stdlib semantics of multiprocessing.connection.wait.",
    },
}

NOT_APPLICABLE = {}
