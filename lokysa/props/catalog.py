"""Per-property manifest texts (level, note, technique)."""

CATALOG = {
    "C01": {
        "ref": "DESIGN.md section 4 C01, section 3",
        "technique": "static analysis: points-to + call graph roles; CFG must-pass-through (wake-up post-domination lifted to the API boundary), "
                     "typestate of fields nulled by shutdown, abstract evaluation of polling guards, lock-order / wait-for cycle search",
        "level": "Decides, on every path of the current source, ten structural necessary conditions of deadlock freedom (no lost wake-up, wake-up pipe "
                 "under its lock, single owner resolves a future, nothing dropped unresolved, manager exits only when nothing is pending, nulled-field "
                 "typestate, manager self-sufficiency, polling loops can end, acyclic wait-for graph, enabling facts of the manager's blocking calls). "
                 "Schedule-independent, which is what the single-schedule tests cannot give; it found five genuine hangs on the pinned tree. It does not "
                 "prove liveness as a whole.",
        "note": "Partial: necessary conditions only. Trusted: the extractor and points-to engine; stdlib facts (Queue.put starts the feeder, "
                "Thread.start runs run, Executor.map calls submit). Not decided: fairness/OS behaviour, worker death inside the shutdown phase, "
                "user callbacks re-entering the API on the manager thread. Known findings D3, D4 are listed in known_findings.json.",
    },
    "C02": {
        "ref": "DESIGN.md section 4 C02",
        "technique": "static analysis: wait-set completeness by expression expansion over points-to roles; exhaustive CFG path enumeration with "
                     "constant propagation of the (result, is_broken, exception) triple; dominance ordering of flag/fail/kill/join; class-hierarchy check",
        "level": "Decides for all paths of the current source that the manager waits on the sentinel of every registered worker plus both readers, "
                 "that every path class of the wait function returns the right (is_broken, exception) pair (sentinel-only => TerminatedWorkerError with "
                 "exit codes, clean pid+sentinel never a crash), that broken => flag, fail all, kill trees (children enumerated before the parent is "
                 "killed), join, that submit re-raises the stored error under the lock before mutating state, and that the exception classes are the "
                 "concurrent.futures ones. Crash points and schedules are covered because the rules are path properties, not runs.",
        "note": "Partial: structural clauses only. Not decided: that the kernel reports sentinel readiness, detection latency, exit-code text, "
                "the win32 arm. Trusted: extractor, points-to, stdlib semantics of multiprocessing.connection.wait.",
    },
    "C05": {
        "ref": "DESIGN.md section 4 C05",
        "technique": "static analysis: dominance ordering of shutdown effects, guard decision table (16 rows) of the shutting-down predicate, "
                     "escape analysis + heap reachability for the manager->executor reference, lock context of joins",
        "level": "Decides for every path of the current source: shutdown() flags under the lock, wakes, joins only on `wait` under the lock shared "
                 "with the at-exit hook; the shutting-down predicate equals G or ((N or S) and not B) on all 16 rows; the manager exits only on "
                 "empty pending; the drain releases every exit lock under the management lock, posts exactly as many non-blocking sentinels as "
                 "released workers, then closes call queue -> joins feeder -> closes result queue -> closes wake-up under its lock -> joins every "
                 "worker; the manager holds no strong reference to the executor; the at-exit hook wakes all then joins all registered managers.",
        "note": "Partial: structural clauses. Known findings D3/D4 (respawn after shutdown(wait=False) / after executor GC) are listed in "
                "known_findings.json. Not decided: a worker crashing inside the shutdown phase; effectiveness of join_thread().",
    },
    "C07": {
        "ref": "DESIGN.md section 4 C07",
        "technique": "static analysis: CFG path rules on the worker main (non-blocking probe, announce-then-wait, no exit with a task), "
                     "decision table of the respawn guard over order types of (pending, running, workers), lock context at spawn sites",
        "level": "Decides on all paths of the worker loop that a timeout exit goes through a successful non-blocking probe of the management lock, "
                 "that a failed probe resumes waiting, that no exit happens with a task in hand, that every clean exit announces the pid before "
                 "waiting on the exit lock; on the manager side remove-under-lock -> release -> join without any broken/kill effect; the respawn "
                 "guard is true on every row with pending>0 and no worker; spawn under the management lock.",
        "note": "Partial. Known findings D3/D4 apply (respawn needs the live executor object and its un-nulled fields). Not decided: race outcomes as values.",
    },
    "C08": {
        "ref": "DESIGN.md section 4 C08",
        "technique": "static analysis: who-may-insert on the worker table (points-to), syntactic normal form of the spawn-loop guard, "
                     "must-pass-through of the top-up in submit, decision table of the top-up condition",
        "level": "Decides that the single insertion site of the worker table is guarded by len(table) < max_workers (strict), one insertion per "
                 "iteration after start(), that every accepting submit path reaches the top-up whose condition is true whenever the pool is "
                 "short, that spawn callers hold the management lock, and that the worker runs one call at a time.",
        "note": "Partial: the upper-bound clause is decided structurally; 'parallelism is actually delivered' is scheduling/performance and is not decided.",
    },
}

NOT_APPLICABLE = {}
