"""C04 -- task-level failures are contained to their own future."""
from ..rules import liveness as L
from ..rules import contain as C
from ..rules import scenario as SC

EXPLANATION = (
    'Static analysis. Decides: every call of user-provided code in the worker (task call, result put) and every '
    "done-callback is enclosed by a BaseException handler that sends the failure back under the task's own work id "
    'and neither re-raises nor leaves the loop (R-EXC-BREADTH); the feeder serialises before taking the pipe lock, '
    'releases it in finally, and on error releases the queue slot and calls the hook on every continuation (R-FEEDER, '
    "R-PAIR); the executor's hook removes its own entry, fails only that future with PicklingError/RuntimeError + "
    'cause, wakes the manager and has no broken/kill effect (R-FEEDER-HOOK); the remote traceback travels as '
    "__cause__ of the task's own exception (R-CAUSE); single-owner resolution (R-OWN-RESOLVE, R-DROP-RESOLVES); the "
    "task's exception is sent pickling-safely, the feeder's silent IndexError handler covers the pop only, failure vs "
    'success is chosen by identity (R-EXC-BREADTH, R-FEEDER, R-SCN-RESULT); no repr/str/f-string of a user object is '
    'evaluated unguarded on the worker loop, the manager or the feeder hook (R-USER-FMT); no live exception of an '
    'internal thread is handed to a future (R-LIVE-EXC). Also decided: every handler of the result put reports for '
    'the task; the silent EPIPE return does not cover the serialisation (R-EXC-BREADTH, R-FEEDER). Not decided: '
    'values of sibling outcomes.'
)


def run(e, R, tier):
    R.run_rules(e, [
        C.r_exc_breadth,
        C.r_feeder,
        C.r_feeder_hook,
        C.r_user_fmt,
        C.r_result_lock,
        C.r_cause,
        L.r_own_resolve,
        L.r_drop_resolves,
        L.r_callback_lock,
        SC.r_scn_feeder,
        SC.r_scn_result,
        C.r_live_exc,
    ])

