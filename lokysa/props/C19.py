"""C19 -- nested parallelism depth is bounded exactly at LOKY_MAX_DEPTH."""
from ..rules import process as P

EXPLANATION = (
    'Static analysis. Decides: the depth check runs in the constructor on every path, before any lock/pipe/queue is '
    'created, and every subclass constructor reaches it; its guard, evaluated as a decision table over (depth 0..5, '
    "MAX_DEPTH -2..5), equals MAX_DEPTH > 0 and depth >= MAX_DEPTH; the fork guard equals start_method == 'fork' and "
    'depth >= 1; both raise LokyRecursionError; MAX_DEPTH comes from LOKY_MAX_DEPTH with a positive integer default; '
    "the root depth is 0; the value shipped to every worker is the creator's depth + 1 from the single spawn site "
    '(R-ARGS) and the worker installs it before serving tasks; nobody else writes it (R-DEPTH). Also decided: no '
    'process is spawned while the current one is still being bootstrapped, for every start method (R-DEPTH bootstrap '
    'guard).'
)


def run(e, R, tier):
    R.run_rules(e, [
        P.r_depth,
        P.r_args,
    ])
