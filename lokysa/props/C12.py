"""C12 -- one resource tracker serves the whole process tree and is self-healing."""
from ..rules import tracker as T
from ..rules import process as Pr

EXPLANATION = (
    'Static analysis. Decides: get_preparation_data ensures the tracker runs before reading its fd/pid, the keys '
    "written under the tracker entry equal the keys prepare() installs into the child's singleton, field by field; "
    'the launch obtains the fd through getfd(), makes it inheritable and puts it in the keep-list passed to fork_exec '
    "(R-TRACKER-SHIP); the tracker's main ignores SIGINT and SIGTERM before its read loop and lifts the inherited "
    'mask only afterwards; ensure_running blocks {SIGINT, SIGTERM} before the spawn and restores the mask in finally '
    '(R-SIG); ensure_running runs under its lock, reuses a live tracker, and for a dead one closes the fd, reaps, '
    'resets both fields and FALLS THROUGH to the launch, which installs fd/pid only after a successful spawn, closes '
    'w on failure and r on all paths; maybe_unlink ensures the tracker runs first (R-RELAUNCH); the loop ends only at '
    'EOF, tested on the raw readline() result (R-RT-LOOP); the tracker is started under the module name of this copy '
    '(R-VENDOR). Also decided: in the launch the tracker fd is obtained before the preparation data records fd/pid '
    '(R-TRACKER-SHIP). Not decided: that all processes of a real tree observe one pid; timing of the sweep (follows '
    'from pipe EOF semantics).'
)


def run(e, R, tier):
    R.run_rules(e, [
        T.r_tracker_ship,
        T.r_sig,
        T.r_relaunch,
        T.r_rt_loop,
        Pr.r_vendor,
    ])
    R.trust("stdlib ResourceTracker.getfd() = ensure_running(); return self._fd; _check_alive() probes the pipe with a PROBE line")
