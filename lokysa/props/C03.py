"""C03 -- right result to the right future, at-most-once execution."""
from ..rules import routing as Rt
from ..rules import liveness as L
from ..rules import scenario as SC
from ..rules import pickling as P

EXPLANATION = (
    "Static analysis. Decides: the work id is allocated from a counter that only ever grows by one, under the shutdown "
    "lock, and the pending key, the queued id and the pre-increment counter are the same term; id/fn/args/kwargs are "
    "routed from ONE work item into the call item, the call item computes fn(*args, **kwargs) of its own fields, the "
    "worker reports under the id of the item it ran with result/exception not swapped, and the manager resolves the item "
    "popped under result_item.work_id with fields of that same result item (R-ID, role agreement by parameter name); a "
    "single dispatch site, on the manager thread, control-dependent on set_running_or_notify_cancel() == True, fed by a "
    "consuming get, no re-queueing, no retry loop in the worker (R-ONCE); the shape of the three pure functions behind map() "
    "(chunker: consecutive islices of one zip iterator until the first empty one; chunk runner: one fn(*args) per element, "
    "in order, none filtered; chain: every element of every chunk result in order) and of their composition in map(), with "
    "the accepted idioms enumerated and anything else refused (R-MAP-SHAPE); a callable passed through wrap_non_picklable_objects "
    "is rebuilt from its own pickled object, under every protocol (R-WRAP-FIELDS, R-WRAP-REDUCE). NOT decided (runtime values): value equality "
    "of map() with builtin map as such, execution counts under respawn."
)


def run(e, R, tier):
    R.run_rules(e, [
        Rt.r_id,
        Rt.r_once,
        L.r_drop_resolves,
        SC.r_scn_result,
        Rt.r_map_shape,
        P.r_wrap_fields,
        P.r_wrap_reduce,
        P.r_reduce_types,
    ])
    R.trust("Future.set_running_or_notify_cancel returns False iff the future was cancelled; Executor.map submits one call per element of zip(*iterables)")
