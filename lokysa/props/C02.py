"""C02 -- abrupt worker death is always detected and fails the pool loudly."""
from ..rules import liveness as L
from ..rules import broken as B
from ..rules import process as P
from ..rules import scenario as SC

EXPLANATION = (
    "Static analysis. Decides: completeness of the manager's wait set (result reader, wake-up reader, the sentinel of "
    "EVERY registered worker, R-WAITSET); path classification of the wait function by enumeration of all CFG paths with "
    "constant propagation of the returned triple (R-BROKEN-PATHS); broken => terminate ordering and flag table "
    "(R-BROKEN-DISPATCH, R-BROKEN-ORDER); the submit gate (R-SUBMIT-GATE); the exception hierarchy (R-EXC-TYPES); "
    "kill-tree order in both implementations (R-KILL-TREE); the worker's report of un-serialisation failures "
    "(R-WORKER-UNPICKLE); plus the two liveness rules whose violation is an undetected death (R-WAKE spawn instances, "
    "R-OWN-RESOLVE). Not decided: detection latency, kernel delivery of sentinel readiness, exit-code text, Windows arm."
)


def run(e, R, tier):
    R.run_rules(e, [
        B.r_waitset,
        L.r_iter_snapshot,
        B.r_broken_paths,
        B.r_mgr_total,
        B.r_broken_dispatch,
        B.r_broken_order,
        B.r_submit_gate,
        B.r_exc_types,
        B.r_kill_tree,
        B.r_worker_unpickle,
        P.r_exitcode,
        P.r_popen_api,
        L.r_wake,
        L.r_own_resolve,
        L.r_drop_resolves,
        L.r_callback_lock,
        L.r_cancel_safe,
        SC.r_scn_wakeprim,
        SC.r_scn_manager,
        SC.r_scn_start,
        L.r_block_mgr,
    ])
    R.trust("multiprocessing.connection.wait returns the ready subset; Process.sentinel becomes ready when the process ends")
