"""C20 -- executor lifecycles leak no parent-side resources."""
from ..rules import process as P
from ..rules import liveness as L
from ..rules import shutdown as S
from ..rules import broken as B
from ..rules import tracker as T
from ..rules import scenario as SC
from ..rules import contain as C

EXPLANATION = (
    'Static analysis (resource pairing on all normal exits + reachability). Decides: the wake-up close() closes both '
    'ends; SimpleQueue.close closes reader and writer; every exit of the manager loop and the broken-pool routine '
    'reach the join of the executor internals, which closes call queue, result queue and wake-up pipe on every path '
    'and joins every remaining worker (R-LEAK, R-SHUTDOWN-SEQ); every worker removed from the table (pid branch, kill '
    'path, join-all) is joined or tree-killed-and-joined on every path; kill-tree reaps in both implementations '
    '(R-KILL-TREE); os.pipe() ends in the launch, the tracker start and fork_exec are closed or owned on all paths, '
    'the sentinel has a closing finaliser (R-SPAWN-FRESH, R-EXITCODE, R-RELAUNCH); shutdown() drops its fd-holding '
    'references; no live exception of the feeder / manager thread (whose frames reference the call queue) is handed '
    'to a future (R-LIVE-EXC). Also decided: an overriding Queue.close() reaches the stored finaliser on every path '
    '(R-FEEDER). Not decided: measured counts over repeated lifecycles. With the known finding D4 the releasing paths '
    'exist but are not reached; that is reported under C01/C05/C07.'
)


def run(e, R, tier):
    R.run_rules(e, [
        P.r_leak,
        L.r_wake,
        L.r_mgr_exit,
        B.r_mgr_total,
        SC.r_scn_manager,
        S.r_shutdown_seq,
        B.r_kill_tree,
        P.r_spawn_fresh,
        P.r_env_overlay_kept,
        P.r_exitcode,
        T.r_relaunch,
        SC.r_scn_wakeprim,
        C.r_feeder,
        C.r_live_exc,
    ])
