"""C14 -- synchronisation primitives keep their contracts under every interleaving."""
from ..rules import sync as S

EXPLANATION = (
    'Static analysis of NECESSARY conditions only. Decides: the (kind, value, maxvalue) triple each primitive passes '
    'to the C semaphore (Lock (SEMAPHORE,1,1), RLock (RECURSIVE_MUTEX,1,1), Semaphore(v) (SEMAPHORE,v,MAX), '
    'BoundedSemaphore(v) (SEMAPHORE,v,v)), constants and argument order (R-SEM-TABLE); in Condition.wait: ownership '
    'assertion first, sleeper announcement before the lock release, equal release/re-acquire counts, finally = woken '
    'signal then re-acquire, return value = timed acquire (R-COND-PAIR); in notify/notify_all, with semaphore roles '
    'derived from wait: #wake tokens = #sleepers grabbed = #woken signals awaited, one sleeper subtracted per '
    'timed-out waiter, wait semaphore re-zeroed (R-COND-TOKENS); every access to the Event flag under its condition, '
    'set = flag:=1 then notify_all, wait re-reads the flag after waiting (R-EVENT-LOCKED); get/setstate agreement for '
    'SemLock and Condition (R-STATE-SYM); wait releases exactly the recursion level, as an evaluated term '
    '(R-COND-PAIR). Also decided: no token operation of the protocol sits inside an assert; the counting semaphores '
    'start at 0 (R-COND-TOKENS, R-SEM-TABLE); the after-fork hooks have the arity the stdlib calls them with and '
    'reset the forked copy (R-AFTER-FORK). NOT decided -- and not decidable in this family: that the '
    'three-semaphore protocol is correct under every interleaving (a model-checking question).'
)


def run(e, R, tier):
    R.run_rules(e, [
        S.r_sem_table,
        S.r_cond_pair,
        S.r_cond_tokens,
        S.r_event_locked,
        lambda e, R: S.r_state_sym(e, R, which=("Condition", "SemLock")),
        S.r_ctx_factory,
        S.r_after_fork,
    ])
