"""C05 -- graceful shutdown drains all submitted work and leaves nothing behind."""
from ..rules import liveness as L
from ..rules import shutdown as S
from ..rules import timeouts as T
from ..rules import scenario as SC
from ..rules import broken as B
from ..rules import contain as C
from ..rules import reusable as X

EXPLANATION = (
    "Static analysis. Decides: shutdown() flags under the lock, wakes, joins only conditionally on `wait` under the lock "
    "shared with the at-exit hook, submit then raises ShutdownExecutorError (R-SHUTDOWN-API); the 16-row truth table of "
    "the manager's shutting-down predicate equals G or ((N or S) and not B) (R-SHUTTING-DOWN-TABLE, guard evaluated over "
    "its atoms, not run); the manager leaves only on empty pending (R-MGR-EXIT); release-all/sentinel-count/close/join "
    "order of the drain (R-SHUTDOWN-SEQ); pid-branch handshake (R-EXIT-HANDSHAKE); no strong reference from the manager "
    "to the executor by escape analysis + heap reachability (R-NO-STRONG-REF); at-exit protocol (R-ATEXIT); plus "
    "R-NULLED / R-MGR-SELF (graceful-shutdown requests after which submitted work never completes: known finding D4; D3 was repaired in /repo). "
    "Also decided: the reusable factory hands its kill_workers argument to shutdown() as given, so that a graceful request is "
    "not turned into a forced one on the way (R-KILL-PATH). "
    "Not decided: crash inside the shutdown phase; whether join_thread really joins the feeder."
)


def run(e, R, tier):
    R.run_rules(e, [
        S.r_shutdown_api,
        S.r_shutting_down_table,
        L.r_mgr_exit,
        L.r_iter_snapshot,
        S.r_shutdown_seq,
        S.r_exit_handshake,
        S.r_no_strong_ref,
        S.r_atexit,
        L.r_wake,
        L.r_wake_lock,
        L.r_wake_clear,
        L.r_nulled,
        L.r_mgr_self,
        T.r_respawn_guard,
        SC.r_scn_wakeprim,
        SC.r_scn_worker,
        SC.r_scn_manager,
        SC.r_scn_start,
        B.r_mgr_total,
        C.r_feeder,
        L.r_drop_resolves,
        T.r_spawn_site,
        X.r_kill_path,
    ])
    R.trust("threading._register_atexit hooks run before non-daemon threads are joined; weakref callbacks run when the referent dies")
