"""C15 -- serialisation customisation is scoped to where it was requested and is faithful."""
from ..rules import pickling as P
from ..rules import sync as S

EXPLANATION = (
    "Static analysis. Decides: on every path of the customizable pickler's constructor the table installed on the "
    'instance is FRESH (dict(...)/.copy()/display), the installation dominates every per-instance registration, only '
    "the fresh local table is mutated, and every other write in pickler code targets the instance's own table "
    "(R-PICKLER-FRESH); loky's process-wide table is written only by register(), called only from import-time code of "
    'the reduction modules (R-REGISTER-WHO); job reducers flow to the call queue and result reducers (defaulting to '
    'job) to the result queue, each queue keeps them, ships them in its pickled state and serialises with its own '
    '(R-REDUCERS-FLOW, R-STATE-SYM); the call item records the pickler name at submit and the worker re-selects it '
    'before running the task (R-PICKLER-NAME); each built-in reducer returns (rebuild, args) matching the rebuild '
    "function's arity and parameter roles (R-REDUCE-ARITY). Also decided: a reducer registered for a bound builtin "
    'callable type ships __self__ (R-REDUCE-TYPES, types folded with the analysing interpreter). Not decided: '
    'equality of behaviour after a round trip (runtime values).'
)


def run(e, R, tier):
    R.run_rules(e, [
        P.r_pickler_fresh,
        P.r_register_who,
        P.r_reducers_flow,
        P.r_pickler_name,
        P.r_pickler_select,
        P.r_reduce_arity,
        lambda e, R: S.r_state_sym(e, R, which=("Queue", "SimpleQueue")),
        P.r_reduce_types,
    ])
