"""C17 -- cpu_count is the minimum of all applicable limits and at least 1."""
from ..rules import cpu as C

EXPLANATION = (
    "Static analysis (term normalisation). The value returned by cpu_count() with only_physical_cores=False is resolved "
    "through single-assignment locals and the single-return helper into a term over named leaves and normalised in the "
    "min/max lattice; it must equal max(1, min(OS, AFF, CG, ENV)) with OS = os.cpu_count() or 1, AFF/CG the affinity and "
    "cgroup helpers applied to OS, ENV = int(environ.get(LOKY_MAX_CPU_COUNT, OS)) (R-CPU-TERM). The helpers' guarded return "
    "sets are checked: affinity in {len(sched_getaffinity(0)), len(psutil affinity), OS}; cgroup = ceil(quota/period) only "
    "under quota > 0 and period > 0, OS for 'max'/absent/non-positive (R-CPU-HELPERS). The only_physical_cores=True return "
    "set is {max(user,1) guarded by user < OS, the physical count guarded by 'found', the logical fallback}; the probe "
    "validates >= 1 inside the try, turns any failure into ('not found', exc) and writes its cache on every path "
    "(R-CPU-PHYSICAL). Because the formula is decided as a term, the claim covers ALL configurations. Not decided: what the "
    "OS returns for each leaf."
)


def run(e, R, tier):
    R.run_rules(e, [
        C.r_cpu_term,
        C.r_cpu_helpers,
        C.r_cpu_physical,
    ])
