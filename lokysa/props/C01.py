"""C01 -- every submitted future resolves and no API call hangs."""
from ..rules import liveness as L
from ..rules import contain as C
from ..rules import broken as B
from ..rules import routing as Rt
from ..rules import scenario as SC
from ..rules import timeouts as TO

EXPLANATION = (
    'Static analysis (points-to + CFG + lock context). Decides necessary conditions of deadlock freedom, each '
    'schedule-independent: no lost wake-up (R-WAKE), wake-up pipe used only under its lock (R-WAKE-LOCK), single '
    'owner resolves a future / nothing dropped unresolved (R-OWN-RESOLVE, R-DROP-RESOLVES), the manager leaves only '
    'when nothing is pending (R-MGR-EXIT), fields nulled by shutdown() are never dereferenced ungated (R-NULLED), the '
    'manager needs no live executor to make progress (R-MGR-SELF), polling loops can end (R-POLL), the lock-order / '
    'wait-for graph is acyclic (R-LOCK-ORDER), every blocking call of the manager has its enabling fact '
    '(R-BLOCK-MGR). It does NOT decide liveness as such (fairness, OS behaviour, crash inside the shutdown phase). '
    'Also decided: every clean exit of a worker stops its nested executors (R-EXIT-NESTED); warnings and table '
    'lookups on the manager thread cannot kill it (R-MGR-TOTAL).'
)


def run(e, R, tier):
    R.run_rules(e, [
        L.r_wake,
        L.r_wake_lock,
        L.r_wake_clear,
        L.r_own_resolve,
        L.r_drop_resolves,
        L.r_callback_lock,
        L.r_cancel_safe,
        L.r_mgr_exit,
        L.r_iter_snapshot,
        L.r_nulled,
        L.r_mgr_self,
        L.r_poll,
        L.r_lock_order,
        L.r_block_mgr,
        C.r_feeder,
        C.r_feeder_hook,
        C.r_user_fmt,
        B.r_waitset,
        B.r_broken_order,
        B.r_mgr_total,
        Rt.r_once,
        SC.r_scn_wakeprim,
        SC.r_scn_worker,
        SC.r_scn_manager,
        SC.r_scn_result,
        SC.r_scn_feeder,
        SC.r_scn_start,
        TO.r_exit_nested,
        TO.r_spawn_site,
    ])
    R.trust("stdlib facts: mp.Queue.put starts the feeder thread; Thread.start runs run(); Executor.map calls submit")
