"""C08 -- parallelism never exceeds max_workers and is actually delivered."""
from ..rules import timeouts as T
from ..rules import reusable as X

EXPLANATION = (
    "Static analysis. Decides: the only insertion into the worker table is in the spawn routine, inside a loop guarded by "
    "the strict comparison len(table) < max_workers with exactly one unconditional insertion per iteration after start(), "
    "keyed by pid; every accepting path of submit reaches the top-up and the top-up condition (decision table) is true "
    "whenever the pool is short; the worker main runs calls sequentially; every caller of the spawn routine holds the "
    "processes management lock (one named exception with reason); the manager's respawn re-checks the size and its pending "
    "count includes submitted, undispatched work; the capacity term of the call queue, evaluated over sample sizes, is at "
    "least max_workers in force -- the manager is not woken when a worker takes an item, so a smaller queue starves idle "
    "workers (R-QUEUE-CAP; the reusable executor's 2*cpu_count()+1 is known finding D18). "
    "Not decided: that parallelism is actually delivered as such (scheduling/performance)."
)


def run(e, R, tier):
    R.run_rules(e, [
        T.r_spawn_site,
        T.r_spawn_locked,
        T.r_respawn_guard,
        X.r_resize,
        T.r_queue_cap,
    ])

