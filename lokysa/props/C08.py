"""C08 -- parallelism never exceeds max_workers and is actually delivered."""
from ..rules import timeouts as T
from ..rules import reusable as X

EXPLANATION = (
    "Static analysis. Decides: the only insertion into the worker table is in the spawn routine, inside a loop guarded by "
    "the strict comparison len(table) < max_workers with exactly one unconditional insertion per iteration after start(), "
    "keyed by pid; every accepting path of submit reaches the top-up and the top-up condition (decision table) is true "
    "whenever the pool is short; the worker main runs calls sequentially; every caller of the spawn routine holds the "
    "processes management lock (one named exception with reason); the manager's respawn re-checks the size. "
    "Not decided: that parallelism is actually delivered (scheduling/performance); the queue-capacity constant."
)


def run(e, R, tier):
    R.run_rules(e, [
        T.r_spawn_site,
        T.r_spawn_locked,
        T.r_respawn_guard,
        X.r_resize,
    ])

