"""C06 -- forced shutdown is prompt, total and explicit."""
from ..rules import liveness as L
from ..rules import broken as B
from ..rules import reusable as X
from ..rules import scenario as SC
from ..rules import process as Pr

EXPLANATION = (
    'Static analysis. Decides: parameter flow of kill_workers from get_reusable_executor through shutdown() into the '
    "flag (stored under the lock, not reset by the manager's own re-flagging); in the manager's shutting-down "
    "routine, on the kill flag's true branch every pending item is removed atomically and failed with "
    'ShutdownExecutorError BEFORE the kill, and the kill routine empties the worker table killing every tree '
    '(R-KILL-PATH, R-OWN-RESOLVE); both kill-tree implementations enumerate children before killing the parent, '
    'deepest first, and reap (R-KILL-TREE), the reap of a killed worker being a blocking waitpid that does not wait '
    'for the sentinel pipe, which outlives the worker when a descendant inherited it (R-EXITCODE); the manager then '
    'exits through the empty-pending branch (R-MGR-EXIT). Also decided: the kill flag as a function of (argument, '
    'previous flag): None keeps, True sets, False keeps, and the factory hands its kill_workers argument to shutdown as given '
    '(R-KILL-PATH); every Process method loky calls on a worker finds what it delegates to on loky\'s Popen (R-POPEN-API). Not decided: wall-clock promptness; '
    'psutil/pgrep semantics.'
)


def run(e, R, tier):
    R.run_rules(e, [
        X.r_kill_path,
        B.r_kill_tree,
        L.r_own_resolve,
        L.r_drop_resolves,
        L.r_callback_lock,
        L.r_cancel_safe,
        L.r_mgr_exit,
        B.r_exc_types,
        B.r_mgr_total,
        SC.r_scn_manager,
        Pr.r_exitcode,
        Pr.r_popen_api,
    ])
