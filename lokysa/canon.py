"""Behaviour-preserving canonicalisation of the parsed modules (applied at load time, before any rule looks at the tree).

The rules follow paths and match idioms; a maintainer can write the same behaviour in several ways.  Instead of teaching
every rule every spelling, each spelling below is rewritten to ONE form.  Every rewrite is an equivalence of Python
semantics (same operations, same order, same exceptions); nothing is executed.  The passes, in order:

  AUG      x = x + c                      ->  x += c                     (also `-`, `*`; c a numeric constant: no aliasing question)
  SUPPRESS with suppress(E...): B         ->  try: B  except (E...): pass              (contextlib.suppress)
  LOCK     X.acquire(); try: B finally: X.release()   ->   with X: B                   (same expression X, no arguments)
  WALRUS   while <test using (n := E) once, evaluated first>: B
                                          ->  while True: n = E; if not <test with n>: break; B
  LOOP     while True: if C: break; B     ->  while not C: B                           (first statement, no else)
  NOT      not (not a) -> a; not (a == b) -> a != b; ... for == != is is-not in not-in < <= > >=
  UNGUARD  if not X: J  ;  S...           ->  if X: S...  else: J        (J ends in return/continue/break/raise, no else;
                                                                          only for tests of the form `not X`)
  SWAP     if not X: A else: B            ->  if X: B else: A
  IFEXP    n = a if c else b              ->  if c: n = a  else: n = b                 (plain assignment to one name/attribute)
  TAIL     a bare `return` at the tail of a function / `continue` at the tail of a loop body is dropped (through trailing if / with)
  TUPLE    a, b = x, y                    ->  a = x; b = y        (only when no target name occurs in any right-hand side
                                                                   and the right-hand sides are calls-free or there is no
                                                                   dependency between them: evaluation order is kept)

  ITER     for n in iter(o.m, <const>): B  ->  while True: n = o.m(); if n == <const>: break; B     (o a name the body does not rebind)
  STAR     [*x] -> list(x);   CHAIN   a < b < c -> a < b and b < c (shared operands plain names / constants)
  LOCALCONST  a local bound once at the top level of a function to a literal is replaced by the literal where it is read afterwards
  NEXT        it = iter(X); while True: try: t = next(it) / except StopIteration: break; B   ->   for t in X: B
  INDEX       i = 0; n = len(L); while i < n: B(L[i]); i += 1   ->   for item in L: B(item)     (L a fresh local list nobody can change)
  ROWALIAS    v = a[b] (a a local dict used only as a table, nothing rebound) followed by the reads of v  ->  the reads say a[b] again
  CLASSDEFAULT  a class-level literal default of a class with __init__ is written as `self.name = literal` at the top of __init__
  CONST    a private module-level name bound once to a literal constant is replaced by the literal inside functions (see constprop)

`LOKYSA_CANON=-LOOP,-SWAP` disables passes (debugging).  The count of rewrites per pass is kept in STATS.
"""
import ast
import copy
import os

STATS = {}
_OFF = {x[1:] for x in os.environ.get("LOKYSA_CANON", "").split(",") if x.startswith("-")}


def _on(name):
    return name not in _OFF


def _hit(name):
    STATS[name] = STATS.get(name, 0) + 1


def _dump(x):
    return ast.dump(x, annotate_fields=False, include_attributes=False)


def _as_load(t):
    t2 = copy.deepcopy(t)
    for n in ast.walk(t2):
        if hasattr(n, "ctx"):
            n.ctx = ast.Load()
    return t2


_NEG = {ast.Eq: ast.NotEq, ast.NotEq: ast.Eq, ast.Is: ast.IsNot, ast.IsNot: ast.Is, ast.In: ast.NotIn, ast.NotIn: ast.In,
        ast.Lt: ast.GtE, ast.GtE: ast.Lt, ast.Gt: ast.LtE, ast.LtE: ast.Gt}


def negate(t):
    """the canonical negation of test expression t."""
    if isinstance(t, ast.UnaryOp) and isinstance(t.op, ast.Not):
        return t.operand
    # (ordering operators are not negated: `not (a < b)` and `a >= b` differ for partial orders / NaN)
    if isinstance(t, ast.Compare) and len(t.ops) == 1 and type(t.ops[0]) in (ast.Eq, ast.NotEq, ast.Is, ast.IsNot, ast.In, ast.NotIn) \
            and _plain_operands(t):
        return ast.copy_location(ast.Compare(left=t.left, ops=[_NEG[type(t.ops[0])]()], comparators=t.comparators), t)
    return ast.copy_location(ast.UnaryOp(op=ast.Not(), operand=t), t)


def _plain_operands(t):
    # == / != negate each other only for objects that do not override them inconsistently: restrict to comparisons with a constant
    # or identity / membership tests (which no user class can make inconsistent with their negation)
    if isinstance(t.ops[0], (ast.Is, ast.IsNot, ast.In, ast.NotIn)):
        return True
    return isinstance(t.comparators[0], ast.Constant) or isinstance(t.left, ast.Constant)


def _ends_in_jump(stmts):
    return bool(stmts) and isinstance(stmts[-1], (ast.Return, ast.Continue, ast.Break, ast.Raise))


def _names_stored(x):
    return {n.id for n in ast.walk(x) if isinstance(n, ast.Name) and isinstance(n.ctx, ast.Store)}


def _names_loaded(x):
    return {n.id for n in ast.walk(x) if isinstance(n, ast.Name) and isinstance(n.ctx, ast.Load)}


class Canon(ast.NodeTransformer):
    # ------------------------------------------------------------------ expressions
    def visit_UnaryOp(self, node):
        self.generic_visit(node)
        if _on("NOT") and isinstance(node.op, ast.Not):
            x = node.operand
            if isinstance(x, ast.UnaryOp) and isinstance(x.op, ast.Not):
                # `not not a` is bool(a): only equal to `a` in a boolean context; handled where tests are canonicalised
                return node
            if isinstance(x, ast.Compare) and len(x.ops) == 1 and type(x.ops[0]) in (ast.Eq, ast.NotEq, ast.Is, ast.IsNot, ast.In, ast.NotIn) and _plain_operands(x):
                _hit("NOT")
                return negate(x)
        return node

    def visit_List(self, node):
        self.generic_visit(node)
        if _on("STAR") and isinstance(node.ctx, ast.Load) and len(node.elts) == 1 and isinstance(node.elts[0], ast.Starred):
            _hit("STAR")
            return ast.copy_location(ast.Call(func=ast.copy_location(ast.Name(id="list", ctx=ast.Load()), node), args=[node.elts[0].value], keywords=[]), node)
        return node

    def visit_Compare(self, node):
        self.generic_visit(node)
        # CHAIN: a < b <= c  ->  a < b and b <= c   when the shared operands are plain names / constants (evaluated once or twice: same thing)
        if _on("CHAIN") and len(node.ops) > 1 and all(isinstance(c, (ast.Name, ast.Constant)) for c in node.comparators[:-1]):
            _hit("CHAIN")
            parts = []
            left = node.left
            for op, right in zip(node.ops, node.comparators):
                parts.append(ast.copy_location(ast.Compare(left=copy.deepcopy(left), ops=[op], comparators=[right]), node))
                left = right
            return ast.copy_location(ast.BoolOp(op=ast.And(), values=parts), node)
        return node

    def _test(self, t):
        """canonical form of an expression in boolean context."""
        while isinstance(t, ast.UnaryOp) and isinstance(t.op, ast.Not) and isinstance(t.operand, ast.UnaryOp) and isinstance(t.operand.op, ast.Not):
            if not _on("NOT"):
                break
            _hit("NOT")
            t = t.operand.operand
        return t

    # ------------------------------------------------------------------ statements
    def visit_Assign(self, node):
        self.generic_visit(node)
        if _on("AUG") and len(node.targets) == 1 and isinstance(node.value, ast.BinOp) and isinstance(node.value.op, (ast.Add, ast.Sub, ast.Mult)) \
                and isinstance(node.value.right, ast.Constant) and isinstance(node.value.right.value, (int, float)) and not isinstance(node.value.right.value, bool) \
                and isinstance(node.targets[0], (ast.Name, ast.Attribute, ast.Subscript)) \
                and _dump(_as_load(node.targets[0])) == _dump(node.value.left):
            _hit("AUG")
            return ast.copy_location(ast.AugAssign(target=node.targets[0], op=node.value.op, value=node.value.right), node)
        if _on("IFEXP") and len(node.targets) == 1 and isinstance(node.value, ast.IfExp) and isinstance(node.targets[0], (ast.Name, ast.Attribute)) \
                and not (isinstance(node.targets[0], ast.Attribute) and not isinstance(node.targets[0].value, ast.Name)):
            _hit("IFEXP")
            t = node.targets[0]
            a = ast.copy_location(ast.Assign(targets=[copy.deepcopy(t)], value=node.value.body), node.value.body)
            b = ast.copy_location(ast.Assign(targets=[copy.deepcopy(t)], value=node.value.orelse), node.value.orelse)
            new = ast.copy_location(ast.If(test=node.value.test, body=[a], orelse=[b]), node)
            return self._if(new)
        if _on("TUPLE") and len(node.targets) == 1 and isinstance(node.targets[0], ast.Tuple) and isinstance(node.value, ast.Tuple) \
                and len(node.targets[0].elts) == len(node.value.elts) and all(isinstance(t, ast.Name) for t in node.targets[0].elts):
            tnames = {t.id for t in node.targets[0].elts}
            if len(tnames) == len(node.targets[0].elts) and not (tnames & _names_loaded(node.value)) \
                    and not any(isinstance(n, (ast.Call, ast.NamedExpr, ast.Await, ast.Yield)) for n in ast.walk(node.value)):
                _hit("TUPLE")
                return [ast.copy_location(ast.Assign(targets=[t], value=v), v) for t, v in zip(node.targets[0].elts, node.value.elts)]
        return node

    def visit_With(self, node):
        self.generic_visit(node)
        node.body = self._block(node.body)
        if _on("SUPPRESS") and len(node.items) == 1 and node.items[0].optional_vars is None:
            ce = node.items[0].context_expr
            if isinstance(ce, ast.Call) and not ce.keywords and ce.args and (
                    (isinstance(ce.func, ast.Name) and ce.func.id == "suppress")
                    or (isinstance(ce.func, ast.Attribute) and ce.func.attr == "suppress" and isinstance(ce.func.value, ast.Name) and ce.func.value.id == "contextlib")):
                _hit("SUPPRESS")
                typ = ce.args[0] if len(ce.args) == 1 else ast.Tuple(elts=list(ce.args), ctx=ast.Load())
                h = ast.ExceptHandler(type=typ, name=None, body=[ast.copy_location(ast.Pass(), node)])
                return ast.copy_location(ast.Try(body=node.body, handlers=[ast.copy_location(h, node)], orelse=[], finalbody=[]), node)
        return node

    def visit_While(self, node):
        self.generic_visit(node)
        node.test = self._test(node.test)
        # WALRUS: the named expression is the first thing the test evaluates
        if _on("WALRUS") and not node.orelse:
            ne = [n for n in ast.walk(node.test) if isinstance(n, ast.NamedExpr)]
            if len(ne) == 1 and self._evaluated_first(node.test, ne[0]) and isinstance(ne[0].target, ast.Name):
                _hit("WALRUS")
                asg = ast.copy_location(ast.Assign(targets=[ast.copy_location(ast.Name(id=ne[0].target.id, ctx=ast.Store()), ne[0])], value=ne[0].value), ne[0])
                test2 = _Replace(ne[0], ast.copy_location(ast.Name(id=ne[0].target.id, ctx=ast.Load()), ne[0])).visit(node.test)
                brk = ast.copy_location(ast.If(test=negate(test2), body=[ast.copy_location(ast.Break(), node)], orelse=[]), node)
                node = ast.copy_location(ast.While(test=ast.copy_location(ast.Constant(value=True), node), body=[asg, brk] + node.body, orelse=[]), node)
                node.body = self._block(node.body)
                return node
        node.body = self._block(node.body)
        node.orelse = self._block(node.orelse)
        if _on("TAIL"):
            node.body = _strip_tail(node.body, ast.Continue) or [ast.copy_location(ast.Pass(), node)]
        # LOOP
        if _on("LOOP") and isinstance(node.test, ast.Constant) and node.test.value is True and not node.orelse and len(node.body) >= 2:
            f = node.body[0]
            if isinstance(f, ast.If) and not f.orelse and len(f.body) == 1 and isinstance(f.body[0], ast.Break) \
                    and not any(isinstance(n, ast.NamedExpr) for n in ast.walk(f.test)):
                _hit("LOOP")
                node.test = self._test(negate(f.test))
                node.body = node.body[1:]
        # ... and the same loop after UNGUARD turned its first statement into `if C: <rest> else: break`
        if _on("LOOP") and isinstance(node.test, ast.Constant) and node.test.value is True and not node.orelse and len(node.body) == 1:
            f = node.body[0]
            if isinstance(f, ast.If) and len(f.orelse) == 1 and isinstance(f.orelse[0], ast.Break) and f.body \
                    and not any(isinstance(n, ast.NamedExpr) for n in ast.walk(f.test)) \
                    and not any(isinstance(n, ast.Break) for s_ in f.body for n in _walk_same_loop(s_)):
                _hit("LOOP")
                node.test = self._test(f.test)
                node.body = f.body
        return node

    @staticmethod
    def _evaluated_first(test, ne):
        x = test
        while True:
            if x is ne:
                return True
            if isinstance(x, ast.Compare):
                x = x.left
            elif isinstance(x, ast.UnaryOp):
                x = x.operand
            elif isinstance(x, ast.BoolOp):
                x = x.values[0]
            else:
                return False

    def _if(self, node):
        node.test = self._test(node.test)
        if _on("SWAP") and node.orelse and isinstance(node.test, ast.UnaryOp) and isinstance(node.test.op, ast.Not) \
                and not (len(node.orelse) == 1 and isinstance(node.orelse[0], ast.If)):
            _hit("SWAP")
            node.test = self._test(node.test.operand)
            node.body, node.orelse = node.orelse, node.body
        return node

    def visit_If(self, node):
        self.generic_visit(node)
        node.body = self._block(node.body)
        node.orelse = self._block(node.orelse)
        return self._if(node)

    def _block(self, stmts):
        """rewrites that look at consecutive statements of one block."""
        out = []
        i = 0
        stmts = list(stmts)
        while i < len(stmts):
            s = stmts[i]
            # LOCK
            if _on("LOCK") and i + 1 < len(stmts) and isinstance(s, ast.Expr) and isinstance(s.value, ast.Call) and isinstance(s.value.func, ast.Attribute) \
                    and s.value.func.attr == "acquire" and not s.value.args and not s.value.keywords:
                t = stmts[i + 1]
                if isinstance(t, ast.Try) and not t.handlers and not t.orelse and len(t.finalbody) == 1 and isinstance(t.finalbody[0], ast.Expr) \
                        and isinstance(t.finalbody[0].value, ast.Call) and isinstance(t.finalbody[0].value.func, ast.Attribute) \
                        and t.finalbody[0].value.func.attr == "release" and not t.finalbody[0].value.args \
                        and _dump(t.finalbody[0].value.func.value) == _dump(s.value.func.value):
                    _hit("LOCK")
                    w = ast.With(items=[ast.withitem(context_expr=s.value.func.value, optional_vars=None)], body=t.body)
                    out.append(ast.copy_location(w, s))
                    i += 2
                    continue
            # UNGUARD
            if _on("UNGUARD") and isinstance(s, ast.If) and not s.orelse and isinstance(s.test, ast.UnaryOp) and isinstance(s.test.op, ast.Not) \
                    and _ends_in_jump(s.body) and i + 1 < len(stmts):
                _hit("UNGUARD")
                rest = self._block(stmts[i + 1:])
                new = ast.copy_location(ast.If(test=self._test(s.test.operand), body=rest, orelse=s.body), s)
                out.append(new)
                return out
            out.append(s)
            i += 1
        return out

    def _bodies(self, node):
        for fld in ("body", "orelse", "finalbody"):
            v = getattr(node, fld, None)
            if isinstance(v, list) and v and isinstance(v[0], ast.stmt):
                setattr(node, fld, self._block(v))
        return node

    def visit_FunctionDef(self, node):
        if _on("LOCALCONST"):
            _local_constants(node)          # first: `x = x * factor` with a named constant factor then becomes `x *= 1.2`
        if _on("ROWALIAS"):
            _row_aliases(node)
        if _on("NEXT"):
            _next_loops(node)
        if _on("INDEX"):
            _index_loops(node)
        self.generic_visit(node)
        self._bodies(node)
        if _on("TAIL"):
            node.body = _strip_tail(node.body, ast.Return) or [ast.copy_location(ast.Pass(), node)]
        return node

    visit_AsyncFunctionDef = visit_FunctionDef

    def visit_For(self, node):
        self.generic_visit(node)
        # ITER: the two-argument iter() calls the bound method until it returns something equal to the sentinel
        if _on("ITER") and not node.orelse and isinstance(node.target, ast.Name) and isinstance(node.iter, ast.Call) \
                and isinstance(node.iter.func, ast.Name) and node.iter.func.id == "iter" and len(node.iter.args) == 2 and not node.iter.keywords \
                and isinstance(node.iter.args[0], ast.Attribute) and isinstance(node.iter.args[0].value, ast.Name) \
                and isinstance(node.iter.args[1], ast.Constant) \
                and node.iter.args[0].value.id not in {n for s in node.body for n in _names_stored(s)} | {node.target.id}:
            _hit("ITER")
            fn, sent = node.iter.args
            asg = ast.copy_location(ast.Assign(targets=[node.target], value=ast.copy_location(ast.Call(func=fn, args=[], keywords=[]), node.iter)), node.iter)
            cmp_ = ast.copy_location(ast.Compare(left=ast.copy_location(ast.Name(id=node.target.id, ctx=ast.Load()), node.iter), ops=[ast.Eq()], comparators=[sent]), node.iter)
            brk = ast.copy_location(ast.If(test=cmp_, body=[ast.copy_location(ast.Break(), node.iter)], orelse=[]), node.iter)
            new = ast.copy_location(ast.While(test=ast.copy_location(ast.Constant(value=True), node), body=[asg, brk] + node.body, orelse=[]), node)
            return self.visit_While(new)
        self._bodies(node)
        if _on("TAIL"):
            node.body = _strip_tail(node.body, ast.Continue) or [ast.copy_location(ast.Pass(), node)]
        return node

    def visit_Try(self, node):
        self.generic_visit(node)
        self._bodies(node)
        for h in node.handlers:
            h.body = self._block(h.body)
        return node

    def visit_Module(self, node):
        self.generic_visit(node)
        return self._bodies(node)

    def visit_ClassDef(self, node):
        if _on("CLASSDEFAULT"):
            _class_defaults(node)
        self.generic_visit(node)
        return self._bodies(node)


def _class_defaults(cls):
    """CLASSDEFAULT: a class-level `name = <literal>` (or `name: T = <literal>`) of a class that defines `__init__` is the default every
    instance sees until it rebinds the attribute: written as `self.name = <literal>` at the top of `__init__` it gives the instances
    the same values (the two differ only for code that reads the attribute on the class itself or inspects `vars(obj)`, which the
    analysed package does not do for such flags).  Dunder names and classes with `__slots__` are left alone."""
    init = next((s for s in cls.body if isinstance(s, ast.FunctionDef) and s.name == "__init__"), None)
    if init is None or not init.args.args or any(isinstance(s, ast.Assign) and any(isinstance(t_, ast.Name) and t_.id == "__slots__" for t_ in s.targets) for s in cls.body):
        return
    selfn = init.args.args[0].arg
    moved = []
    keep = []
    for s in cls.body:
        tgt = s.targets[0] if isinstance(s, ast.Assign) and len(s.targets) == 1 else s.target if isinstance(s, ast.AnnAssign) and s.value is not None else None
        if isinstance(tgt, ast.Name) and not tgt.id.startswith("__") and isinstance(s.value, ast.Constant) \
                and isinstance(s.value.value, (int, float, str, bytes, bool, type(None))) \
                and not any(isinstance(n, ast.Name) and n.id == tgt.id for s2 in cls.body if s2 is not s and not isinstance(s2, (ast.FunctionDef, ast.AsyncFunctionDef)) for n in ast.walk(s2)):
            moved.append((tgt.id, s.value, s))
        else:
            keep.append(s)
    if not moved:
        return
    new = []
    for name, val, s in moved:
        _hit("CLASSDEFAULT")
        a = ast.Assign(targets=[ast.Attribute(value=ast.Name(id=selfn, ctx=ast.Load()), attr=name, ctx=ast.Store())], value=val)
        new.append(ast.copy_location(a, s))
        ast.fix_missing_locations(new[-1])
    body = init.body
    k = 1 if body and isinstance(body[0], ast.Expr) and isinstance(body[0].value, ast.Constant) and isinstance(body[0].value.value, str) else 0
    init.body = body[:k] + new + body[k:]
    cls.body = keep or [ast.copy_location(ast.Pass(), cls)]


def _bind_counts(fn):
    binds = {}
    for n in ast.walk(fn):
        if isinstance(n, ast.Name) and isinstance(n.ctx, (ast.Store, ast.Del)):
            binds[n.id] = binds.get(n.id, 0) + 1
        elif isinstance(n, (ast.Global, ast.Nonlocal)):
            for nm in n.names:
                binds[nm] = 99
        elif isinstance(n, ast.arg):
            binds[n.arg] = 99
        elif isinstance(n, (ast.FunctionDef, ast.AsyncFunctionDef, ast.ClassDef)) and n is not fn:
            binds[n.name] = 99
        elif isinstance(n, ast.ExceptHandler) and n.name:
            binds[n.name] = 99
        elif isinstance(n, (ast.Import, ast.ImportFrom)):
            for al in n.names:
                binds[(al.asname or al.name).split(".")[0]] = 99
    return binds


def _own_binds(fn):
    """bindings of the names of fn's own scope (nested functions, lambdas and comprehensions have their own names; a nested
    `nonlocal` declaration makes the name untrackable)."""
    binds = {}
    a = fn.args
    for x in a.posonlyargs + a.args + a.kwonlyargs + [y for y in (a.vararg, a.kwarg) if y]:
        binds[x.arg] = 99

    def walk(n, own):
        for c in ast.iter_child_nodes(n):
            if isinstance(c, (ast.FunctionDef, ast.AsyncFunctionDef, ast.ClassDef)):
                if own:
                    binds[c.name] = 99
                walk(c, False)
            elif isinstance(c, (ast.Lambda, ast.ListComp, ast.SetComp, ast.DictComp, ast.GeneratorExp)):
                walk(c, False)
            else:
                if isinstance(c, ast.Nonlocal) or (own and isinstance(c, ast.Global)):
                    for nm in c.names:
                        binds[nm] = 99
                elif own and isinstance(c, ast.Name) and isinstance(c.ctx, (ast.Store, ast.Del)):
                    binds[c.id] = binds.get(c.id, 0) + 1
                elif own and isinstance(c, ast.ExceptHandler) and c.name:
                    binds[c.name] = 99
                elif own and isinstance(c, (ast.Import, ast.ImportFrom)):
                    for al in c.names:
                        binds[(al.asname or al.name).split(".")[0]] = 99
                walk(c, own)
    walk(fn, True)
    return binds


def _next_loops(fn):
    """NEXT: the for statement written by hand --
           it = iter(X)
           while True:
               try: t = next(it)
               except StopIteration: break            (or a bare `return`)
               B
    with `it` used nowhere else in the function, is `for t in X: B` (followed by `else: return` when the handler returns and the loop
    is not the last statement of the function)."""
    uses = {}
    for n in ast.walk(fn):
        if isinstance(n, ast.Name):
            uses[n.id] = uses.get(n.id, 0) + 1

    def blocks(node):
        for fld in ("body", "orelse", "finalbody"):
            v = getattr(node, fld, None)
            if isinstance(v, list) and v and isinstance(v[0], ast.stmt):
                yield v
        for h in getattr(node, "handlers", []):
            yield h.body

    todo = [fn]
    while todo:
        node = todo.pop()
        for blk in blocks(node):
            i = 0
            while i < len(blk):
                s = blk[i]
                if not isinstance(s, (ast.FunctionDef, ast.AsyncFunctionDef, ast.ClassDef)):
                    todo.append(s)
                w = blk[i + 1] if i + 1 < len(blk) else None
                if isinstance(s, ast.Assign) and len(s.targets) == 1 and isinstance(s.targets[0], ast.Name) and uses.get(s.targets[0].id) == 2 \
                        and isinstance(s.value, ast.Call) and isinstance(s.value.func, ast.Name) and s.value.func.id == "iter" and len(s.value.args) == 1 and not s.value.keywords \
                        and isinstance(w, ast.While) and isinstance(w.test, ast.Constant) and w.test.value is True and not w.orelse and len(w.body) >= 1 \
                        and isinstance(w.body[0], ast.Try):
                    it, tr = s.targets[0].id, w.body[0]
                    if len(tr.body) == 1 and isinstance(tr.body[0], ast.Assign) and len(tr.body[0].targets) == 1 and isinstance(tr.body[0].targets[0], (ast.Name, ast.Tuple)) \
                            and isinstance(tr.body[0].value, ast.Call) and isinstance(tr.body[0].value.func, ast.Name) and tr.body[0].value.func.id == "next" \
                            and len(tr.body[0].value.args) == 1 and isinstance(tr.body[0].value.args[0], ast.Name) and tr.body[0].value.args[0].id == it \
                            and not tr.body[0].value.keywords and not tr.orelse and not tr.finalbody and len(tr.handlers) == 1 \
                            and isinstance(tr.handlers[0].type, ast.Name) and tr.handlers[0].type.id == "StopIteration" and tr.handlers[0].name is None \
                            and len(tr.handlers[0].body) == 1 and (isinstance(tr.handlers[0].body[0], ast.Break) or (
                                isinstance(tr.handlers[0].body[0], ast.Return) and tr.handlers[0].body[0].value is None)):
                        _hit("NEXT")
                        j = tr.handlers[0].body[0]
                        last = node is fn and blk is fn.body and i + 2 == len(blk)
                        orelse = [j] if isinstance(j, ast.Return) and not last else []
                        new = ast.For(target=tr.body[0].targets[0], iter=s.value.args[0], body=w.body[1:] or [ast.copy_location(ast.Pass(), w)], orelse=orelse)
                        blk[i:i + 2] = [ast.copy_location(new, w)]
                        todo.append(blk[i])
                i += 1


def _index_loops(fn):
    """INDEX: the for statement written with an index --
           i = 0 [; n = len(L)]
           while i < n:            (or  i < len(L))
               B                   (reads `i` only as L[i]; no `continue` of this loop; rebinds none of i, n, L)
               i += 1
    where L is a local bound once to a fresh list (list(...), a display or a comprehension) that the function only indexes, measures,
    iterates, formats or tests (so nothing can change it during the loop), and `i` is not read after the loop, is
    `for item in L: B[L[i] := item]`."""
    binds = _own_binds(fn)
    par = {}
    for n in ast.walk(fn):
        for c in ast.iter_child_nodes(n):
            par[id(c)] = n
    occ = {}
    for n in ast.walk(fn):
        if isinstance(n, ast.Name):
            occ.setdefault(n.id, []).append(n)

    def fresh_list(L):
        defs = [n for n in ast.walk(fn) if isinstance(n, ast.Assign) and len(n.targets) == 1 and isinstance(n.targets[0], ast.Name) and n.targets[0].id == L]
        if binds.get(L) != 1 or len(defs) != 1:
            return False
        v = defs[0].value
        if not (isinstance(v, (ast.List, ast.ListComp)) or (isinstance(v, ast.Call) and isinstance(v.func, ast.Name) and v.func.id in ("list", "sorted"))):
            return False
        for n in occ.get(L, []):
            if not isinstance(n.ctx, ast.Load):
                continue
            p = par.get(id(n))
            if isinstance(p, ast.Subscript) and p.value is n and isinstance(p.ctx, ast.Load):
                continue
            if isinstance(p, ast.Call) and isinstance(p.func, ast.Name) and p.func.id == "len" and p.args == [n]:
                continue
            if isinstance(p, (ast.For, ast.comprehension)) and p.iter is n:
                continue
            if isinstance(p, ast.FormattedValue) or (isinstance(p, (ast.If, ast.While)) and p.test is n) or (isinstance(p, ast.UnaryOp) and isinstance(p.op, ast.Not)):
                continue
            return False
        return True

    def is_len_of(x, L=None):
        return isinstance(x, ast.Call) and isinstance(x.func, ast.Name) and x.func.id == "len" and len(x.args) == 1 and isinstance(x.args[0], ast.Name) \
            and (L is None or x.args[0].id == L) and not x.keywords

    def blocks(node):
        for fld in ("body", "orelse", "finalbody"):
            v = getattr(node, fld, None)
            if isinstance(v, list) and v and isinstance(v[0], ast.stmt):
                yield v
        for h in getattr(node, "handlers", []):
            yield h.body

    def inside(n, roots):
        ids = {id(x) for r in roots for x in ast.walk(r)}
        return id(n) in ids

    todo = [fn]
    while todo:
        node = todo.pop()
        for blk in blocks(node):
            k = 0
            while k < len(blk):
                w = blk[k]
                if not isinstance(w, (ast.FunctionDef, ast.AsyncFunctionDef, ast.ClassDef)):
                    todo.append(w)
                k += 1
                if not (isinstance(w, ast.While) and not w.orelse and isinstance(w.test, ast.Compare) and len(w.test.ops) == 1 and isinstance(w.test.ops[0], ast.Lt)
                        and isinstance(w.test.left, ast.Name) and len(w.body) >= 2):
                    continue
                i = w.test.left.id
                bound = w.test.comparators[0]
                last = w.body[-1]
                step = (isinstance(last, ast.AugAssign) and isinstance(last.target, ast.Name) and last.target.id == i and isinstance(last.op, ast.Add)
                        and isinstance(last.value, ast.Constant) and last.value.value == 1) or \
                       (isinstance(last, ast.Assign) and len(last.targets) == 1 and isinstance(last.targets[0], ast.Name) and last.targets[0].id == i
                        and isinstance(last.value, ast.BinOp) and isinstance(last.value.op, ast.Add) and isinstance(last.value.left, ast.Name) and last.value.left.id == i
                        and isinstance(last.value.right, ast.Constant) and last.value.right.value == 1)
                if not step or binds.get(i, 0) >= 99:
                    continue
                # the statements right before the loop: `i = 0` and, when the bound is a name, `n = len(L)`
                pre = blk[max(0, k - 3):k - 1]
                init = [s for s in pre if isinstance(s, ast.Assign) and len(s.targets) == 1 and isinstance(s.targets[0], ast.Name) and s.targets[0].id == i
                        and isinstance(s.value, ast.Constant) and s.value.value == 0 and not isinstance(s.value.value, bool)]
                if len(init) != 1:
                    continue
                nstmt = None
                if isinstance(bound, ast.Name):
                    cand = [s for s in pre if isinstance(s, ast.Assign) and len(s.targets) == 1 and isinstance(s.targets[0], ast.Name) and s.targets[0].id == bound.id and is_len_of(s.value)]
                    if len(cand) != 1 or binds.get(bound.id) != 1:
                        continue
                    nstmt = cand[0]
                    L = nstmt.value.args[0].id
                elif is_len_of(bound):
                    L = bound.args[0].id
                else:
                    continue
                used = [init[0]] + ([nstmt] if nstmt else [])
                if blk[k - 1 - len(used):k - 1] != used and blk[k - 1 - len(used):k - 1] != used[::-1]:
                    continue
                if not fresh_list(L) or len({i, L} | ({bound.id} if nstmt else set())) != (3 if nstmt else 2):
                    continue
                body = w.body[:-1]
                body_nodes = [n for s in body for n in ast.walk(s)]
                if any(isinstance(n, ast.Continue) for s in body for n in _walk_same_loop(s)):
                    continue
                if any(isinstance(n, ast.Name) and n.id in (i, L, bound.id if nstmt else i) and isinstance(n.ctx, (ast.Store, ast.Del)) for n in body_nodes):
                    continue
                iloads = [n for n in body_nodes if isinstance(n, ast.Name) and n.id == i]
                if not all(isinstance(par.get(id(n)), ast.Subscript) and par[id(n)].slice is n and isinstance(par[id(n)].value, ast.Name)
                           and par[id(n)].value.id == L and isinstance(par[id(n)].ctx, ast.Load) for n in iloads):
                    continue
                # i (and n) are not read outside the loop and its initialisation
                region = used + [w]
                if any(not inside(n, region) for n in occ.get(i, [])) or (nstmt and any(not inside(n, region) for n in occ.get(bound.id, []))):
                    continue
                if any(isinstance(x, (ast.FunctionDef, ast.AsyncFunctionDef, ast.Lambda, ast.GeneratorExp)) for x in body_nodes):
                    continue
                _hit("INDEX")
                item = f"_{L}_item"
                subs = {id(par[id(n)]) for n in iloads}

                class _Sub(ast.NodeTransformer):
                    def visit_Subscript(self, n):
                        if id(n) in subs:
                            return ast.copy_location(ast.Name(id=item, ctx=ast.Load()), n)
                        return self.generic_visit(n)
                sub = _Sub()
                body = [sub.visit(s) for s in body]
                target = ast.Name(id=item, ctx=ast.Store())
                f0 = body[0] if body else None
                if isinstance(f0, ast.Assign) and len(f0.targets) == 1 and isinstance(f0.targets[0], (ast.Name, ast.Tuple)) and isinstance(f0.value, ast.Name) \
                        and f0.value.id == item and sum(1 for s in body for n in ast.walk(s) if isinstance(n, ast.Name) and n.id == item) == 1:
                    target, body = f0.targets[0], body[1:]
                new = ast.For(target=target, iter=ast.Name(id=L, ctx=ast.Load()), body=body or [ast.copy_location(ast.Pass(), w)], orelse=[])
                ast.copy_location(new, w)
                ast.fix_missing_locations(new)
                start = k - 1 - len(used)
                keep_n = [nstmt] if nstmt and any(isinstance(n, ast.Name) and n.id == bound.id for n in body_nodes) else []
                blk[start:k] = keep_n + [new]
                k = start + len(keep_n) + 1
                for n in ast.walk(fn):
                    for c in ast.iter_child_nodes(n):
                        par[id(c)] = n


_DICT_MAKERS = ("dict", "defaultdict", "OrderedDict")
_DICT_READS = ("items", "keys", "values", "get")


def _row_aliases(fn):
    """ROWALIAS: `v = a[b]` followed, in the same block, by all the reads of `v`, where
      - `a` is a local bound once to a dict display / dict comprehension / dict(...) / defaultdict(...) (so `a[b]` is the builtin lookup),
        and everywhere in the function `a` is only subscripted, measured with len(), tested with `in`, iterated, or read through
        .items()/.keys()/.values()/.get() (it has no alias and no statement of the rest of the block stores or deletes `a[...]`),
      - `b` is a plain name, and neither `a`, `b` nor `v` is rebound in the rest of the block (nor `v` anywhere else),
      - `v` is not read in a nested scope,
    names the same object as `a[b]` at every read: the reads are written `a[b]` again (the binding statement stays as the bare lookup
    `a[b]`, which keeps a KeyError where it was).  Hoisting a repeated lookup into a local is a common clean-up."""
    binds = _own_binds(fn)
    par = {}
    for n in ast.walk(fn):
        for c in ast.iter_child_nodes(n):
            par[id(c)] = n
    dicts = set()
    for n in ast.walk(fn):
        if isinstance(n, ast.Assign) and len(n.targets) == 1 and isinstance(n.targets[0], ast.Name) and binds.get(n.targets[0].id) == 1:
            v = n.value
            if isinstance(v, (ast.Dict, ast.DictComp)) or (isinstance(v, ast.Call) and (
                    (isinstance(v.func, ast.Name) and v.func.id in _DICT_MAKERS) or (isinstance(v.func, ast.Attribute) and v.func.attr in _DICT_MAKERS))):
                dicts.add(n.targets[0].id)

    def only_read_as_table(a):
        for n in ast.walk(fn):
            if isinstance(n, ast.Name) and n.id == a and isinstance(n.ctx, ast.Load):
                p = par.get(id(n))
                if isinstance(p, ast.Subscript) and p.value is n:
                    continue
                if isinstance(p, ast.Compare) and n in p.comparators and isinstance(p.ops[p.comparators.index(n)], (ast.In, ast.NotIn)):
                    continue
                if isinstance(p, ast.Call) and isinstance(p.func, ast.Name) and p.func.id == "len" and p.args == [n]:
                    continue
                if isinstance(p, ast.Attribute) and p.attr in _DICT_READS and isinstance(par.get(id(p)), ast.Call) and par[id(p)].func is p:
                    continue
                if isinstance(p, (ast.For, ast.comprehension)) and p.iter is n:
                    continue
                return False
        return True

    def in_nested_scope(n):
        p = par.get(id(n))
        while p is not None and p is not fn:
            if isinstance(p, (ast.FunctionDef, ast.AsyncFunctionDef, ast.Lambda, ast.ClassDef, ast.GeneratorExp)):
                return True
            p = par.get(id(p))
        return False

    def blocks(node):
        for fld in ("body", "orelse", "finalbody"):
            v = getattr(node, fld, None)
            if isinstance(v, list) and v and isinstance(v[0], ast.stmt):
                yield v
        for h in getattr(node, "handlers", []):
            yield h.body

    todo = [fn]
    while todo:
        node = todo.pop()
        for blk in blocks(node):
            for i, s in enumerate(blk):
                if not isinstance(s, (ast.FunctionDef, ast.AsyncFunctionDef, ast.ClassDef)):
                    todo.append(s)
                if not (isinstance(s, ast.Assign) and len(s.targets) == 1 and isinstance(s.targets[0], ast.Name) and binds.get(s.targets[0].id, 0) < 99
                        and isinstance(s.value, ast.Subscript) and isinstance(s.value.value, ast.Name) and s.value.value.id in dicts
                        and isinstance(s.value.slice, ast.Name)):
                    continue
                v, a, b = s.targets[0].id, s.value.value.id, s.value.slice.id
                if len({v, a, b}) != 3 or not only_read_as_table(a):
                    continue
                rest = blk[i + 1:]
                rest_nodes = [n for r in rest for n in ast.walk(r)]
                # a block is entered at its first statement only: whatever runs in `rest` ran this binding after any other binding of
                # `v` elsewhere in the function, so the reads in `rest` see it unless `rest` itself rebinds `v`
                loads = [n for n in rest_nodes if isinstance(n, ast.Name) and n.id == v and isinstance(n.ctx, ast.Load) and not in_nested_scope(n)]
                if not loads:
                    continue
                if any(isinstance(n, ast.Name) and n.id in (a, b, v) and isinstance(n.ctx, (ast.Store, ast.Del)) for n in rest_nodes):
                    continue
                # the binding itself can go when no other read of `v` (after the block, in a closure) may still see it
                other = [n for n in ast.walk(fn) if isinstance(n, ast.Name) and n.id == v and isinstance(n.ctx, ast.Load) and not any(n is l for l in loads)]
                if any(isinstance(n, ast.Subscript) and isinstance(n.ctx, (ast.Store, ast.Del)) and isinstance(n.value, ast.Name) and n.value.id == a for n in rest_nodes):
                    continue
                _hit("ROWALIAS")
                row = s.value

                class _Sub(ast.NodeTransformer):
                    def visit_Name(self, n):
                        if n.id == v and isinstance(n.ctx, ast.Load):
                            return ast.copy_location(copy.deepcopy(row), n)
                        return n
                sub = _Sub()
                for j in range(i + 1, len(blk)):
                    blk[j] = sub.visit(blk[j])
                if not other:
                    blk[i] = ast.copy_location(ast.Expr(value=row), s)
                for n in ast.walk(fn):          # parents of the rewritten part
                    for c in ast.iter_child_nodes(n):
                        par[id(c)] = n


def _local_constants(fn):
    """LOCALCONST: a local name bound exactly once, by a top-level statement of the function body, to a literal constant (number, string,
    bytes, bool, None) and never rebound, augmented, deleted or declared global / nonlocal anywhere in the function (nested scopes
    included) is replaced by the literal where it is read after that statement: `timeout = 30; acquire(True, timeout=timeout)` is
    `acquire(True, timeout=30)`.  (Naming a magic number is a common clean-up; the binding statement itself is kept.)"""
    binds = {}
    for n in ast.walk(fn):
        if isinstance(n, ast.Name) and isinstance(n.ctx, (ast.Store, ast.Del)):
            binds[n.id] = binds.get(n.id, 0) + 1
        elif isinstance(n, (ast.Global, ast.Nonlocal)):
            for nm in n.names:
                binds[nm] = 99
        elif isinstance(n, ast.arg):
            binds[n.arg] = 99
        elif isinstance(n, (ast.FunctionDef, ast.AsyncFunctionDef, ast.ClassDef)) and n is not fn:
            binds[n.name] = 99
        elif isinstance(n, ast.ExceptHandler) and n.name:
            binds[n.name] = 99
        elif isinstance(n, (ast.Import, ast.ImportFrom)):
            for al in n.names:
                binds[(al.asname or al.name).split(".")[0]] = 99
    consts = {}
    for i, s in enumerate(fn.body):
        if isinstance(s, ast.Assign) and len(s.targets) == 1 and isinstance(s.targets[0], ast.Name) and binds.get(s.targets[0].id) == 1 \
                and isinstance(s.value, ast.Constant) and isinstance(s.value.value, (int, float, str, bytes, bool, type(None))):
            consts[s.targets[0].id] = (i, s.value)
        elif isinstance(s, ast.AnnAssign) and isinstance(s.target, ast.Name) and s.value is not None and binds.get(s.target.id) == 1 \
                and isinstance(s.value, ast.Constant) and isinstance(s.value.value, (int, float, str, bytes, bool, type(None))):
            consts[s.target.id] = (i, s.value)
    if not consts:
        return

    class _Sub(ast.NodeTransformer):
        def visit_Name(self, node):
            if isinstance(node.ctx, ast.Load) and node.id in consts and self.idx > consts[node.id][0]:
                _hit("LOCALCONST")
                return ast.copy_location(copy.deepcopy(consts[node.id][1]), node)
            return node
    sub = _Sub()
    for i, s in enumerate(fn.body):
        sub.idx = i
        fn.body[i] = sub.visit(s)


def _walk_same_loop(s):
    """nodes of statement s that belong to the same loop level (not descending into nested loops / functions)."""
    yield s
    for c in ast.iter_child_nodes(s):
        if isinstance(c, (ast.For, ast.While, ast.AsyncFor, ast.FunctionDef, ast.AsyncFunctionDef, ast.Lambda, ast.ClassDef)):
            continue
        yield from _walk_same_loop(c)


def _strip_tail(stmts, kind):
    """TAIL: a bare `return` in tail position of a function (a `continue` in tail position of a loop body) is redundant: removed,
    through the arms of trailing if statements and the bodies of trailing with statements."""
    if not stmts:
        return stmts
    last = stmts[-1]
    if isinstance(last, kind) and getattr(last, "value", None) is None:
        _hit("TAIL")
        return stmts[:-1]
    if isinstance(last, ast.If):
        b = _strip_tail(last.body, kind)
        o = _strip_tail(last.orelse, kind)
        if not b and not o:
            # `if c: return` at the tail: the test must still be evaluated
            last.body = [ast.copy_location(ast.Pass(), last)]
            last.orelse = []
        elif not b:
            last.test = negate(last.test)
            last.body, last.orelse = o, []
        else:
            last.body, last.orelse = b, o
    elif isinstance(last, ast.With):
        last.body = _strip_tail(last.body, kind) or [ast.copy_location(ast.Pass(), last)]
    return stmts


class _Replace(ast.NodeTransformer):
    def __init__(self, old, new):
        self.old, self.new = old, new

    def visit(self, node):
        if node is self.old:
            return self.new
        return super().visit(node)


def _const_literal(v):
    if isinstance(v, ast.Constant) and isinstance(v.value, (str, int, float, bytes, bool, type(None))):
        return True
    return isinstance(v, ast.Tuple) and all(_const_literal(x) for x in v.elts)


def constprop(tree):
    """CONST: a private module-level name (`_X`) bound exactly once, at module level, to a literal constant (or a tuple of them), never
    rebound or deleted anywhere in the module and never named in a `global` statement, is replaced by the literal where it is read
    inside functions: `_FNAME = "cpu.max"` + `open(_FNAME)` is `open("cpu.max")`.  (Moving a literal to a module-level constant and
    back is a common clean-up.  Names that other code rebinds -- depth counters, flags -- are excluded by the single-binding test.)"""
    if not _on("CONST"):
        return tree
    bound = {}
    for s in tree.body:
        if isinstance(s, ast.Assign) and len(s.targets) == 1 and isinstance(s.targets[0], ast.Name):
            bound.setdefault(s.targets[0].id, []).append(s.value)
    cands = {n: v[0] for n, v in bound.items() if len(v) == 1 and n.startswith("_") and not n.startswith("__") and _const_literal(v[0])}
    if not cands:
        return tree
    # any other binding of the name anywhere (store / del / global / import / def / class / loop target...) disqualifies it
    for n in ast.walk(tree):
        if isinstance(n, ast.Name) and isinstance(n.ctx, (ast.Store, ast.Del)) and n.id in cands:
            if not any(isinstance(s, ast.Assign) and s.targets[0] is n for s in tree.body):
                cands.pop(n.id, None)
        elif isinstance(n, (ast.Global, ast.Nonlocal)):
            for nm in n.names:
                cands.pop(nm, None)
        elif isinstance(n, (ast.FunctionDef, ast.AsyncFunctionDef, ast.ClassDef)) and n.name in cands:
            cands.pop(n.name, None)
        elif isinstance(n, ast.arg) and n.arg in cands:
            cands.pop(n.arg, None)
        elif isinstance(n, (ast.Import, ast.ImportFrom)):
            for al in n.names:
                cands.pop((al.asname or al.name).split(".")[0], None)
    if not cands:
        return tree

    class _Sub(ast.NodeTransformer):
        def __init__(self):
            self.depth = 0

        def visit_FunctionDef(self, node):
            self.depth += 1
            self.generic_visit(node)
            self.depth -= 1
            return node
        visit_AsyncFunctionDef = visit_FunctionDef
        visit_Lambda = visit_FunctionDef

        def visit_Name(self, node):
            if self.depth and isinstance(node.ctx, ast.Load) and node.id in cands:
                _hit("CONST")
                return ast.copy_location(copy.deepcopy(cands[node.id]), node)
            return node
    return _Sub().visit(tree)


def canonicalise(tree):
    return ast.fix_missing_locations(Canon().visit(constprop(tree)))
