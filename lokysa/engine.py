"""Engine facade: program model + points-to + call graph + CFGs + lock context.

One Engine is built per run from /repo's working tree (or from an in-memory
source map for the self-validation tier).  Nothing is cached between runs.
"""
import ast
import time

from .model import Program, AnalysisError, func_nodes, norm, static_truth, _dotted
from .pointsto import PointsTo, NONE, UNKNOWN
from .cfg import cfg_of, calls_in, _walk_noscope

SYNC_KINDS = ("direct", "ext-hook")
ACQ_NAMES = ("acquire", "__enter__")
REL_NAMES = ("release", "__exit__")


class Engine:
    def __init__(self, sources=None, inline_select=False):
        t = time.time()
        self.prog = Program(sources, inline_select)
        self._variants = {}
        self.pt = PointsTo(self.prog)
        self.build_time = time.time() - t
        self._edges = None
        self._redges = None
        self._held = {}
        self._entry_held = None
        self._anchors = None

    # ----------------------------------------------------------- refinement variants (inline.py)
    def inline_candidates(self):
        from .inline import candidates
        import ast as _ast
        trees = {m.path: m.tree for m in self.prog.modules.values() if m.name != "__user__"}
        return candidates(trees, self.prog.sources)

    def variant(self, select):
        """an Engine over the equivalent program with the given helpers (None = all eligible) inlined; None if nothing was inlined."""
        key = None if select is None else frozenset(select)
        if key not in self._variants:
            try:
                v = Engine(self.prog.sources, inline_select=(None if select is None else set(select)))
            except AnalysisError:
                v = None
            if v is not None and not v.prog.inlined:
                v = None
            self._variants[key] = v
        return self._variants[key]

    # ----------------------------------------------------------- conveniences
    def func(self, q):
        return self.prog.func(q)

    def cfg(self, func, implicit_raise=False):
        return cfg_of(func, implicit_raise)

    def ev(self, func, node):
        return self.pt.ev(func, node)

    def objs(self, func, node):
        """Abstract objects an expression may denote (None/unknown dropped)."""
        return frozenset(v for v in self.pt.ev(func, node) if v[0] in ("obj", "cont", "tuple"))

    def loc(self, func, node):
        return self.prog.loc(func, node)

    @property
    def anchors(self):
        if self._anchors is None:
            from .anchors import Anchors
            self._anchors = Anchors(self)
        return self._anchors

    # ------------------------------------------------------------- call graph
    def edges(self):
        """caller qualname -> list of (callee qualname, kind, call node)."""
        if self._edges is None:
            e, r = {}, {}
            for cid, s in self.pt.calls.items():
                f, n = self.pt.call_node[cid]
                for q, k in s:
                    if q.startswith("<alloc>") or q not in self.prog.funcs:
                        continue
                    e.setdefault(f.qualname, []).append((q, k, n))
                    r.setdefault(q, []).append((f.qualname, k, n))
            self._edges, self._redges = e, r
        return self._edges

    def redges(self):
        self.edges()
        return self._redges

    def callees_of(self, call_node, kinds=SYNC_KINDS):
        return {q for q, k in self.pt.calls.get(id(call_node), ())
                if k in kinds and q in self.prog.funcs}

    def reach(self, roots, kinds=SYNC_KINDS):
        """Functions reachable from *roots* (qualnames) through synchronous
        call edges.  Returns {qualname: predecessor qualname or None}."""
        e = self.edges()
        prev = {r: None for r in roots}
        st = list(roots)
        while st:
            q = st.pop()
            for c, k, _ in e.get(q, ()):
                if k in kinds and c not in prev:
                    prev[c] = q
                    st.append(c)
        return prev

    def call_path(self, prev, q):
        p = [q]
        while prev.get(p[-1]) is not None:
            p.append(prev[p[-1]])
        return [x.split(":")[1] for x in reversed(p)]

    def all_calls(self, funcs=None):
        """Yield (Func, ast.Call) for every call site of the analysed arms."""
        fs = self.prog.funcs.values() if funcs is None else funcs
        for f in fs:
            if f.module.name == "__user__":
                continue
            for n in func_nodes(f):
                if isinstance(n, ast.Call):
                    yield f, n

    def method_calls(self, attr_names, recv_pred, funcs=None):
        """Call sites `E.attr(...)` with attr in attr_names and some object of
        pts(E) satisfying recv_pred.  Bound-method aliases (x = E.attr; x())
        are included."""
        if isinstance(attr_names, str):
            attr_names = (attr_names,)
        for f, n in self.all_calls(funcs):
            recvs = self.receiver_objs(f, n, attr_names)
            if recvs and any(recv_pred(o) for o in recvs):
                yield f, n, recvs

    def receiver_objs(self, func, call, attr_names):
        """Objects on which `call` invokes a method named in attr_names."""
        fn = call.func
        out = set()
        if isinstance(fn, ast.Attribute) and fn.attr in attr_names:
            out |= {v for v in self.pt.ev(func, fn.value) if v[0] in ("obj", "cont", "tuple")}
        elif isinstance(fn, ast.Name):
            for v in self.pt.ev(func, fn):
                if v[0] == "bound":
                    nm = v[2][4:] if v[2].startswith("ext:") else v[2].split(".")[-1]
                    if nm in attr_names and v[1][0] in ("obj", "cont", "tuple"):
                        out.add(v[1])
        return out

    def func_calls_trans(self, q, pred, kinds=SYNC_KINDS, _seen=None):
        """Does function q (transitively, synchronously) contain a call site
        satisfying pred(func, call)?  Returns witness [(func, call)...] or None."""
        seen = _seen if _seen is not None else set()
        if q in seen:
            return None
        seen.add(q)
        f = self.prog.funcs.get(q)
        if f is None:
            return None
        for n in func_nodes(f):
            if isinstance(n, ast.Call) and pred(f, n):
                return [(f, n)]
        for c, k, n in self.edges().get(q, ()):
            if k in kinds:
                w = self.func_calls_trans(c, pred, kinds, seen)
                if w is not None:
                    return [(f, n)] + w
        return None

    def call_has_effect(self, func, call, pred, kinds=SYNC_KINDS):
        """Does executing `call` (itself or transitively through its resolved
        callees) perform a call satisfying pred?"""
        if pred(func, call):
            return [(func, call)]
        for q in self.callees_of(call, kinds):
            w = self.func_calls_trans(q, pred, kinds)
            if w is not None:
                return [(func, call)] + w
        return None

    # ------------------------------------------------------------ lock context
    def lock_token(self, func, expr):
        return frozenset(v for v in self.pt.ev(func, expr) if v[0] == "obj")

    def _acq_rel(self, func, call):
        """Classify a call as ('acq'|'rel'|'try', token) or None."""
        fn = call.func
        name = None
        tok = None
        if isinstance(fn, ast.Attribute) and fn.attr in ("acquire", "release"):
            name = fn.attr
            tok = self.lock_token(func, fn.value)
        elif isinstance(fn, ast.Name):
            for v in self.pt.ev(func, fn):
                if v[0] == "bound" and v[1][0] == "obj":
                    nm = v[2][4:] if v[2].startswith("ext:") else v[2].split(".")[-1]
                    if nm in ("acquire", "release"):
                        name = nm
                        tok = frozenset((tok or frozenset()) | {v[1]})
        if name is None or not tok:
            return None
        if name == "release":
            return ("rel", tok)
        return ("try" if self.is_nonblocking(call) else "acq", tok)

    @staticmethod
    def is_nonblocking(call):
        """acquire(False) / acquire(block=False) / acquire(blocking=False) / timeout given."""
        if call.args and isinstance(call.args[0], ast.Constant) and call.args[0].value is False:
            return True
        for k in call.keywords:
            if k.arg in ("block", "blocking") and isinstance(k.value, ast.Constant) and k.value.value is False:
                return True
            if k.arg == "timeout" and not (isinstance(k.value, ast.Constant) and k.value.value is None):
                return True
        if len(call.args) > 1 and not (isinstance(call.args[1], ast.Constant) and call.args[1].value is None):
            return True
        return False

    def held(self, func):
        """Must-held lock tokens at entry of each CFG node of func (local
        acquisitions only).  Returns {cfg node: frozenset(tokens)}."""
        key = func.qualname
        if key in self._held and self._held[key][0] is func:
            return self._held[key][1]
        g = self.cfg(func)
        TOP = None
        IN = {n: TOP for n in g.nodes}
        IN[g.entry] = frozenset()

        def out_of(n, label, inn):
            if inn is None:
                return None
            s = set(inn)
            if n.kind == "with_enter":
                if label != "exc":
                    tok = self.lock_token(func, n.ast.context_expr)
                    if tok:
                        s.add(tok)
            elif n.kind == "with_exit":
                tok = self.lock_token(func, n.ast.context_expr)
                s.discard(tok)
            elif n.kind in ("stmt", "test"):
                root = n.ast
                call = None
                if isinstance(root, ast.Expr) and isinstance(root.value, ast.Call):
                    call = root.value
                elif isinstance(root, ast.Assign) and isinstance(root.value, ast.Call):
                    call = root.value
                elif n.kind == "test" and isinstance(root, ast.Call):
                    call = root
                if call is not None:
                    ar = self._acq_rel(func, call)
                    if ar is not None:
                        kind, tok = ar
                        if kind == "rel":
                            if label != "exc":
                                s.discard(tok)
                        elif kind == "acq":
                            if label != "exc":
                                s.add(tok)
                        elif kind == "try" and n.kind == "test" and label == "T":
                            s.add(tok)
            return frozenset(s)

        work = [g.entry]
        while work:
            n = work.pop()
            inn = IN[n]
            for m, l in n.succ:
                o = out_of(n, l, inn)
                if o is None:
                    continue
                cur = IN[m]
                new = o if cur is None else (cur & o)
                if new != cur:
                    IN[m] = new
                    work.append(m)
        res = {n: (IN[n] if IN[n] is not None else frozenset()) for n in g.nodes}
        self._held[key] = (func, res)
        return res

    def held_at_call(self, func, call):
        """Locally must-held tokens when `call` executes (intersection over
        all CFG copies of the enclosing statement)."""
        g = self.cfg(func)
        h = self.held(func)
        nodes = g.nodes_containing(call)
        if not nodes:
            return frozenset()
        r = None
        for n in nodes:
            r = h[n] if r is None else (r & h[n])
        return r

    def entry_held(self):
        """qualname -> tokens certainly held whenever the function is entered
        (greatest fixpoint over synchronous call edges; deferred edges and
        role entries contribute the empty set)."""
        if self._entry_held is not None:
            return self._entry_held
        funcs = self.prog.funcs
        red = self.redges()
        TOP = None
        eh = {q: TOP for q in funcs}
        for q in funcs:
            callers = red.get(q, [])
            if not callers or any(k not in SYNC_KINDS for _, k, _ in callers):
                eh[q] = frozenset()
        changed = True
        rounds = 0
        while changed:
            changed = False
            rounds += 1
            if rounds > 100:
                raise AnalysisError("entry-held fixpoint did not converge")
            for q in funcs:
                callers = red.get(q, [])
                if not callers:
                    continue
                acc = frozenset() if any(k not in SYNC_KINDS for _, k, _ in callers) else None
                for cq, k, n in callers:
                    if k not in SYNC_KINDS:
                        continue
                    ceh = eh[cq]
                    if ceh is None:
                        continue
                    here = self.held_at_call(funcs[cq], n) | ceh
                    acc = here if acc is None else (acc & here)
                if acc is not None and acc != eh[q]:
                    eh[q] = acc
                    changed = True
        self._entry_held = {q: (v if v is not None else frozenset()) for q, v in eh.items()}
        return self._entry_held

    def entry_may_held(self):
        """qualname -> tokens that MAY be held when the function is entered
        (union over synchronous call chains; used for lock-order edges)."""
        if getattr(self, "_entry_may", None) is not None:
            return self._entry_may
        funcs = self.prog.funcs
        mh = {q: frozenset() for q in funcs}
        changed = True
        rounds = 0
        while changed:
            changed = False
            rounds += 1
            if rounds > 100:
                raise AnalysisError("entry-may-held fixpoint did not converge")
            for q, callers in self.redges().items():
                acc = set(mh.get(q, ()))
                for cq, k, n in callers:
                    if k not in SYNC_KINDS or funcs[cq].module.name == "__user__":
                        continue
                    acc |= self.held_at_call(funcs[cq], n) | mh[cq]
                acc = frozenset(acc)
                if acc != mh.get(q):
                    mh[q] = acc
                    changed = True
        self._entry_may = mh
        return mh

    def held_full(self, func, call):
        return self.held_at_call(func, call) | self.entry_held().get(func.qualname, frozenset())

    @staticmethod
    def token_in(tokens, role_objs):
        """Is some held token certainly one of role_objs?"""
        return any(t and t <= role_objs for t in tokens)

    # --------------------------------------------------------------- dataflow
    def reaching_defs(self, func, name, node):
        """Value expressions of the assignments `name = <expr>` that reach CFG node *node* (flow-sensitive, normal edges only);
        None in the list stands for "no assignment on some path" (parameter / unbound)."""
        g = self.cfg(func)
        out, seen, todo = [], set(), [p for p, l in node.pred if l != "exc"]
        while todo:
            n = todo.pop()
            if n.id in seen:
                continue
            seen.add(n.id)
            st = n.ast
            if n.kind == "stmt" and isinstance(st, ast.Assign) and any(isinstance(t_, ast.Name) and t_.id == name for t_ in st.targets):
                out.append(st.value)
                continue
            if n.kind == "stmt" and isinstance(st, (ast.AugAssign, ast.AnnAssign)) and isinstance(st.target, ast.Name) and st.target.id == name:
                out.append(st)
                continue
            if n is g.entry:
                out.append(None)
                continue
            todo += [p for p, l in n.pred if l != "exc"]
        return out

    def local_defs(self, func, name):
        """Value expressions assigned to local *name* in func (flow-insensitive)."""
        out = []
        for n in func_nodes(func):
            if isinstance(n, ast.Assign):
                for t in n.targets:
                    if isinstance(t, ast.Name) and t.id == name:
                        out.append(n.value)
                    elif isinstance(t, (ast.Tuple, ast.List)):
                        for i, e in enumerate(t.elts):
                            if isinstance(e, ast.Name) and e.id == name:
                                if isinstance(n.value, (ast.Tuple, ast.List)) and len(n.value.elts) == len(t.elts):
                                    out.append(n.value.elts[i])
                                else:
                                    out.append(ast.Subscript(value=n.value, slice=ast.Constant(value=i), ctx=ast.Load()))
            elif isinstance(n, ast.AnnAssign) and isinstance(n.target, ast.Name) and n.target.id == name and n.value:
                out.append(n.value)
            elif isinstance(n, ast.NamedExpr) and n.target.id == name:
                out.append(n.value)
        return out

    def expand(self, func, expr, depth=6):
        """Expand local names in expr through their unique definition."""
        if depth == 0:
            return expr
        if isinstance(expr, ast.Name) and expr.id in func.locals and expr.id not in func.all_params():
            defs = [d for d in self.local_defs(func, expr.id)
                    if not (isinstance(d, ast.Constant) and d.value is None)]
            if len(defs) == 1:
                return self.expand(func, defs[0], depth - 1)
        return expr

    def text(self, node):
        return norm(node)
