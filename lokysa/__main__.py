"""Command line:  /venv/bin/python -m lokysa check <ID> --tier quick|thorough
                 /venv/bin/python -m lokysa selfcheck
                 /venv/bin/python -m lokysa explain <replay.json>
                 /venv/bin/python -m lokysa all [--tier ...]

Exit 0: every instance of every rule of the property holds (known findings are
printed as KNOWN-FINDING lines).  Exit 1 + `VIOLATION property=<id> replay=<path>`:
an unlisted violation.  Exit 2 + `ANALYSIS-ERROR ...`: the analysis could not
decide (vanished anchor, unrecognised idiom, internal error) -- never a pass.
"""
import importlib
import json
import os
import sys
import time
import traceback

from .model import AnalysisError
from . import report as rep

PROPS = [f"C{i:02d}" for i in range(1, 21)]


def run_property(prop, tier, engine=None, write=True, quiet=False):
    """Returns (exit code, Report, unlisted findings)."""
    from .engine import Engine
    t0 = time.time()
    seed = int(os.environ.get("VERIF_SEED", "0") or 0)
    R = rep.Report(prop)
    if write:
        rep.clean_replays(prop)
    try:
        mod = importlib.import_module(f"lokysa.props.{prop}")
        if engine is None:
            engine = Engine()
        mod.run(engine, R, tier)
        extra = {}
        if tier == "thorough":
            # (a) stdlib conformance, (b) self-validation: must-fire mutants and benign variants
            from .stdlib_facts import check_all
            from .selfval.runner import thorough as selfval
            extra.update(check_all(R))
            extra.update(selfval(prop, R, seed))
            # (d) rename robustness: a behaviour-preserving rename must never produce a finding
            from .selfval.renames import thorough_renames
            extra.update(thorough_renames(prop, R, seed))
            # (c) informational: generic condition-level mutants of the functions this check looked at
            from .selfval.sweep import thorough_sweep
            extra.update(thorough_sweep(prop, R, seed))
    except AnalysisError as e:
        if not quiet:
            print(f"ANALYSIS-ERROR property={prop} {e}")
        return 2, R, []
    except Exception as e:  # internal error: never looks like a violation
        if not quiet:
            print(f"ANALYSIS-ERROR property={prop} internal error: {type(e).__name__}: {e}")
            traceback.print_exc(file=sys.stderr)
        return 2, R, []
    known = rep.load_known()
    hits, unlisted = [], []
    for f in R.findings:
        k = rep.match_known(prop, f, known)
        if k is not None:
            hits.append(k)
            if not quiet:
                print(f"KNOWN-FINDING: property={prop} {k['id']} {f.rule} in {f.func}: {k['what']}")
        else:
            unlisted.append(f)
    if R.analysis_errors and not unlisted:
        # some rule could not decide and nothing else explains it: never a pass
        if not quiet:
            for er in R.analysis_errors:
                print(f"ANALYSIS-ERROR property={prop} {er}")
        return 2, R, []
    if write:
        rep.write_evidence(prop, tier, seed, R, time.time() - t0, len(unlisted), hits, engine,
                           extra=extra, explanation=getattr(mod, "EXPLANATION", ""))
    for f in unlisted:
        path = rep.write_replay(prop, f) if write else "-"
        if not quiet:
            print(f"VIOLATION property={prop} replay={path}")
            print(f"  rule={f.rule} at {f.loc} in {f.func}: {f.message}")
            print(f"  construct: {f.construct}")
            for p in f.path[:12]:
                print(f"    path: {p}")
    if not quiet:
        n = len(R.obligations)
        d = sum(1 for o in R.obligations if o["ok"])
        print(f"{prop}: {n} obligations, {d} discharged, {len(hits)} known finding(s), "
              f"{len(unlisted)} violation(s), {time.time() - t0:.2f}s")
    return (1 if unlisted else 0), R, unlisted


def main(argv):
    if not argv:
        print(__doc__)
        return 2
    cmd = argv[0]
    tier = os.environ.get("VERIF_TIER", "quick")
    if "--tier" in argv:
        tier = argv[argv.index("--tier") + 1]
    if cmd == "check":
        code, _, _ = run_property(argv[1], tier)
        return code
    if cmd == "all":
        from .engine import Engine
        worst = 0
        eng = None
        try:
            eng = Engine()
        except Exception as e:
            print(f"ANALYSIS-ERROR engine: {e}")
            return 2
        for p in PROPS:
            if not os.path.exists(os.path.join(os.path.dirname(__file__), "props", p + ".py")):
                continue
            code, _, _ = run_property(p, tier, engine=eng)
            worst = max(worst, code)
        return worst
    if cmd == "selfcheck":
        from .engine import Engine
        try:
            e = Engine()
            a = e.anchors
            a.resolve_all()
            print(f"selfcheck ok: {len(e.prog.modules) - 1} modules, "
                  f"{sum(1 for f in e.prog.funcs.values() if f.module.name != '__user__')} functions, "
                  f"points-to {e.pt.rounds} rounds, {len(a.summary())} anchors resolved")
            return 0
        except Exception as ex:
            print(f"ANALYSIS-ERROR selfcheck: {type(ex).__name__}: {ex}")
            return 2
    if cmd == "explain":
        with open(argv[1]) as fh:
            w = json.load(fh)
        print(json.dumps(w, indent=1))
        prop = w["property"]
        code, R, unl = run_property(prop, "quick", write=False, quiet=True)
        still = [f for f in R.findings if f.key == w["key"]]
        if still:
            f = still[0]
            print(f"REPRODUCED on the current tree: {f.rule} at {f.loc} in {f.func}: {f.message}")
            print(f"VIOLATION property={prop} replay={argv[1]}")
            return 1
        print("not reproduced on the current tree")
        return 0
    print(__doc__)
    return 2


if __name__ == "__main__":
    try:
        rc = main(sys.argv[1:])
    except Exception as e:
        print(f"ANALYSIS-ERROR internal error: {type(e).__name__}: {e}")
        traceback.print_exc(file=sys.stderr)
        rc = 2
    sys.stdout.flush()
    sys.exit(rc)
