"""Self-validation: the analysis is re-run on in-memory variants of the tree.

* must-fire mutants: one realistic breaking edit each (still compiles); the
  property's check must report a finding of the expected rule.
* benign variants: behaviour-preserving edits; the findings must be exactly
  those of the unmodified tree.

Nothing is executed: only the analysis is re-run on the edited source map.
A mutant whose anchor text no longer exists in the tree is skipped (counted);
a mutant that applies and is missed, or a benign variant that changes the
findings, is an analysis error.
"""
import ast
import importlib
import os
import random
import sys
import time
from multiprocessing import Pool

from ..model import read_sources, AnalysisError
from ..report import Report


def apply_edit(sources, edits):
    """edits: list of (path, old, new[, count]).  Returns new map or None if
    some anchor text is missing."""
    out = dict(sources)
    for ed in edits:
        path, old, new = ed[0], ed[1], ed[2]
        src = out.get(path)
        if src is None or old not in src:
            return None
        if src.count(old) != 1 and len(ed) < 4:
            return None
        out[path] = src.replace(old, new, 1)
    for ed in edits:
        try:
            ast.parse(out[ed[0]])
        except SyntaxError:
            return None
    return out


def findings_for(prop, sources):
    from ..engine import Engine
    mod = importlib.import_module(f"lokysa.props.{prop}")
    R = Report(prop)
    try:
        e = Engine(sources)
        mod.run(e, R, "quick")
    except AnalysisError as ex:
        return None, f"ANALYSIS-ERROR {ex}"
    except Exception as ex:  # noqa
        return None, f"INTERNAL {type(ex).__name__}: {ex}"
    fs = [(f.rule, f.func, f.construct) for f in R.findings]
    if R.analysis_errors:
        return fs, "ANALYSIS-ERROR " + "; ".join(R.analysis_errors)
    return fs, None


def _job(args):
    kind, prop, mid, edits, expect = args
    t = time.time()
    base = read_sources()
    if kind == "unparse":
        src = {p: ast.unparse(ast.parse(s)) + "\n" for p, s in base.items()}
    else:
        src = apply_edit(base, edits)
    if src is None:
        return (kind, prop, mid, "skipped", "anchor text not in the current tree", time.time() - t)
    fs, err = findings_for(prop, src)
    if kind == "mutant":
        basefs, berr = findings_for(prop, base)
        new = [f for f in (fs or []) if f not in (basefs or [])]
        hit = [f for f in new if expect is None or f[0] in expect]
        if hit:
            return (kind, prop, mid, "caught", f"{hit[0][0]} in {hit[0][1]}", time.time() - t)
        if err is not None:
            # the analysis refusing to decide on a broken tree is acceptable but weaker: report distinctly
            return (kind, prop, mid, "refused", err, time.time() - t)
        return (kind, prop, mid, "MISSED", f"new findings: {new}", time.time() - t)
    else:
        if err is not None:
            return (kind, prop, mid, "BROKEN", err, time.time() - t)
        basefs, berr = findings_for(prop, base)
        if sorted(fs) == sorted(basefs or []):
            return (kind, prop, mid, "silent", "", time.time() - t)
        extra = [f for f in fs if f not in basefs]
        gone = [f for f in basefs if f not in fs]
        return (kind, prop, mid, "FALSE-ALARM", f"extra={extra} gone={gone}", time.time() - t)


def run(props=None, seed=0, jobs=None, only=None, verbose=False):
    from .catalog import MUTANTS, BENIGN
    jobs_list = []
    for m in MUTANTS:
        for p in m["props"]:
            if props is None or p in props:
                if only and only not in m["id"]:
                    continue
                jobs_list.append(("mutant", p, m["id"], m["edits"], m.get("rules")))
    for b in BENIGN:
        for p in (props or b.get("props") or []):
            if b.get("props") and p not in b["props"]:
                continue
            if only and only not in b["id"]:
                continue
            jobs_list.append(("benign", p, b["id"], b["edits"], None))
    for p in (props or []):
        if not only or only in "unparse":
            jobs_list.append(("unparse", p, "unparse-all-modules", None, None))
    random.Random(seed).shuffle(jobs_list)
    n = jobs or min(16, os.cpu_count() or 4)
    t = time.time()
    if n > 1 and len(jobs_list) > 1:
        with Pool(n) as pool:
            res = pool.map(_job, jobs_list, chunksize=1)
    else:
        res = [_job(j) for j in jobs_list]
    return res, time.time() - t


def summarize(res):
    out = {"caught": 0, "refused": 0, "MISSED": 0, "skipped": 0, "silent": 0, "FALSE-ALARM": 0, "BROKEN": 0}
    for r in res:
        out[r[3]] = out.get(r[3], 0) + 1
    return out


def thorough(prop, R, seed):
    """Hook for props.<id>.thorough: run the self-validation jobs of prop."""
    res, wall = run([prop], seed=seed)
    s = summarize(res)
    bad = [r for r in res if r[3] in ("MISSED", "FALSE-ALARM", "BROKEN")]
    extra = {
        "selfval": {"jobs": len(res), **s, "wall_s": round(wall, 2),
                    "details": [{"kind": r[0], "id": r[2], "verdict": r[3], "info": r[4][:200]} for r in sorted(res, key=lambda x: x[2])]},
    }
    if bad:
        raise AnalysisError("self-validation failed: " + "; ".join(f"{r[2]}: {r[3]} {r[4][:120]}" for r in bad[:5]))
    return extra


if __name__ == "__main__":
    import argparse
    ap = argparse.ArgumentParser()
    ap.add_argument("props", nargs="*")
    ap.add_argument("--only")
    ap.add_argument("-j", type=int)
    a = ap.parse_args()
    res, wall = run(a.props or None if a.props else [f"C{i:02d}" for i in range(1, 21)
                                                    if os.path.exists(os.path.join(os.path.dirname(__file__), "..", "props", f"C{i:02d}.py"))],
                    only=a.only, jobs=a.j)
    for r in sorted(res, key=lambda x: (x[3], x[2])):
        print(f"{r[3]:12s} {r[1]} {r[0]:7s} {r[2]:45s} {r[5]:.1f}s {r[4][:150]}")
    print(summarize(res), f"{wall:.1f}s")
