"""Generic syntax-directed mutation operators (shared by tools/mutsweep.py and the thorough tier).

The thorough tier uses them *informationally*: for the functions in which the property's check discharged
obligations, every mutant produced by the condition-level operators (negate a test, flip a comparison, narrow
a handler, unwrap a with, drop a finally) is analysed by that property's check, and the evidence records how
many are reported, refused (ANALYSIS-ERROR) or not reported, with the list of the latter.  It never changes the
verdict: an unreported generic mutant is not necessarily a behaviour change (logging branches, other build arms).
"""
import ast
import copy
import importlib
import os
import time
from multiprocessing import Pool

from ..model import read_sources, AnalysisError
from ..report import Report

LOG_CALLS = ("mp.util.debug", "util.debug", "mp.util.info", "util.info", "mp.util.sub_debug", "util.sub_debug", "print")


def is_log(stmt):
    return isinstance(stmt, ast.Expr) and isinstance(stmt.value, ast.Call) and ast.unparse(stmt.value.func) in LOG_CALLS


def is_doc(stmt):
    return isinstance(stmt, ast.Expr) and isinstance(stmt.value, ast.Constant) and isinstance(stmt.value.value, str)


def bodies(tree):
    """Yield (owner qualname, list-of-statements) for every statement list inside functions."""
    def rec(node, q):
        for fld in ("body", "orelse", "finalbody"):
            lst = getattr(node, fld, None)
            if isinstance(lst, list) and lst and isinstance(lst[0], ast.stmt):
                if q:
                    yield q, lst
                for s in lst:
                    nq = q
                    if isinstance(s, (ast.FunctionDef, ast.AsyncFunctionDef)):
                        nq = (q + "." if q else "") + s.name
                    elif isinstance(s, ast.ClassDef):
                        nq = (q + "." if q and not q.endswith(">") else "") + s.name
                        # class bodies are not mutated but their methods are
                        for x in rec_class(s, nq):
                            yield x
                        continue
                    yield from rec(s, nq)
        for h in getattr(node, "handlers", []) or []:
            if q:
                yield q, h.body
            for s in h.body:
                yield from rec(s, q)

    def rec_class(c, q):
        for s in c.body:
            if isinstance(s, (ast.FunctionDef, ast.AsyncFunctionDef)):
                yield from rec(s, q + "." + s.name)
            elif isinstance(s, ast.ClassDef):
                yield from rec_class(s, q + "." + s.name)
    yield from rec(tree, "")


def gen_mutants(path, src, ops):
    """Return list of dicts {id, path, op, func, line, before, after_src}."""
    tree = ast.parse(src)
    out = []
    idx = {}
    for q, lst in bodies(tree):
        for i, s in enumerate(lst):
            idx[id(s)] = (q, lst, i)
    counter = [0]

    def emit(op, q, node, mutate):
        """mutate(tree_copy_node_locator) -> applies mutation on a deep copy."""
        t2 = copy.deepcopy(tree)
        # locate the same node in the copy by (lineno, col, type) walk order
        target = None
        for n in ast.walk(t2):
            if type(n) is type(node) and getattr(n, "lineno", None) == getattr(node, "lineno", None) \
                    and getattr(n, "col_offset", None) == getattr(node, "col_offset", None) \
                    and getattr(n, "end_lineno", None) == getattr(node, "end_lineno", None) \
                    and getattr(n, "end_col_offset", None) == getattr(node, "end_col_offset", None):
                target = n
                break
        if target is None:
            return
        if mutate(t2, target) is False:
            return
        ast.fix_missing_locations(t2)
        try:
            new_src = ast.unparse(t2) + "\n"
            compile(new_src, path, "exec")
        except Exception:
            return
        counter[0] += 1
        out.append({"id": f"{os.path.basename(path)}:{node.lineno}:{op}:{counter[0]}", "path": path, "op": op, "func": q, "line": node.lineno,
                    "before": ast.unparse(node).split("\n")[0][:110], "src": new_src})

    def parent_list(t2, target):
        for n in ast.walk(t2):
            for fld in ("body", "orelse", "finalbody"):
                lst = getattr(n, fld, None)
                if isinstance(lst, list):
                    for i, s in enumerate(lst):
                        if s is target:
                            return lst, i
            for h in getattr(n, "handlers", []) or []:
                for i, s in enumerate(h.body):
                    if s is target:
                        return h.body, i
        return None, None

    if "DEFAULT" in ops:
        for fn in [n for n in ast.walk(tree) if isinstance(n, (ast.FunctionDef, ast.AsyncFunctionDef))]:
            for dflt in list(fn.args.defaults) + [d_ for d_ in fn.args.kw_defaults if d_ is not None]:
                if isinstance(dflt, ast.Constant) and isinstance(dflt.value, bool):
                    def m(t2, tg):
                        tg.value = not tg.value
                    emit("DEFAULT", fn.name, dflt, m)
    for q, lst in bodies(tree):
        for i, s in enumerate(lst):
            if is_doc(s) or is_log(s):
                continue
            if "DEL" in ops and isinstance(s, (ast.Expr, ast.Assign, ast.AugAssign, ast.Delete)):
                def m(t2, tg):
                    l2, j = parent_list(t2, tg)
                    if l2 is None:
                        return False
                    l2[j] = ast.Pass()
                emit("DEL", q, s, m)
            if "NEG" in ops and isinstance(s, (ast.If, ast.While)) and not (isinstance(s.test, ast.Constant)):
                def m(t2, tg):
                    tg.test = ast.UnaryOp(op=ast.Not(), operand=tg.test)
                emit("NEG", q, s, m)
            if "UNWITH" in ops and isinstance(s, ast.With):
                def m(t2, tg):
                    l2, j = parent_list(t2, tg)
                    if l2 is None:
                        return False
                    # keep `as` bindings alive: only unwrap when no optional_vars
                    if any(it.optional_vars is not None for it in tg.items):
                        return False
                    l2[j:j + 1] = tg.body
                emit("UNWITH", q, s, m)
            if "NARROW" in ops and isinstance(s, ast.Try) and s.handlers:
                for hi, h in enumerate(s.handlers):
                    def m(t2, tg, hi=hi):
                        hh = tg.handlers[hi]
                        cur = ast.unparse(hh.type) if hh.type is not None else "bare"
                        if cur in ("bare", "BaseException"):
                            hh.type = ast.Name(id="Exception", ctx=ast.Load())
                        elif cur == "Exception":
                            hh.type = ast.Name(id="OSError", ctx=ast.Load())
                        else:
                            hh.type = ast.Name(id="ZeroDivisionError", ctx=ast.Load())
                    emit(f"NARROW{hi}", q, s, m)
            if "UNFINALLY" in ops and isinstance(s, ast.Try) and s.finalbody and not s.handlers:
                def m(t2, tg):
                    l2, j = parent_list(t2, tg)
                    if l2 is None:
                        return False
                    l2[j:j + 1] = tg.body + tg.finalbody
                emit("UNFINALLY", q, s, m)
            if "SWAP" in ops and i + 1 < len(lst) and isinstance(s, (ast.Expr, ast.Assign, ast.AugAssign)) \
                    and isinstance(lst[i + 1], (ast.Expr, ast.Assign, ast.AugAssign)) and not is_log(lst[i + 1]):
                def m(t2, tg):
                    l2, j = parent_list(t2, tg)
                    if l2 is None or j + 1 >= len(l2):
                        return False
                    l2[j], l2[j + 1] = l2[j + 1], l2[j]
                emit("SWAP", q, s, m)
            if "RETNONE" in ops and isinstance(s, ast.Return) and s.value is not None and not isinstance(s.value, ast.Constant):
                def m(t2, tg):
                    tg.value = None
                emit("RETNONE", q, s, m)
            if "CMP" in ops:
                for c in ast.walk(s) if isinstance(s, (ast.If, ast.While, ast.Assign, ast.Return, ast.Expr)) else ():
                    if isinstance(c, ast.Compare) and len(c.ops) == 1 and isinstance(c.ops[0], (ast.Lt, ast.LtE, ast.Gt, ast.GtE)) \
                            and getattr(c, "lineno", None) is not None:
                        # only compares belonging to this statement's own header
                        if isinstance(s, (ast.If, ast.While)) and not any(x is c for x in ast.walk(s.test)):
                            continue

                        def m(t2, tg):
                            sw = {ast.Lt: ast.LtE, ast.LtE: ast.Lt, ast.Gt: ast.GtE, ast.GtE: ast.Gt}
                            tg.ops = [sw[type(tg.ops[0])]()]
                        emit("CMP", q, c, m)
            if "ARGSWAP" in ops and isinstance(s, (ast.Expr, ast.Assign, ast.Return, ast.AugAssign)):
                for c in ast.walk(s):
                    if isinstance(c, ast.Call) and len(c.args) >= 2 and not any(isinstance(a_, ast.Starred) for a_ in c.args[:2]) \
                            and ast.dump(c.args[0]) != ast.dump(c.args[1]):
                        def m(t2, tg):
                            tg.args[0], tg.args[1] = tg.args[1], tg.args[0]
                        emit("ARGSWAP", q, c, m)
            if "PAIRSWAP" in ops and isinstance(s, ast.Assign) and isinstance(s.targets[0], ast.Tuple) and len(s.targets[0].elts) == 2 \
                    and all(isinstance(x, (ast.Name, ast.Attribute)) for x in s.targets[0].elts):
                def m(t2, tg):
                    tg.targets[0].elts[0], tg.targets[0].elts[1] = tg.targets[0].elts[1], tg.targets[0].elts[0]
                emit("PAIRSWAP", q, s, m)
            if "CONST" in ops and isinstance(s, (ast.Expr, ast.Assign, ast.Return, ast.AugAssign, ast.If, ast.While, ast.For)):
                hdr = s.test if isinstance(s, (ast.If, ast.While)) else s.iter if isinstance(s, ast.For) else s
                for c in ast.walk(hdr):
                    if isinstance(c, ast.Constant) and isinstance(c.value, int) and not isinstance(c.value, bool) and abs(c.value) <= 64 and getattr(c, "lineno", None):
                        def m(t2, tg):
                            tg.value = tg.value + 1
                        emit("CONST", q, c, m)
            if "BOOL" in ops and isinstance(s, (ast.Expr, ast.Assign, ast.Return)):
                for c in ast.walk(s):
                    if isinstance(c, ast.Call):
                        for k in c.keywords:
                            if isinstance(k.value, ast.Constant) and isinstance(k.value.value, bool):
                                def m(t2, tg):
                                    tg.value = not tg.value
                                emit("BOOL", q, k.value, m)
    return out




COND_OPS = {"NEG", "CMP", "NARROW", "UNWITH", "UNFINALLY"}


def _funcs_of_interest(R, sources):
    """Qualified names (as produced by bodies()) of the functions containing a location of an obligation."""
    locs = {}
    for o in R.obligations:
        loc = o.get("loc")
        if not loc or ":" not in str(loc):
            continue
        path, _, line = str(loc).rpartition(":")
        try:
            locs.setdefault(path, set()).add(int(line))
        except ValueError:
            continue
    out = {}
    for path, lines in locs.items():
        if path not in sources:
            continue
        tree = ast.parse(sources[path])
        spans = []

        def rec(node, q):
            for ch in ast.iter_child_nodes(node):
                if isinstance(ch, (ast.FunctionDef, ast.AsyncFunctionDef)):
                    nq = (q + "." if q else "") + ch.name
                    spans.append((ch.lineno, ch.end_lineno, nq))
                    rec(ch, nq)
                elif isinstance(ch, ast.ClassDef):
                    rec(ch, (q + "." if q else "") + ch.name)
                else:
                    rec(ch, q)
        rec(tree, "")
        for ln in lines:
            inner = [s for s in spans if s[0] <= ln <= s[1]]
            if inner:
                out.setdefault(path, set()).add(max(inner, key=lambda s: s[0])[2])
    return out


_CTX = None


def _init(prop):
    global _CTX
    base = read_sources()
    _CTX = (prop, base, _run(prop, base))


def _run(prop, sources):
    from ..engine import Engine
    mod = importlib.import_module(f"lokysa.props.{prop}")
    R = Report(prop)
    try:
        e = Engine(sources)
        mod.run(e, R, "quick")
    except AnalysisError as ex:
        return None, f"ANALYSIS-ERROR {ex}"
    except Exception as ex:  # noqa
        return None, f"INTERNAL {type(ex).__name__}: {ex}"
    fs = sorted({(f.rule, f.func, f.construct) for f in R.findings})
    return fs, ("ANALYSIS-ERROR " + "; ".join(R.analysis_errors)) if R.analysis_errors else None


def _job(m):
    prop, base, (bfs, berr) = _CTX
    src = dict(base)
    src[m["path"]] = m["src"]
    fs, err = _run(prop, src)
    new = [f for f in (fs or []) if f not in (bfs or [])]
    verdict = "reported" if new else "refused" if err else "not reported"
    return {"func": m["func"], "op": m["op"], "line": m["line"], "before": m["before"], "verdict": verdict, "rules": sorted({f[0] for f in new})}


def thorough_sweep(prop, R, seed, jobs=None):
    base = read_sources()
    foi = _funcs_of_interest(R, base)
    muts = []
    for path, funcs in sorted(foi.items()):
        for m in gen_mutants(path, base[path], COND_OPS):
            if m["func"] in funcs:
                muts.append(m)
    t = time.time()
    if not muts:
        return {"generic_mutants": {"functions": 0, "mutants": 0}}
    n = jobs or min(16, os.cpu_count() or 4)
    with Pool(n, initializer=_init, initargs=(prop,)) as pool:
        res = pool.map(_job, muts, chunksize=2)
    tot = {}
    for r in res:
        tot[r["verdict"]] = tot.get(r["verdict"], 0) + 1
    return {"generic_mutants": {
        "what": "condition-level generic mutants (negated test, flipped comparison, narrowed handler, unwrapped with, dropped finally) of every function in which this "
                "check discharged an obligation; informational: does not change the verdict",
        "functions": sum(len(v) for v in foi.values()), "mutants": len(res), **tot, "wall_s": round(time.time() - t, 1),
        "not_reported": [f"{r['func']}:{r['op']} `{r['before'][:80]}`" for r in res if r["verdict"] == "not reported"][:200]}}
