"""Rename robustness (thorough tier, part d).

A consistent rename of a private name of loky is behaviour-preserving.  For every private name that is loky's own (not part
of a standard-library protocol that loky overrides or relies on: those are read from the stdlib sources and excluded), the
tree is renamed in memory and the property's check is re-run.  The check may *refuse* (an anchor named in a rule table
vanished: ANALYSIS-ERROR) but it must not report anything it does not report on the unmodified tree: a new finding is a
false alarm of the machinery and fails the thorough tier as an analysis error.
"""
import ast
import importlib
import importlib.util
import os
import re
import time
from multiprocessing import Pool

from ..model import read_sources, AnalysisError
from ..report import Report

STDLIB_MODS = ("multiprocessing.queues", "multiprocessing.resource_tracker", "multiprocessing.process", "multiprocessing.synchronize", "multiprocessing.context",
               "multiprocessing.popen_fork", "multiprocessing.popen_spawn_posix", "multiprocessing.spawn", "multiprocessing.util", "multiprocessing.reduction",
               "multiprocessing.connection", "concurrent.futures._base", "threading", "pickle", "copyreg")


def stdlib_names():
    out = set()
    for m in STDLIB_MODS:
        try:
            spec = importlib.util.find_spec(m)
        except Exception:  # noqa
            spec = None
        if spec is None or not spec.origin or not spec.origin.endswith(".py"):
            continue
        try:
            t = ast.parse(open(spec.origin, encoding="utf-8").read())
        except Exception:  # noqa
            continue
        for n in ast.walk(t):
            if isinstance(n, (ast.FunctionDef, ast.ClassDef)):
                out.add(n.name)
            elif isinstance(n, ast.Attribute):
                out.add(n.attr)
            elif isinstance(n, ast.Name):
                out.add(n.id)
            elif isinstance(n, ast.arg):
                out.add(n.arg)
    return out


def private_names(sources):
    """Private names *defined* by loky: functions, classes, attributes stored on self, module-level assignments."""
    names = set()
    for p, s in sources.items():
        if p.endswith(("_win32.py", "_win_reduction.py")):
            continue
        t = ast.parse(s)
        for n in ast.walk(t):
            if isinstance(n, (ast.FunctionDef, ast.ClassDef)):
                names.add(n.name)
            elif isinstance(n, ast.Attribute) and isinstance(n.ctx, ast.Store) and isinstance(n.value, ast.Name) and n.value.id == "self":
                names.add(n.attr)
        for st in t.body:
            if isinstance(st, ast.Assign):
                for tg in st.targets:
                    if isinstance(tg, ast.Name):
                        names.add(tg.id)
    std = stdlib_names()
    return sorted(n for n in names if n.startswith("_") and not n.startswith("__") and n not in std)


_CTX = None


def _run(prop, sources):
    from ..engine import Engine
    mod = importlib.import_module(f"lokysa.props.{prop}")
    R = Report(prop)
    try:
        e = Engine(sources)
        mod.run(e, R, "quick")
    except AnalysisError as ex:
        return None, f"ANALYSIS-ERROR {ex}"
    except Exception as ex:  # noqa
        return None, f"INTERNAL {type(ex).__name__}: {ex}"
    return sorted({(f.rule, f.func, f.construct) for f in R.findings}), ("ANALYSIS-ERROR " + "; ".join(R.analysis_errors)) if R.analysis_errors else None


def _init(prop):
    global _CTX
    base = read_sources()
    _CTX = (prop, base, _run(prop, base))


def _job(nm):
    prop, base, (bfs, berr) = _CTX
    pat = re.compile(r"(?<![A-Za-z0-9_])" + re.escape(nm) + r"(?![A-Za-z0-9_])")
    src = {p: pat.sub(nm + "_renamed", s) for p, s in base.items()}
    if src == base:
        return nm, "absent", ""
    fs, err = _run(prop, src)
    back = lambda f: tuple(x.replace(nm + "_renamed", nm) if isinstance(x, str) else x for x in f)
    new = [f for f in (fs or []) if back(f) not in (bfs or [])]
    if new:
        return nm, "FALSE-ALARM", "; ".join(f"{f[0]} in {f[1]}" for f in new[:3])
    if err and not berr:
        return nm, "refused", err[:160]
    return nm, "silent", ""


def thorough_renames(prop, R, seed, jobs=None):
    base = read_sources()
    names = private_names(base)
    t = time.time()
    with Pool(jobs or min(16, os.cpu_count() or 4), initializer=_init, initargs=(prop,)) as pool:
        res = pool.map(_job, names, chunksize=2)
    tot = {}
    for _, v, _ in res:
        tot[v] = tot.get(v, 0) + 1
    fa = [(n, info) for n, v, info in res if v == "FALSE-ALARM"]
    out = {"rename_variants": {"what": "each private name of loky that is not part of a standard-library protocol, renamed consistently across the tree (in memory)",
                               "names": len(names), **tot, "wall_s": round(time.time() - t, 1),
                               "refused": [f"{n}: {info}" for n, v, info in res if v == "refused"][:40]}}
    if fa:
        raise AnalysisError("rename robustness failed (a behaviour-preserving rename produces a finding): " + "; ".join(f"{n}: {i}" for n, i in fa[:5]))
    return out
