"""Self-validation catalogue: must-fire mutants and benign variants.

Each edit is (path, old text, new text) located by text in the *current*
tree; an edit whose anchor text is gone is skipped (and counted).  The edits
are realistic breakages that still compile and that the test suite is not
expected to notice (they matter only under a particular schedule, crash point,
history or configuration).  `rules` lists the rules of which at least one must
report a new finding; `props` the properties whose check must fire.
"""
PE = "loky/process_executor.py"
RE = "loky/reusable_executor.py"
QU = "loky/backend/queues.py"
UT = "loky/backend/utils.py"
RT = "loky/backend/resource_tracker.py"
SY = "loky/backend/synchronize.py"
CX = "loky/backend/context.py"
RD = "loky/backend/reduction.py"
CW = "loky/cloudpickle_wrapper.py"
FE = "loky/backend/fork_exec.py"
PP = "loky/backend/popen_loky_posix.py"
SP = "loky/backend/spawn.py"
PR = "loky/backend/process.py"
BA = "loky/_base.py"


def M(id, props, rules, *edits):
    return {"id": id, "props": props, "rules": rules, "edits": list(edits)}


MUTANTS = [
    # ------------------------------------------------------------------ R-WAKE
    M("wake-submit-no-second-wakeup", ["C01", "C02"], ["R-WAKE"],
      (PE, """            self._ensure_executor_running()
            # Wake up the queue management thread again once the workers are
            # (re)spawned and registered: it waits on a snapshot of the worker
            # sentinels and would not notice the death of a worker that was
            # registered after that snapshot was taken.
            self._executor_manager_thread_wakeup.wakeup()
            return f""", """            self._ensure_executor_running()
            return f""")),
    M("wake-resize-no-wakeup", ["C01"], ["R-WAKE"],
      (RE, """            with self._shutdown_lock:
                self._executor_manager_thread_wakeup.wakeup()
""", "")),
    M("wake-feeder-hook-no-wakeup", ["C01", "C04"], ["R-WAKE", "R-FEEDER-HOOK"],
      (PE, """            with self.shutdown_lock:
                self.thread_wakeup.wakeup()
        else:
            super()._on_queue_feeder_error(e, obj)""", """            pass
        else:
            super()._on_queue_feeder_error(e, obj)""")),
    M("wake-shutdown-no-wakeup", ["C01"], ["R-WAKE"],
      (PE, """            with self._shutdown_lock:
                self._executor_manager_thread_wakeup.wakeup()

        if executor_manager_thread is not None and wait:""", """            pass

        if executor_manager_thread is not None and wait:""")),
    M("wake-gc-callback-no-wakeup", ["C01"], ["R-WAKE"],
      (PE, """            with shutdown_lock:
                thread_wakeup.wakeup()

        self.executor_reference""", """            pass

        self.executor_reference""")),
    M("wake-shutdown-early-return", ["C01"], ["R-WAKE"],
      (PE, """        executor_manager_thread_wakeup = self._executor_manager_thread_wakeup

        if executor_manager_thread_wakeup is not None:""", """        executor_manager_thread_wakeup = self._executor_manager_thread_wakeup
        if not wait:
            return

        if executor_manager_thread_wakeup is not None:""")),
    M("wake-atexit-flag-after-wake", ["C01"], ["R-WAKE"],
      (PE, """    global _global_shutdown
    _global_shutdown = True

    # Materialize""", """    global _global_shutdown

    # Materialize"""),
      (PE, """    # Collect the executor_manager_thread's to make sure we exit cleanly.
    for thread, _ in items:""", """    _global_shutdown = True
    # Collect the executor_manager_thread's to make sure we exit cleanly.
    for thread, _ in items:""")),
    # ------------------------------------------------------------- R-WAKE-LOCK
    M("wakelock-shutdown-outside-lock", ["C01", "C05"], ["R-WAKE-LOCK"],
      (PE, """            with self._shutdown_lock:
                self._executor_manager_thread_wakeup.wakeup()

        if executor_manager_thread is not None and wait:""", """            self._executor_manager_thread_wakeup.wakeup()

        if executor_manager_thread is not None and wait:""")),
    M("wakelock-close-outside-lock", ["C01", "C05"], ["R-WAKE-LOCK"],
      (PE, """        with self.shutdown_lock:
            self.thread_wakeup.close()""", """        self.thread_wakeup.close()""")),
    # ------------------------------------------------------------ R-OWN-RESOLVE
    M("own-terminate-broken-iterates", ["C01", "C02", "C04"], ["R-OWN-RESOLVE"],
      (PE, """        while self.pending_work_items:
            try:
                _, work_item = self.pending_work_items.popitem()
            except KeyError:
                break
            work_item.future.set_exception(bpe)
            # Delete references to object. See issue16284
            del work_item
""", """        for work_item in self.pending_work_items.values():
            work_item.future.set_exception(bpe)
            # Delete references to object. See issue16284
            del work_item
        self.pending_work_items.clear()
""")),
    M("own-kill-shutdown-iterates", ["C01", "C06"], ["R-OWN-RESOLVE"],
      (PE, """            while self.pending_work_items:
                _, work_item = self.pending_work_items.popitem()
                work_item.future.set_exception(
                    ShutdownExecutorError(
                        "The Executor was shutdown with `kill_workers=True` "
                        "before this job could complete."
                    )
                )
                del work_item
""", """            for work_item in list(self.pending_work_items.values()):
                work_item.future.set_exception(
                    ShutdownExecutorError(
                        "The Executor was shutdown with `kill_workers=True` "
                        "before this job could complete."
                    )
                )
                del work_item
            self.pending_work_items.clear()
""")),
    # ---------------------------------------------------------- R-DROP-RESOLVES
    M("drop-feeder-hook-no-set-exception", ["C01", "C04"], ["R-DROP-RESOLVES", "R-FEEDER-HOOK"],
      (PE, """            if work_item is not None:
                work_item.future.set_exception(raised_error)
                del work_item""", """            if work_item is not None:
                del work_item""")),
    M("drop-result-exception-not-set", ["C01", "C03"], ["R-DROP-RESOLVES"],
      (PE, """                if result_item.exception:
                    work_item.future.set_exception(result_item.exception)
                else:""", """                if result_item.exception:
                    LOGGER.error("task failed: %r", result_item.exception)
                else:""")),
    # --------------------------------------------------------------- R-MGR-EXIT
    M("mgrexit-return-without-emptiness-test", ["C01", "C05"], ["R-MGR-EXIT"],
      (PE, """                if not self.pending_work_items:
                    self.join_executor_internals()
                    return""", """                self.join_executor_internals()
                return""")),
    M("mgrexit-return-without-join", ["C01", "C05", "C20"], ["R-MGR-EXIT", "R-LEAK"],
      (PE, """                if not self.pending_work_items:
                    self.join_executor_internals()
                    return""", """                if not self.pending_work_items:
                    return""")),
    # ----------------------------------------------------------------- R-NULLED
    M("nulled-shutdown-nulls-processes", ["C01", "C05"], ["R-NULLED"],
      (PE, """        self._processes_management_lock = None

    shutdown.__doc__""", """        self._processes_management_lock = None
        self._flags = None

    shutdown.__doc__""")),
    M("nulled-deref-in-is-shutting-down", ["C01", "C05"], ["R-NULLED"],
      (PE, """        return _global_shutdown or (
            (executor is None or self.executor_flags.shutdown)""", """        return _global_shutdown or (
            (executor is None or executor._call_queue._closed or self.executor_flags.shutdown)""")),
    # ------------------------------------------------------------------- R-POLL
    M("poll-resize-snapshot", ["C01", "C09", "C10"], ["R-POLL"],
      (RE, """            while (
                not all(p.is_alive() for p in list(self._processes.values()))
                and not self._flags.broken
            ):""", """            processes = list(self._processes.values())
            while not all(p.is_alive() for p in processes):""")),
    M("poll-wait-job-completion-snapshot", ["C01", "C10"], ["R-POLL"],
      (RE, """        while self._pending_work_items:
            time.sleep(1e-3)""", """        pending = dict(self._pending_work_items)
        while pending:
            time.sleep(1e-3)""")),
    M("poll-shrink-wait-forever", ["C01", "C10"], ["R-POLL"],
      (RE, """            while (
                len(self._processes) > max_workers and not self._flags.broken
            ):""", """            n_before = len(self._processes)
            while n_before > max_workers:""")),
    # -------------------------------------------------------------- R-LOCK-ORDER
    M("lock-worker-blocking-probe", ["C01", "C07"], ["R-LOCK-ORDER", "R-TIMEOUT-EXIT"],
      (PE, """            if processes_management_lock.acquire(block=False):
                processes_management_lock.release()
                call_item = None
            else:
                mp.util.info("Could not acquire processes_management_lock")
                continue""", """            with processes_management_lock:
                call_item = None""")),
    M("lock-adjust-takes-shutdown-lock", ["C01"], ["R-LOCK-ORDER"],
      (PE, """            p._worker_exit_lock = worker_exit_lock
            p.start()
            self._processes[p.pid] = p""", """            p._worker_exit_lock = worker_exit_lock
            p.start()
            with self._shutdown_lock:
                self._processes[p.pid] = p""")),
    # --------------------------------------------------------------- R-BLOCK-MGR
    M("block-sentinel-blocking-put", ["C01", "C05"], ["R-BLOCK-MGR", "R-SHUTDOWN-SEQ"],
      (PE, """                    self.call_queue.put_nowait(None)""", """                    self.call_queue.put(None)""")),
    M("block-dispatch-without-full-test", ["C01"], ["R-BLOCK-MGR"],
      (PE, """            if self.call_queue.full():
                return
            try:
                work_id = self.work_ids_queue.get(block=False)""", """            try:
                work_id = self.work_ids_queue.get(block=False)""")),
    M("block-join-before-release", ["C01", "C05", "C07"], ["R-BLOCK-MGR", "R-EXIT-HANDSHAKE"],
      (PE, """                p._worker_exit_lock.release()
                mp.util.debug(
                    f"joining {p.name} when processing {p.pid} as result_item"
                )
                p.join()
                del p""", """                mp.util.debug(
                    f"joining {p.name} when processing {p.pid} as result_item"
                )
                p.join()
                p._worker_exit_lock.release()
                del p""")),
    M("block-dispatch-blocking-get", ["C01"], ["R-BLOCK-MGR"],
      (PE, """                work_id = self.work_ids_queue.get(block=False)""", """                work_id = self.work_ids_queue.get(block=True)""")),
    # ---------------------------------------------------------------- R-WAITSET
    M("waitset-filter-alive", ["C02"], ["R-WAITSET"],
      (PE, """        worker_sentinels = [p.sentinel for p in list(self.processes.values())]""",
       """        worker_sentinels = [p.sentinel for p in list(self.processes.values()) if p.is_alive()]""")),
    M("waitset-drop-wakeup-reader", ["C02", "C01"], ["R-WAITSET"],
      (PE, """        readers = [result_reader, wakeup_reader]""", """        readers = [result_reader]""")),
    M("waitset-slice", ["C02"], ["R-WAITSET"],
      (PE, """        ready = wait(readers + worker_sentinels)""", """        ready = wait(readers + worker_sentinels[:63])""")),
    # ------------------------------------------------------------ R-BROKEN-PATHS
    M("paths-sentinel-not-broken", ["C02"], ["R-BROKEN-PATHS"],
      (PE, """                "disabled."
            )

        self.thread_wakeup.clear()""", """                "disabled."
            )
            is_broken = len(self.pending_work_items) > 0

        self.thread_wakeup.clear()""")),
    M("paths-plain-runtime-error", ["C02"], ["R-BROKEN-PATHS"],
      (PE, """            bpe = TerminatedWorkerError(
                "A worker process managed by the executor was unexpectedly \"""", """            bpe = RuntimeError(
                "A worker process managed by the executor was unexpectedly \"""")),
    M("paths-sentinel-before-result", ["C02"], ["R-BROKEN-PATHS"],
      (PE, """        if result_reader in ready:
            try:
                result_item = result_reader.recv()""", """        if any(s in ready for s in worker_sentinels) and wakeup_reader not in ready:
            bpe = TerminatedWorkerError("A worker process was unexpectedly terminated.")
        elif result_reader in ready:
            try:
                result_item = result_reader.recv()""")),
    M("paths-recv-except-exception", ["C02"], ["R-BROKEN-PATHS"],
      (PE, """            except BaseException as e:
                bpe = BrokenProcessPool(
                    "A result has failed to un-serialize. Please ensure that \"""", """            except Exception as e:
                bpe = BrokenProcessPool(
                    "A result has failed to un-serialize. Please ensure that \"""")),
    M("paths-remote-traceback-not-broken", ["C02"], ["R-BROKEN-PATHS"],
      (PE, """                    bpe.__cause__ = result_item
                else:
                    is_broken = False""", """                    bpe.__cause__ = result_item
                is_broken = False""")),
    # ------------------------------------------------------------ R-BROKEN-ORDER
    M("order-flag-after-failing", ["C02"], ["R-BROKEN-ORDER"],
      (PE, """        # Mark the process pool broken so that submits fail right now.
        self.executor_flags.flag_as_broken(bpe)
""", ""),
      (PE, """        # Terminate remaining workers forcibly: the queues or their
        # locks may be in a dirty state and block forever.
        self.kill_workers(reason="broken executor")""", """        self.executor_flags.flag_as_broken(bpe)
        self.kill_workers(reason="broken executor")""")),
    M("order-broken-without-shutdown-flag", ["C02"], ["R-BROKEN-ORDER"],
      (PE, """        with self.shutdown_lock:
            self.shutdown = True
            self.broken = broken""", """        with self.shutdown_lock:
            self.broken = broken""")),
    M("order-broken-flag-without-lock", ["C02"], ["R-BROKEN-ORDER"],
      (PE, """        with self.shutdown_lock:
            self.shutdown = True
            self.broken = broken""", """        self.shutdown = True
        self.broken = broken""")),
    M("order-kill-before-failing", ["C02"], ["R-BROKEN-ORDER"],
      (PE, """        # Mark pending tasks as failed. Items are removed one by one as the""",
       """        self.kill_workers(reason="broken executor")
        # Mark pending tasks as failed. Items are removed one by one as the""")),
    M("order-no-kill", ["C02", "C20"], ["R-BROKEN-ORDER", "R-LEAK"],
      (PE, """        self.kill_workers(reason="broken executor")

        # clean up resources""", """        # clean up resources""")),
    # ------------------------------------------------------------ R-SUBMIT-GATE
    M("gate-shutdown-before-broken", ["C02"], ["R-SUBMIT-GATE"],
      (PE, """            if self._flags.broken is not None:
                raise self._flags.broken
            if self._flags.shutdown:
                raise ShutdownExecutorError(
                    "cannot schedule new futures after shutdown"
                )
""", """            if self._flags.shutdown:
                raise ShutdownExecutorError(
                    "cannot schedule new futures after shutdown"
                )
            if self._flags.broken is not None:
                raise self._flags.broken
""")),
    M("gate-fresh-broken-error", ["C02"], ["R-SUBMIT-GATE"],
      (PE, """                raise self._flags.broken
            if self._flags.shutdown:""", """                raise BrokenProcessPool("The executor is broken")
            if self._flags.shutdown:""")),
    M("gate-tests-outside-lock", ["C02", "C05"], ["R-SUBMIT-GATE", "R-ID", "R-NULLED"],
      (PE, """        with self._flags.shutdown_lock:
            if self._flags.broken is not None:
                raise self._flags.broken
            if self._flags.shutdown:
                raise ShutdownExecutorError(
                    "cannot schedule new futures after shutdown"
                )
""", """        if self._flags.broken is not None:
            raise self._flags.broken
        if self._flags.shutdown:
            raise ShutdownExecutorError(
                "cannot schedule new futures after shutdown"
            )
        with self._flags.shutdown_lock:
""")),
    # -------------------------------------------------------------- R-EXC-TYPES
    M("types-terminated-not-broken", ["C02"], ["R-EXC-TYPES", "R-BROKEN-PATHS"],
      (PE, """class TerminatedWorkerError(BrokenProcessPool):""", """class TerminatedWorkerError(RuntimeError):""")),
    M("types-own-broken-class", ["C02"], ["R-EXC-TYPES"],
      (PE, """class BrokenProcessPool(_BPPException):""", """class BrokenProcessPool(RuntimeError):""")),
    # --------------------------------------------------------------- R-KILL-TREE
    M("kill-parent-before-children-pgrep", ["C02", "C06"], ["R-KILL-TREE"],
      (UT, """    \"\"\"Recursively kill the descendants of a process before killing it.\"\"\"
    try:""", """    \"\"\"Recursively kill the descendants of a process before killing it.\"\"\"
    _kill(pid)
    try:"""),
      (UT, """        _posix_recursive_kill(cpid)

    _kill(pid)""", """        _posix_recursive_kill(cpid)""")),
    M("kill-only-process-in-kill-workers", ["C02", "C06"], ["R-KILL-TREE", "R-BROKEN-ORDER", "R-KILL-PATH"],
      (PE, """                kill_process_tree(p)
            except ProcessLookupError:  # pragma: no cover
                pass""", """                p.kill()
                p.join()
            except ProcessLookupError:  # pragma: no cover
                pass""")),
    M("kill-psutil-non-recursive", ["C02", "C06"], ["R-KILL-TREE"],
      (UT, """children(recursive=True)""", """children(recursive=False)""")),
    M("kill-psutil-parent-first", ["C02", "C06"], ["R-KILL-TREE"],
      (UT, """    # Kill the descendants in reverse order to avoid killing the parents before
    # the descendant in cases where there are more processes nested.
    for descendant in descendants[::-1]:""", """    try:
        psutil.Process(process.pid).kill()
    except psutil.NoSuchProcess:
        pass
    for descendant in descendants[::-1]:""")),
    M("kill-psutil-no-join", ["C02", "C06", "C20"], ["R-KILL-TREE", "R-LEAK"],
      (UT, """    except psutil.NoSuchProcess:
        pass
    process.join()""", """    except psutil.NoSuchProcess:
        pass""")),
    M("kill-workers-first-only", ["C02", "C06"], ["R-KILL-TREE"],
      (PE, """        while self.processes:
            _, p = self.processes.popitem()
            mp.util.debug(f"terminate process {p.name}, reason: {reason}")""", """        if self.processes:
            _, p = self.processes.popitem()
            mp.util.debug(f"terminate process {p.name}, reason: {reason}")""")),
    # -------------------------------------------------------- R-WORKER-UNPICKLE
    M("unpickle-worker-exit-zero", ["C02"], ["R-WORKER-UNPICKLE"],
      (PE, """            mp.util.debug("Exiting with code 1")
            sys.exit(1)""", """            mp.util.debug("Exiting with code 1")
            sys.exit(0)""")),
    M("unpickle-worker-except-exception", ["C02"], ["R-WORKER-UNPICKLE"],
      (PE, """        except BaseException:
            previous_tb = traceback.format_exc()""", """        except Exception:
            previous_tb = traceback.format_exc()""")),
    # ----------------------------------------------------------- R-SHUTDOWN-API
    M("api-shutdown-flag-without-lock", ["C05"], ["R-SHUTDOWN-API"],
      (PE, """        with self.shutdown_lock:
            self.shutdown = True
            if kill_workers is not None:
                self.kill_workers = kill_workers""", """        self.shutdown = True
        if kill_workers is not None:
            self.kill_workers = kill_workers""")),
    M("api-join-outside-global-lock", ["C05"], ["R-SHUTDOWN-API"],
      (PE, """            with _global_shutdown_lock:
                executor_manager_thread.join()
                _threads_wakeups.pop(executor_manager_thread, None)""", """            executor_manager_thread.join()
            _threads_wakeups.pop(executor_manager_thread, None)""")),
    M("api-submit-after-shutdown-runtime-error", ["C05"], ["R-SHUTDOWN-API"],
      (PE, """                raise ShutdownExecutorError(
                    "cannot schedule new futures after shutdown"
                )""", """                raise RuntimeError(
                    "cannot schedule new futures after shutdown"
                )""")),
    # ------------------------------------------------------ R-SHUTTING-DOWN-TABLE
    M("table-broken-shutting-down", ["C05"], ["R-SHUTTING-DOWN-TABLE"],
      (PE, """            (executor is None or self.executor_flags.shutdown)
            and not self.executor_flags.broken
        )""", """            (executor is None or self.executor_flags.shutdown)
        )""")),
    M("table-gc-not-shutting-down", ["C05"], ["R-SHUTTING-DOWN-TABLE"],
      (PE, """            (executor is None or self.executor_flags.shutdown)""", """            (self.executor_flags.shutdown)""")),
    M("table-global-and", ["C05"], ["R-SHUTTING-DOWN-TABLE"],
      (PE, """        return _global_shutdown or (
            (executor is None""", """        return _global_shutdown and (
            (executor is None""")),
    # ----------------------------------------------------------- R-SHUTDOWN-SEQ
    M("seq-no-exit-lock-release", ["C05"], ["R-SHUTDOWN-SEQ"],
      (PE, """                mp.util.debug(f"releasing worker exit lock on {p.name}")
                p._worker_exit_lock.release()
                n_children_to_stop += 1""", """                mp.util.debug(f"releasing worker exit lock on {p.name}")
                n_children_to_stop += 1""")),
    M("seq-one-sentinel-too-few", ["C05"], ["R-SHUTDOWN-SEQ"],
      (PE, """            n_sentinels_sent < n_children_to_stop
            and self.get_n_children_alive() > 0""", """            n_sentinels_sent < n_children_to_stop - 1
            and self.get_n_children_alive() > 0""")),
    M("seq-wakeup-closed-before-queues", ["C05", "C20"], ["R-SHUTDOWN-SEQ"],
      (PE, """        self.shutdown_workers()

        # Release the queue's resources as soon as possible.""", """        self.shutdown_workers()
        with self.shutdown_lock:
            self.thread_wakeup.close()

        # Release the queue's resources as soon as possible.""")),
    M("seq-no-join-all", ["C05", "C20"], ["R-SHUTDOWN-SEQ", "R-LEAK"],
      (PE, """                    pid, p = self.processes.popitem()
                    mp.util.debug(f"joining process {p.name} with pid {pid}")
                    p.join()
                    n_joined_processes += 1""", """                    pid, p = self.processes.popitem()
                    mp.util.debug(f"joining process {p.name} with pid {pid}")
                    n_joined_processes += 1""")),
    M("seq-no-result-queue-close", ["C05", "C20"], ["R-SHUTDOWN-SEQ", "R-LEAK"],
      (PE, """        mp.util.debug("closing result_queue")
        self.result_queue.close()""", """        mp.util.debug("closing result_queue")""")),
    M("seq-release-outside-lock", ["C05"], ["R-SHUTDOWN-SEQ"],
      (PE, """        with self.processes_management_lock:
            n_children_to_stop = 0
            for p in list(self.processes.values()):
                mp.util.debug(f"releasing worker exit lock on {p.name}")
                p._worker_exit_lock.release()
                n_children_to_stop += 1""", """        n_children_to_stop = 0
        for p in list(self.processes.values()):
            mp.util.debug(f"releasing worker exit lock on {p.name}")
            p._worker_exit_lock.release()
            n_children_to_stop += 1""")),
    # --------------------------------------------------------- R-EXIT-HANDSHAKE
    M("handshake-pop-without-lock", ["C05", "C07"], ["R-EXIT-HANDSHAKE"],
      (PE, """            with self.processes_management_lock:
                p = self.processes.pop(result_item, None)""", """            p = self.processes.pop(result_item, None)""")),
    M("handshake-no-join", ["C05", "C07", "C20"], ["R-EXIT-HANDSHAKE", "R-LEAK"],
      (PE, """                p.join()
                del p

            # Make sure the executor have the right number of worker""", """                del p

            # Make sure the executor have the right number of worker""")),
    M("handshake-timeout-flags-broken", ["C07"], ["R-EXIT-HANDSHAKE"],
      (PE, """            # p can be None if the executor is concurrently shutting down.
            if p is not None:""", """            if p is not None and p.exitcode not in (None, 0):
                self.executor_flags.flag_as_broken(TerminatedWorkerError("worker exited"))
            # p can be None if the executor is concurrently shutting down.
            if p is not None:""")),
    # ---------------------------------------------------------- R-NO-STRONG-REF
    M("ref-manager-keeps-executor", ["C05"], ["R-NO-STRONG-REF"],
      (PE, """        self.executor_reference = weakref.ref(executor, weakref_cb)""", """        self.executor_reference = weakref.ref(executor, weakref_cb)
        self._executor = executor""")),
    M("ref-flags-keep-executor", ["C05"], ["R-NO-STRONG-REF"],
      (PE, """        self._flags = _ExecutorFlags(self._shutdown_lock)""", """        self._flags = _ExecutorFlags(self._shutdown_lock)
        self._flags.owner = self""")),
    M("ref-closure-captures-executor", ["C05"], ["R-NO-STRONG-REF"],
      (PE, """            with shutdown_lock:
                thread_wakeup.wakeup()

        self.executor_reference""", """            with shutdown_lock:
                thread_wakeup.wakeup()
            mp.util.debug(f"collected {executor!r}")

        self.executor_reference""")),
    # ------------------------------------------------------------------ R-ATEXIT
    M("atexit-join-before-wake", ["C05"], ["R-ATEXIT"],
      (PE, """    for _, (shutdown_lock, thread_wakeup) in items:
        with shutdown_lock:
            thread_wakeup.wakeup()
""", """    for thread, (shutdown_lock, thread_wakeup) in items:
        with shutdown_lock:
            thread_wakeup.wakeup()
        with _global_shutdown_lock:
            thread.join()
""")),
    M("atexit-registry-before-start", ["C05"], ["R-ATEXIT"],
      (PE, """            self._executor_manager_thread.start()

            # register this executor in a mechanism that ensures it will wakeup
            # when the interpreter is exiting.
            _threads_wakeups[self._executor_manager_thread] = (
                self._shutdown_lock,
                self._executor_manager_thread_wakeup,
            )
""", """            self._executor_manager_thread.start()
""")),
    # ----------------------------------------------------------- R-TIMEOUT-EXIT
    M("timeout-exit-without-probe", ["C07"], ["R-TIMEOUT-EXIT"],
      (PE, """            if processes_management_lock.acquire(block=False):
                processes_management_lock.release()
                call_item = None
            else:
                mp.util.info("Could not acquire processes_management_lock")
                continue""", """            call_item = None""")),
    M("timeout-announce-after-wait", ["C07"], ["R-TIMEOUT-EXIT"],
      (PE, """            result_queue.put(pid)
            is_clean = worker_exit_lock.acquire(True, timeout=30)
""", """            is_clean = worker_exit_lock.acquire(True, timeout=30)
            result_queue.put(pid)
""")),
    M("timeout-no-wait-on-exit-lock", ["C07"], ["R-TIMEOUT-EXIT"],
      (PE, """            is_clean = worker_exit_lock.acquire(True, timeout=30)
""", """            is_clean = True
""")),
    M("timeout-failed-probe-leaves", ["C07"], ["R-TIMEOUT-EXIT"],
      (PE, """                mp.util.info("Could not acquire processes_management_lock")
                continue""", """                mp.util.info("Could not acquire processes_management_lock")
                call_item = None""")),
    M("timeout-leak-exit-without-announce", ["C07"], ["R-TIMEOUT-EXIT"],
      (PE, """                mp.util.info("Memory leak detected: shutting down worker")
                result_queue.put(pid)""", """                mp.util.info("Memory leak detected: shutting down worker")""")),
    # ---------------------------------------------------------- R-RESPAWN-GUARD
    M("respawn-drop-running-disjunct", ["C07"], ["R-RESPAWN-GUARD"],
      (PE, """            if n_pending - n_running > 0 or n_running > len(self.processes):""", """            if n_pending - n_running > 0:""")),
    M("respawn-without-lock", ["C07", "C08"], ["R-RESPAWN-GUARD", "R-SPAWN-LOCKED"],
      (PE, """                    with executor._processes_management_lock:
                        executor._adjust_process_count()""", """                    executor._adjust_process_count()""")),
    M("respawn-removed", ["C07"], ["R-RESPAWN-GUARD"],
      (PE, """                    with executor._processes_management_lock:
                        executor._adjust_process_count()""", """                    pass""")),
    M("respawn-inner-off-by-one", ["C07", "C08"], ["R-RESPAWN-GUARD"],
      (PE, """                    and len(self.processes) < executor._max_workers
                ):""", """                    and len(self.processes) <= executor._max_workers
                ):""")),
    # ------------------------------------------------------------- R-SPAWN-SITE
    M("spawn-loop-le", ["C08"], ["R-SPAWN-SITE"],
      (PE, """        while len(self._processes) < self._max_workers:""", """        while len(self._processes) <= self._max_workers:""")),
    M("spawn-ensure-running-only-when-empty", ["C08", "C07"], ["R-SPAWN-SITE"],
      (PE, """            if len(self._processes) != self._max_workers:
                self._adjust_process_count()""", """            if len(self._processes) == 0:
                self._adjust_process_count()""")),
    M("spawn-ensure-running-without-lock", ["C08", "C07"], ["R-SPAWN-LOCKED"],
      (PE, """        with self._processes_management_lock:
            if len(self._processes) != self._max_workers:
                self._adjust_process_count()
            self._start_executor_manager_thread()""", """        if len(self._processes) != self._max_workers:
            self._adjust_process_count()
        self._start_executor_manager_thread()""")),
    M("spawn-register-before-start", ["C08"], ["R-SPAWN-SITE"],
      (PE, """            p.start()
            self._processes[p.pid] = p""", """            self._processes[p.pid] = p
            p.start()""")),
    # ------------------------------------------------------------ R-EXC-BREADTH
    M("breadth-worker-except-exception", ["C04"], ["R-EXC-BREADTH", "R-TIMEOUT-EXIT"],
      (PE, """            r = call_item()
        except BaseException as e:""", """            r = call_item()
        except Exception as e:""")),
    M("breadth-callbacks-except-exception", ["C04"], ["R-EXC-BREADTH"],
      (BA, """            except BaseException:""", """            except Exception:""")),
    M("breadth-sendback-except-exception", ["C04"], ["R-EXC-BREADTH"],
      (PE, """    except BaseException as e:
        exc = _ExceptionWithTraceback(e)
        result_queue.put(_ResultItem(work_id, exception=exc))""", """    except Exception as e:
        exc = _ExceptionWithTraceback(e)
        result_queue.put(_ResultItem(work_id, exception=exc))""")),
    M("breadth-initializer-continues", ["C04", "C18"], ["R-EXC-BREADTH", "R-INIT-FIRST"],
      (PE, """            # The parent will notice that the process stopped and
            # mark the pool broken
            return""", """            # The parent will notice that the process stopped and
            # mark the pool broken
            pass""")),
    # ------------------------------------------------------------------ R-FEEDER
    M("feeder-no-slot-release", ["C04", "C01"], ["R-FEEDER"],
      (QU, """                    queue_sem.release()
                    onerror(e, obj)""", """                    onerror(e, obj)""")),
    M("feeder-pickle-under-lock", ["C04"], ["R-PAIR"],
      (QU, """                        obj_ = dumps(obj, reducers=reducers)
                        if wacquire is None:
                            send_bytes(obj_)
                        else:
                            wacquire()
                            try:
                                send_bytes(obj_)""", """                        if wacquire is None:
                            obj_ = dumps(obj, reducers=reducers)
                            send_bytes(obj_)
                        else:
                            wacquire()
                            obj_ = dumps(obj, reducers=reducers)
                            try:
                                send_bytes(obj_)""")),
    M("feeder-release-not-in-finally", ["C04", "C01"], ["R-PAIR"],
      (QU, """                            try:
                                send_bytes(obj_)
                            finally:
                                wrelease()""", """                            send_bytes(obj_)
                            wrelease()""")),
    M("feeder-return-on-any-error", ["C04"], ["R-FEEDER"],
      (QU, """                if ignore_epipe and getattr(e, "errno", 0) == errno.EPIPE:
                    return""", """                if ignore_epipe:
                    return""") if False else (QU, """                if util.is_exiting():""", """                if util.is_exiting() or not isinstance(e, OSError):""")),
    # ------------------------------------------------------------- R-FEEDER-HOOK
    M("hook-flags-broken", ["C04"], ["R-FEEDER-HOOK"],
      (PE, """            work_item = self.pending_work_items.pop(obj.work_id, None)
            self.running_work_items.remove(obj.work_id)""", """            work_item = self.pending_work_items.pop(obj.work_id, None)
            self.flags.flag_as_broken(raised_error)
            self.running_work_items.remove(obj.work_id)"""),
      (PE, """        self.thread_wakeup = thread_wakeup
        self.shutdown_lock = shutdown_lock""", """        self.thread_wakeup = thread_wakeup
        self.flags = _ExecutorFlags(shutdown_lock)
        self.shutdown_lock = shutdown_lock""")),
    M("hook-running-not-removed", ["C04"], ["R-FEEDER-HOOK"],
      (PE, """            self.running_work_items.remove(obj.work_id)
            # work_item can be None if another process terminated. In this""", """            # work_item can be None if another process terminated. In this""")),
    M("hook-wrong-error-type", ["C04"], ["R-FEEDER-HOOK"],
      (PE, """                raised_error = PicklingError(
                    "Could not pickle the task to send it to the workers."
                )""", """                raised_error = ValueError(
                    "Could not pickle the task to send it to the workers."
                )""")),
    # ------------------------------------------------------------------- R-CAUSE
    M("cause-dropped", ["C04"], ["R-CAUSE"],
      (PE, """    exc.__cause__ = _RemoteTraceback(tb)
    return exc""", """    return exc""")),
    M("cause-reduce-swapped", ["C04"], ["R-CAUSE"],
      (PE, """        return _rebuild_exc, (self.exc, self.tb)""", """        return _rebuild_exc, (self.tb, self.exc)""")),
    # ---------------------------------------------------------------------- R-ID
    M("id-key-after-increment", ["C03"], ["R-ID"],
      (PE, """            self._pending_work_items[self._queue_count] = w
            self._work_ids.put(self._queue_count)
            self._queue_count += 1""", """            self._queue_count += 1
            self._pending_work_items[self._queue_count] = w
            self._work_ids.put(self._queue_count - 1)""")),
    M("id-args-kwargs-swapped", ["C03"], ["R-ID"],
      (PE, """                            work_item.fn,
                            work_item.args,
                            work_item.kwargs,""", """                            work_item.fn,
                            work_item.kwargs,
                            work_item.args,""")),
    M("id-result-exception-swapped", ["C03"], ["R-ID"],
      (PE, """            _ResultItem(work_id, result=result, exception=exception)""", """            _ResultItem(work_id, result=exception, exception=result)""")),
    M("id-counter-reset-on-resize", ["C03"], ["R-ID"],
      (RE, """                self._max_workers = max_workers
                return

            self._wait_job_completion()""", """                self._max_workers = max_workers
                return

            self._wait_job_completion()
            self._queue_count = 0""")),
    M("id-increment-outside-lock", ["C03"], ["R-ID"],
      (PE, """            self._work_ids.put(self._queue_count)
            self._queue_count += 1
            # Wake up queue management thread
            self._executor_manager_thread_wakeup.wakeup()

            self._ensure_executor_running()
            # Wake up the queue management thread again once the workers are
            # (re)spawned and registered: it waits on a snapshot of the worker
            # sentinels and would not notice the death of a worker that was
            # registered after that snapshot was taken.
            self._executor_manager_thread_wakeup.wakeup()
            return f""", """            self._work_ids.put(self._queue_count)
            # Wake up queue management thread
            self._executor_manager_thread_wakeup.wakeup()

            self._ensure_executor_running()
            self._executor_manager_thread_wakeup.wakeup()
        self._queue_count += 1
        return f""")),
    M("id-set-result-regardless", ["C03"], ["R-ID", "R-DROP-RESOLVES"],
      (PE, """                if result_item.exception:
                    work_item.future.set_exception(result_item.exception)
                else:
                    work_item.future.set_result(result_item.result)""", """                work_item.future.set_result(result_item.result)""")),
    M("id-call-drops-kwargs", ["C03"], ["R-ID"],
      (PE, """        return self.fn(*self.args, **self.kwargs)""", """        return self.fn(*self.args)""")),
    # -------------------------------------------------------------------- R-ONCE
    M("once-dispatch-cancelled", ["C03"], ["R-ONCE", "R-DROP-RESOLVES"],
      (PE, """                if work_item.future.set_running_or_notify_cancel():""", """                work_item.future.set_running_or_notify_cancel()
                if True:""")),
    M("once-requeue-on-respawn", ["C03"], ["R-ONCE"],
      (PE, """                    with executor._processes_management_lock:
                        executor._adjust_process_count()""", """                    with executor._processes_management_lock:
                        executor._adjust_process_count()
                    for work_id in self.running_work_items:
                        self.work_ids_queue.put(work_id)""")),
    M("once-worker-retry", ["C03"], ["R-ONCE"],
      (PE, """        try:
            r = call_item()
        except BaseException as e:""", """        try:
            try:
                r = call_item()
            except OSError:
                r = call_item()
        except BaseException as e:""")),
]


def B(id, props, *edits):
    return {"id": id, "props": props, "edits": list(edits)}


BENIGN = [
    B("benign-rename-local-in-submit", None,
      (PE, """            f = Future()
            w = _WorkItem(f, fn, args, kwargs)

            self._pending_work_items[self._queue_count] = w""", """            f = Future()
            item = _WorkItem(f, fn, args, kwargs)

            self._pending_work_items[self._queue_count] = item""")),
    B("benign-extra-wakeup-and-logging", None,
      (PE, """            self._queue_count += 1
            # Wake up queue management thread""", """            self._queue_count += 1
            mp.util.debug("queued a work item")
            self._executor_manager_thread_wakeup.wakeup()
            # Wake up queue management thread""")),
    B("benign-with-to-acquire-release", None,
      (PE, """            with self.processes_management_lock:
                p = self.processes.pop(result_item, None)""", """            self.processes_management_lock.acquire()
            try:
                p = self.processes.pop(result_item, None)
            finally:
                self.processes_management_lock.release()""")),
    B("benign-guard-operand-swap", None,
      (PE, """            if n_pending - n_running > 0 or n_running > len(self.processes):""",
       """            if len(self.processes) < n_running or n_pending > n_running:""")),
    B("benign-demorgan-is-shutting-down", None,
      (PE, """        return _global_shutdown or (
            (executor is None or self.executor_flags.shutdown)
            and not self.executor_flags.broken
        )""", """        flags = self.executor_flags
        stopping = not (executor is not None and not flags.shutdown)
        return _global_shutdown or (stopping and not flags.broken)""")),
    B("benign-extract-helper-in-terminate-broken", None,
      (PE, """        # Terminate remaining workers forcibly: the queues or their
        # locks may be in a dirty state and block forever.
        self.kill_workers(reason="broken executor")

        # clean up resources
        self.join_executor_internals()""", """        self._kill_and_join()

    def _kill_and_join(self):
        # Terminate remaining workers forcibly: the queues or their
        # locks may be in a dirty state and block forever.
        self.kill_workers(reason="broken executor")

        # clean up resources
        self.join_executor_internals()""")),
    B("benign-timeout-in-polling-loop", None,
      (RE, """        while self._pending_work_items:
            time.sleep(1e-3)""", """        deadline = time.time() + 3600
        while self._pending_work_items and time.time() < deadline:
            time.sleep(1e-3)""")),
    B("benign-rename-private-method", None,
      (PE, """    def shutdown_workers(self):""", """    def _stop_all_workers(self):"""),
      (PE, """        self.shutdown_workers()""", """        self._stop_all_workers()""")),
    B("benign-reorder-independent-statements", None,
      (PE, """        self._pending_work_items = {}
        self._running_work_items = []
        self._work_ids = queue.Queue()""", """        self._work_ids = queue.Queue()
        self._running_work_items = []
        self._pending_work_items = {}""")),
    B("benign-rename-workitem-attribute", ["C03", "C01", "C04"],
      (PE, """    __slots__ = ["future", "fn", "args", "kwargs"]

    def __init__(self, future, fn, args, kwargs):
        self.future = future
        self.fn = fn""", """    __slots__ = ["future", "func", "args", "kwargs"]

    def __init__(self, future, fn, args, kwargs):
        self.future = future
        self.func = fn"""),
      (PE, """                            work_item.fn,""", """                            work_item.func,""")),
]
