"""Self-validation catalogue: must-fire mutants and benign variants.

Each edit is (path, old text, new text) located by text in the *current*
tree; an edit whose anchor text is gone is skipped (and counted).  The edits
are realistic breakages that still compile and that the test suite is not
expected to notice (they matter only under a particular schedule, crash point,
history or configuration).  `rules` lists the rules of which at least one must
report a new finding; `props` the properties whose check must fire.
"""
PE = "loky/process_executor.py"
RE = "loky/reusable_executor.py"
QU = "loky/backend/queues.py"
UT = "loky/backend/utils.py"
RT = "loky/backend/resource_tracker.py"
SY = "loky/backend/synchronize.py"
CX = "loky/backend/context.py"
RD = "loky/backend/reduction.py"
CW = "loky/cloudpickle_wrapper.py"
FE = "loky/backend/fork_exec.py"
PP = "loky/backend/popen_loky_posix.py"
SP = "loky/backend/spawn.py"
PR = "loky/backend/process.py"
BA = "loky/_base.py"


def M(id, props, rules, *edits):
    return {"id": id, "props": props, "rules": rules, "edits": list(edits)}


MUTANTS = [
    # ------------------------------------------------------------------ R-WAKE
    M("wake-submit-no-second-wakeup", ["C01", "C02"], ["R-WAKE"],
      (PE, """            self._ensure_executor_running()
            # Wake up the queue management thread again once the workers are
            # (re)spawned and registered: it waits on a snapshot of the worker
            # sentinels and would not notice the death of a worker that was
            # registered after that snapshot was taken.
            self._executor_manager_thread_wakeup.wakeup()
            return f""", """            self._ensure_executor_running()
            return f""")),
    M("wake-resize-no-wakeup", ["C01"], ["R-WAKE"],
      (RE, """            with self._shutdown_lock:
                self._executor_manager_thread_wakeup.wakeup()
""", "")),
    M("wake-feeder-hook-no-wakeup", ["C01", "C04"], ["R-WAKE", "R-FEEDER-HOOK"],
      (PE, """            with self.shutdown_lock:
                self.thread_wakeup.wakeup()
        else:
            super()._on_queue_feeder_error(e, obj)""", """            pass
        else:
            super()._on_queue_feeder_error(e, obj)""")),
    M("wake-shutdown-no-wakeup", ["C01"], ["R-WAKE"],
      (PE, """            with self._shutdown_lock:
                executor_manager_thread_wakeup.wakeup()

        if executor_manager_thread is not None and wait:""", """            pass

        if executor_manager_thread is not None and wait:""")),
    M("wake-gc-callback-no-wakeup", ["C01"], ["R-WAKE"],
      (PE, """            with shutdown_lock:
                thread_wakeup.wakeup()

        self.executor_reference""", """            pass

        self.executor_reference""")),
    M("wake-shutdown-early-return", ["C01"], ["R-WAKE"],
      (PE, """        executor_manager_thread_wakeup = self._executor_manager_thread_wakeup

        if executor_manager_thread_wakeup is not None:""", """        executor_manager_thread_wakeup = self._executor_manager_thread_wakeup
        if not wait:
            return

        if executor_manager_thread_wakeup is not None:""")),
    M("wake-atexit-flag-after-wake", ["C01"], ["R-WAKE"],
      (PE, """    global _global_shutdown
    _global_shutdown = True

    # Materialize""", """    global _global_shutdown

    # Materialize"""),
      (PE, """    # Collect the executor_manager_thread's to make sure we exit cleanly.
    for thread, _ in items:""", """    _global_shutdown = True
    # Collect the executor_manager_thread's to make sure we exit cleanly.
    for thread, _ in items:""")),
    # ------------------------------------------------------------- R-WAKE-LOCK
    M("wakelock-shutdown-outside-lock", ["C01", "C05"], ["R-WAKE-LOCK"],
      (PE, """            with self._shutdown_lock:
                executor_manager_thread_wakeup.wakeup()

        if executor_manager_thread is not None and wait:""", """            executor_manager_thread_wakeup.wakeup()

        if executor_manager_thread is not None and wait:""")),
    M("wakelock-close-outside-lock", ["C01", "C05"], ["R-WAKE-LOCK"],
      (PE, """        with self.shutdown_lock:
            self.thread_wakeup.close()""", """        self.thread_wakeup.close()""")),
    # ------------------------------------------------------------ R-OWN-RESOLVE
    M("own-terminate-broken-iterates", ["C01", "C02", "C04"], ["R-OWN-RESOLVE"],
      (PE, """        while self.pending_work_items:
            try:
                _, work_item = self.pending_work_items.popitem()
            except KeyError:
                break
            try:
                work_item.future.set_exception(bpe)
            except InvalidStateError:
                # set_exception() fails if the future was cancelled while it
                # was still queued: nothing to report to a cancelled future.
                pass
            # Delete references to object. See issue16284
            del work_item
""", """        for work_item in self.pending_work_items.values():
            try:
                work_item.future.set_exception(bpe)
            except InvalidStateError:
                pass
            # Delete references to object. See issue16284
            del work_item
        self.pending_work_items.clear()
""")),
    M("own-kill-shutdown-iterates", ["C01", "C06"], ["R-OWN-RESOLVE"],
      (PE, """            while self.pending_work_items:
                try:
                    _, work_item = self.pending_work_items.popitem()
                except KeyError:
                    # The feeder thread of the call queue can concurrently
                    # remove (and fail) an item it could not serialize.
                    break
                try:
                    work_item.future.set_exception(
                        ShutdownExecutorError(
                            "The Executor was shutdown with `kill_workers=True` "
                            "before this job could complete."
                        )
                    )
                except InvalidStateError:
                    # set_exception() fails if the future was cancelled while
                    # it was still queued: nothing to report to it.
                    pass
                del work_item
""", """            for work_item in list(self.pending_work_items.values()):
                try:
                    work_item.future.set_exception(
                        ShutdownExecutorError(
                            "The Executor was shutdown with `kill_workers=True` "
                            "before this job could complete."
                        )
                    )
                except InvalidStateError:
                    pass
                del work_item
            self.pending_work_items.clear()
""")),
    # ---------------------------------------------------------- R-DROP-RESOLVES
    M("drop-feeder-hook-no-set-exception", ["C01", "C04"], ["R-DROP-RESOLVES", "R-FEEDER-HOOK"],
      (PE, """            if work_item is not None:
                work_item.future.set_exception(raised_error)
                del work_item""", """            if work_item is not None:
                del work_item""")),
    M("drop-result-exception-not-set", ["C01", "C03"], ["R-DROP-RESOLVES"],
      (PE, """                if result_item.exception is not None:
                    work_item.future.set_exception(result_item.exception)
                else:""", """                if result_item.exception is not None:
                    LOGGER.error("task failed: %r", result_item.exception)
                else:""")),
    # --------------------------------------------------------------- R-MGR-EXIT
    M("mgrexit-return-without-emptiness-test", ["C01", "C05"], ["R-MGR-EXIT"],
      (PE, """                if not self.pending_work_items:
                    self.join_executor_internals()
                    return""", """                self.join_executor_internals()
                return""")),
    M("mgrexit-return-without-join", ["C01", "C05", "C20"], ["R-MGR-EXIT", "R-LEAK"],
      (PE, """                if not self.pending_work_items:
                    self.join_executor_internals()
                    return""", """                if not self.pending_work_items:
                    return""")),
    # ----------------------------------------------------------------- R-NULLED
    M("nulled-shutdown-nulls-flags", ["C01", "C05"], ["R-NULLED"],
      (PE, """            self._processes_management_lock = None

    shutdown.__doc__""", """            self._processes_management_lock = None
        self._flags = None

    shutdown.__doc__""")),
    # D3 (fixed in /repo): the fields are dropped while the manager thread may still need them
    M("nulled-unconditionally-D3", ["C01", "C05", "C07"], ["R-NULLED"],
      (PE, """        if wait or executor_manager_thread is None:
            self._executor_manager_thread = None""", """        if True:
            self._executor_manager_thread = None""")),
    M("nulled-before-join", ["C01", "C05"], ["R-NULLED"],
      (PE, """        if executor_manager_thread is not None and wait:
            # This locks avoids""", """        self._call_queue = None
        if executor_manager_thread is not None and wait:
            # This locks avoids""")),
    M("nulled-when-thread-exists", ["C01", "C05", "C07"], ["R-NULLED"],
      (PE, """        if wait or executor_manager_thread is None:
            self._executor_manager_thread = None""", """        if wait or executor_manager_thread is not None:
            self._executor_manager_thread = None""")),
    # ------------------------------------------------------------------- R-POLL
    M("poll-resize-snapshot", ["C01", "C09", "C10"], ["R-POLL"],
      (RE, """            while (
                not all(p.is_alive() for p in list(self._processes.values()))
                and not self._flags.broken
            ):""", """            processes = list(self._processes.values())
            while not all(p.is_alive() for p in processes):""")),
    M("poll-wait-job-completion-snapshot", ["C01", "C10"], ["R-POLL"],
      (RE, """        while self._pending_work_items:
            time.sleep(1e-3)""", """        pending = dict(self._pending_work_items)
        while pending:
            time.sleep(1e-3)""")),
    M("poll-shrink-wait-forever", ["C01", "C10"], ["R-POLL"],
      (RE, """            while (
                len(self._processes) > max_workers and not self._flags.broken
            ):""", """            n_before = len(self._processes)
            while n_before > max_workers:""")),
    # -------------------------------------------------------------- R-LOCK-ORDER
    M("lock-worker-blocking-probe", ["C01", "C07"], ["R-LOCK-ORDER", "R-TIMEOUT-EXIT"],
      (PE, """            if processes_management_lock.acquire(block=False):
                processes_management_lock.release()
                call_item = None
            else:
                mp.util.info("Could not acquire processes_management_lock")
                continue""", """            with processes_management_lock:
                call_item = None""")),
    M("lock-adjust-takes-shutdown-lock", ["C01"], ["R-LOCK-ORDER"],
      (PE, """            p._worker_exit_lock = worker_exit_lock
            p.start()
            self._processes[p.pid] = p""", """            p._worker_exit_lock = worker_exit_lock
            p.start()
            with self._shutdown_lock:
                self._processes[p.pid] = p""")),
    # --------------------------------------------------------------- R-BLOCK-MGR
    M("block-sentinel-blocking-put", ["C01", "C05"], ["R-BLOCK-MGR", "R-SHUTDOWN-SEQ"],
      (PE, """                    self.call_queue.put_nowait(None)""", """                    self.call_queue.put(None)""")),
    M("block-dispatch-without-full-test", ["C01"], ["R-BLOCK-MGR"],
      (PE, """            if self.call_queue.full():
                return
            try:
                work_id = self.work_ids_queue.get(block=False)""", """            try:
                work_id = self.work_ids_queue.get(block=False)""")),
    M("block-join-before-release", ["C01", "C05", "C07"], ["R-BLOCK-MGR", "R-EXIT-HANDSHAKE"],
      (PE, """                p._worker_exit_lock.release()
                mp.util.debug(
                    f"joining {p.name} when processing {p.pid} as result_item"
                )
                p.join()
                del p""", """                mp.util.debug(
                    f"joining {p.name} when processing {p.pid} as result_item"
                )
                p.join()
                p._worker_exit_lock.release()
                del p""")),
    M("block-dispatch-blocking-get", ["C01"], ["R-BLOCK-MGR"],
      (PE, """                work_id = self.work_ids_queue.get(block=False)""", """                work_id = self.work_ids_queue.get(block=True)""")),
    # ---------------------------------------------------------------- R-WAITSET
    M("waitset-filter-alive", ["C02"], ["R-WAITSET"],
      (PE, """        worker_sentinels = [p.sentinel for p in list(self.processes.values())]""",
       """        worker_sentinels = [p.sentinel for p in list(self.processes.values()) if p.is_alive()]""")),
    M("waitset-drop-wakeup-reader", ["C02", "C01"], ["R-WAITSET"],
      (PE, """        readers = [result_reader, wakeup_reader]""", """        readers = [result_reader]""")),
    M("waitset-slice", ["C02"], ["R-WAITSET"],
      (PE, """        ready = wait(readers + worker_sentinels)""", """        ready = wait(readers + worker_sentinels[:63])""")),
    # ------------------------------------------------------------ R-BROKEN-PATHS
    M("paths-sentinel-not-broken", ["C02"], ["R-BROKEN-PATHS"],
      (PE, """                "disabled."
            )

        self.thread_wakeup.clear()""", """                "disabled."
            )
            is_broken = len(self.pending_work_items) > 0

        self.thread_wakeup.clear()""")),
    M("paths-plain-runtime-error", ["C02"], ["R-BROKEN-PATHS"],
      (PE, """            bpe = TerminatedWorkerError(
                "A worker process managed by the executor was unexpectedly \"""", """            bpe = RuntimeError(
                "A worker process managed by the executor was unexpectedly \"""")),
    M("paths-sentinel-before-result", ["C02"], ["R-BROKEN-PATHS"],
      (PE, """        if result_reader in ready:
            try:
                result_item = result_reader.recv()""", """        if any(s in ready for s in worker_sentinels) and wakeup_reader not in ready:
            bpe = TerminatedWorkerError("A worker process was unexpectedly terminated.")
        elif result_reader in ready:
            try:
                result_item = result_reader.recv()""")),
    M("paths-recv-except-exception", ["C02"], ["R-BROKEN-PATHS"],
      (PE, """            except BaseException as e:
                bpe = BrokenProcessPool(
                    "A result has failed to un-serialize. Please ensure that \"""", """            except Exception as e:
                bpe = BrokenProcessPool(
                    "A result has failed to un-serialize. Please ensure that \"""")),
    M("paths-remote-traceback-not-broken", ["C02"], ["R-BROKEN-PATHS"],
      (PE, """                    bpe.__cause__ = result_item
                else:
                    is_broken = False""", """                    bpe.__cause__ = result_item
                is_broken = False""")),
    # ------------------------------------------------------------ R-BROKEN-ORDER
    M("order-flag-after-failing", ["C02"], ["R-BROKEN-ORDER"],
      (PE, """        # Mark the process pool broken so that submits fail right now.
        self.executor_flags.flag_as_broken(bpe)
""", ""),
      (PE, """        # Terminate remaining workers forcibly: the queues or their
        # locks may be in a dirty state and block forever.
        self.kill_workers(reason="broken executor")""", """        self.executor_flags.flag_as_broken(bpe)
        self.kill_workers(reason="broken executor")""")),
    M("order-broken-without-shutdown-flag", ["C02"], ["R-BROKEN-ORDER"],
      (PE, """        with self.shutdown_lock:
            self.shutdown = True
            self.broken = broken""", """        with self.shutdown_lock:
            self.broken = broken""")),
    M("order-broken-flag-without-lock", ["C02"], ["R-BROKEN-ORDER"],
      (PE, """        with self.shutdown_lock:
            self.shutdown = True
            self.broken = broken""", """        self.shutdown = True
        self.broken = broken""")),
    M("order-kill-before-failing", ["C02"], ["R-BROKEN-ORDER"],
      (PE, """        # Mark pending tasks as failed. Items are removed one by one as the""",
       """        self.kill_workers(reason="broken executor")
        # Mark pending tasks as failed. Items are removed one by one as the""")),
    M("order-no-kill", ["C02"], ["R-BROKEN-ORDER"],
      (PE, """        self.kill_workers(reason="broken executor")

        # clean up resources""", """        # clean up resources""")),
    # ------------------------------------------------------------ R-SUBMIT-GATE
    M("gate-shutdown-before-broken", ["C02"], ["R-SUBMIT-GATE"],
      (PE, """            if self._flags.broken is not None:
                raise self._flags.broken
            if self._flags.shutdown:
                raise ShutdownExecutorError(
                    "cannot schedule new futures after shutdown"
                )
""", """            if self._flags.shutdown:
                raise ShutdownExecutorError(
                    "cannot schedule new futures after shutdown"
                )
            if self._flags.broken is not None:
                raise self._flags.broken
""")),
    M("gate-fresh-broken-error", ["C02"], ["R-SUBMIT-GATE"],
      (PE, """                raise self._flags.broken
            if self._flags.shutdown:""", """                raise BrokenProcessPool("The executor is broken")
            if self._flags.shutdown:""")),
    M("gate-tests-outside-lock", ["C02", "C05"], ["R-SUBMIT-GATE", "R-ID", "R-NULLED"],
      (PE, """        with self._flags.shutdown_lock:
            if self._flags.broken is not None:
                raise self._flags.broken
            if self._flags.shutdown:
                raise ShutdownExecutorError(
                    "cannot schedule new futures after shutdown"
                )
""", """        if self._flags.broken is not None:
            raise self._flags.broken
        if self._flags.shutdown:
            raise ShutdownExecutorError(
                "cannot schedule new futures after shutdown"
            )
        with self._flags.shutdown_lock:
""")),
    # -------------------------------------------------------------- R-EXC-TYPES
    M("types-terminated-not-broken", ["C02"], ["R-EXC-TYPES", "R-BROKEN-PATHS"],
      (PE, """class TerminatedWorkerError(BrokenProcessPool):""", """class TerminatedWorkerError(RuntimeError):""")),
    M("types-own-broken-class", ["C02"], ["R-EXC-TYPES"],
      (PE, """class BrokenProcessPool(_BPPException):""", """class BrokenProcessPool(RuntimeError):""")),
    # --------------------------------------------------------------- R-KILL-TREE
    M("kill-parent-before-children-pgrep", ["C02", "C06"], ["R-KILL-TREE"],
      (UT, """    \"\"\"Recursively kill the descendants of a process before killing it.\"\"\"
    try:""", """    \"\"\"Recursively kill the descendants of a process before killing it.\"\"\"
    _kill(pid)
    try:"""),
      (UT, """        _posix_recursive_kill(cpid)

    _kill(pid)""", """        _posix_recursive_kill(cpid)""")),
    M("kill-only-process-in-kill-workers", ["C02", "C06"], ["R-KILL-TREE", "R-BROKEN-ORDER", "R-KILL-PATH"],
      (PE, """                kill_process_tree(p)
            except ProcessLookupError:  # pragma: no cover
                pass""", """                p.kill()
                p.join()
            except ProcessLookupError:  # pragma: no cover
                pass""")),
    M("kill-psutil-non-recursive", ["C02", "C06"], ["R-KILL-TREE"],
      (UT, """children(recursive=True)""", """children(recursive=False)""")),
    M("kill-psutil-parent-first", ["C02", "C06"], ["R-KILL-TREE"],
      (UT, """    # Kill the descendants in reverse order to avoid killing the parents before
    # the descendant in cases where there are more processes nested.
    for descendant in descendants[::-1]:""", """    try:
        psutil.Process(process.pid).kill()
    except psutil.NoSuchProcess:
        pass
    for descendant in descendants[::-1]:""")),
    M("kill-psutil-no-join", ["C02", "C06", "C20"], ["R-KILL-TREE", "R-LEAK"],
      (UT, """    except psutil.NoSuchProcess:
        pass
    process.join()""", """    except psutil.NoSuchProcess:
        pass""")),
    M("kill-workers-first-only", ["C02", "C06"], ["R-KILL-TREE"],
      (PE, """        while self.processes:
            _, p = self.processes.popitem()
            mp.util.debug(f"terminate process {p.name}, reason: {reason}")""", """        if self.processes:
            _, p = self.processes.popitem()
            mp.util.debug(f"terminate process {p.name}, reason: {reason}")""")),
    # -------------------------------------------------------- R-WORKER-UNPICKLE
    M("unpickle-worker-exit-zero", ["C02"], ["R-WORKER-UNPICKLE"],
      (PE, """            mp.util.debug("Exiting with code 1")
            sys.exit(1)""", """            mp.util.debug("Exiting with code 1")
            sys.exit(0)""")),
    M("unpickle-worker-except-exception", ["C02"], ["R-WORKER-UNPICKLE"],
      (PE, """        except BaseException:
            previous_tb = traceback.format_exc()""", """        except Exception:
            previous_tb = traceback.format_exc()""")),
    # ----------------------------------------------------------- R-SHUTDOWN-API
    M("api-shutdown-flag-without-lock", ["C05"], ["R-SHUTDOWN-API"],
      (PE, """        with self.shutdown_lock:
            self.shutdown = True
            if kill_workers:""", """        if True:
            self.shutdown = True
            if kill_workers:""")),
    M("api-join-outside-global-lock", ["C05"], ["R-SHUTDOWN-API"],
      (PE, """            with _global_shutdown_lock:
                executor_manager_thread.join()
                _threads_wakeups.pop(executor_manager_thread, None)""", """            executor_manager_thread.join()
            _threads_wakeups.pop(executor_manager_thread, None)""")),
    M("api-submit-after-shutdown-runtime-error", ["C05"], ["R-SHUTDOWN-API"],
      (PE, """                raise ShutdownExecutorError(
                    "cannot schedule new futures after shutdown"
                )""", """                raise RuntimeError(
                    "cannot schedule new futures after shutdown"
                )""")),
    # ------------------------------------------------------ R-SHUTTING-DOWN-TABLE
    M("table-broken-shutting-down", ["C05"], ["R-SHUTTING-DOWN-TABLE"],
      (PE, """            (executor is None or self.executor_flags.shutdown)
            and not self.executor_flags.broken
        )""", """            (executor is None or self.executor_flags.shutdown)
        )""")),
    M("table-gc-not-shutting-down", ["C05"], ["R-SHUTTING-DOWN-TABLE"],
      (PE, """            (executor is None or self.executor_flags.shutdown)""", """            (self.executor_flags.shutdown)""")),
    M("table-global-and", ["C05"], ["R-SHUTTING-DOWN-TABLE"],
      (PE, """        return _global_shutdown or (
            (executor is None""", """        return _global_shutdown and (
            (executor is None""")),
    # ----------------------------------------------------------- R-SHUTDOWN-SEQ
    M("seq-no-exit-lock-release", ["C05"], ["R-SHUTDOWN-SEQ"],
      (PE, """                mp.util.debug(f"releasing worker exit lock on {p.name}")
                p._worker_exit_lock.release()
                n_children_to_stop += 1""", """                mp.util.debug(f"releasing worker exit lock on {p.name}")
                n_children_to_stop += 1""")),
    M("seq-one-sentinel-too-few", ["C05"], ["R-SHUTDOWN-SEQ"],
      (PE, """            n_sentinels_sent < n_children_to_stop
            and self.get_n_children_alive() > 0""", """            n_sentinels_sent < n_children_to_stop - 1
            and self.get_n_children_alive() > 0""")),
    M("seq-wakeup-closed-before-queues", ["C05", "C20"], ["R-SHUTDOWN-SEQ"],
      (PE, """        self.shutdown_workers()

        # Release the queue's resources as soon as possible.""", """        self.shutdown_workers()
        with self.shutdown_lock:
            self.thread_wakeup.close()

        # Release the queue's resources as soon as possible.""")),
    M("seq-no-join-all", ["C05", "C20"], ["R-SHUTDOWN-SEQ", "R-LEAK"],
      (PE, """                    pid, p = self.processes.popitem()
                    mp.util.debug(f"joining process {p.name} with pid {pid}")
                    p.join()
                    n_joined_processes += 1""", """                    pid, p = self.processes.popitem()
                    mp.util.debug(f"joining process {p.name} with pid {pid}")
                    n_joined_processes += 1""")),
    M("seq-no-result-queue-close", ["C05", "C20"], ["R-SHUTDOWN-SEQ", "R-LEAK"],
      (PE, """        mp.util.debug("closing result_queue")
        self.result_queue.close()""", """        mp.util.debug("closing result_queue")""")),
    M("seq-release-outside-lock", ["C05"], ["R-SHUTDOWN-SEQ"],
      (PE, """        with self.processes_management_lock:
            n_children_to_stop = 0
            for p in list(self.processes.values()):
                mp.util.debug(f"releasing worker exit lock on {p.name}")
                p._worker_exit_lock.release()
                n_children_to_stop += 1""", """        n_children_to_stop = 0
        for p in list(self.processes.values()):
            mp.util.debug(f"releasing worker exit lock on {p.name}")
            p._worker_exit_lock.release()
            n_children_to_stop += 1""")),
    # --------------------------------------------------------- R-EXIT-HANDSHAKE
    M("handshake-pop-without-lock", ["C05", "C07"], ["R-EXIT-HANDSHAKE"],
      (PE, """            with self.processes_management_lock:
                p = self.processes.pop(result_item, None)""", """            p = self.processes.pop(result_item, None)""")),
    M("handshake-no-join", ["C05", "C07", "C20"], ["R-EXIT-HANDSHAKE", "R-LEAK"],
      (PE, """                p.join()
                del p

            # Make sure the executor have the right number of worker""", """                del p

            # Make sure the executor have the right number of worker""")),
    M("handshake-timeout-flags-broken", ["C07"], ["R-EXIT-HANDSHAKE"],
      (PE, """            # p can be None if the executor is concurrently shutting down.
            if p is not None:""", """            if p is not None and p.exitcode not in (None, 0):
                self.executor_flags.flag_as_broken(TerminatedWorkerError("worker exited"))
            # p can be None if the executor is concurrently shutting down.
            if p is not None:""")),
    # ---------------------------------------------------------- R-NO-STRONG-REF
    M("ref-manager-keeps-executor", ["C05"], ["R-NO-STRONG-REF"],
      (PE, """        self.executor_reference = weakref.ref(executor, weakref_cb)""", """        self.executor_reference = weakref.ref(executor, weakref_cb)
        self._executor = executor""")),
    M("ref-flags-keep-executor", ["C05"], ["R-NO-STRONG-REF"],
      (PE, """        self._flags = _ExecutorFlags(self._shutdown_lock)""", """        self._flags = _ExecutorFlags(self._shutdown_lock)
        self._flags.owner = self""")),
    M("ref-closure-captures-executor", ["C05"], ["R-NO-STRONG-REF"],
      (PE, """            with shutdown_lock:
                thread_wakeup.wakeup()

        self.executor_reference""", """            with shutdown_lock:
                thread_wakeup.wakeup()
            mp.util.debug(f"collected {executor!r}")

        self.executor_reference""")),
    # ------------------------------------------------------------------ R-ATEXIT
    M("atexit-join-before-wake", ["C05"], ["R-ATEXIT"],
      (PE, """    for _, (shutdown_lock, thread_wakeup) in items:
        with shutdown_lock:
            thread_wakeup.wakeup()
""", """    for thread, (shutdown_lock, thread_wakeup) in items:
        with shutdown_lock:
            thread_wakeup.wakeup()
        with _global_shutdown_lock:
            thread.join()
""")),
    M("atexit-registry-before-start", ["C05"], ["R-ATEXIT"],
      (PE, """            self._executor_manager_thread.start()

            # register this executor in a mechanism that ensures it will wakeup
            # when the interpreter is exiting.
            _threads_wakeups[self._executor_manager_thread] = (
                self._shutdown_lock,
                self._executor_manager_thread_wakeup,
            )
""", """            self._executor_manager_thread.start()
""")),
    # ----------------------------------------------------------- R-TIMEOUT-EXIT
    M("timeout-exit-without-probe", ["C07"], ["R-TIMEOUT-EXIT"],
      (PE, """            if processes_management_lock.acquire(block=False):
                processes_management_lock.release()
                call_item = None
            else:
                mp.util.info("Could not acquire processes_management_lock")
                continue""", """            call_item = None""")),
    M("timeout-announce-after-wait", ["C07"], ["R-TIMEOUT-EXIT"],
      (PE, """            result_queue.put(pid)
            is_clean = worker_exit_lock.acquire(True, timeout=30)
""", """            is_clean = worker_exit_lock.acquire(True, timeout=30)
            result_queue.put(pid)
""")),
    M("timeout-no-wait-on-exit-lock", ["C07"], ["R-TIMEOUT-EXIT"],
      (PE, """            is_clean = worker_exit_lock.acquire(True, timeout=30)
""", """            is_clean = True
""")),
    M("timeout-failed-probe-leaves", ["C07"], ["R-TIMEOUT-EXIT"],
      (PE, """                mp.util.info("Could not acquire processes_management_lock")
                continue""", """                mp.util.info("Could not acquire processes_management_lock")
                call_item = None""")),
    M("timeout-leak-exit-without-announce", ["C07"], ["R-TIMEOUT-EXIT"],
      (PE, """                mp.util.info("Memory leak detected: shutting down worker")
                result_queue.put(pid)""", """                mp.util.info("Memory leak detected: shutting down worker")""")),
    # ---------------------------------------------------------- R-RESPAWN-GUARD
    M("respawn-drop-running-disjunct", ["C07"], ["R-RESPAWN-GUARD"],
      (PE, """            if n_pending - n_running > 0 or n_running > len(self.processes):""", """            if n_pending - n_running > 0:""")),
    M("respawn-without-lock", ["C07", "C08"], ["R-RESPAWN-GUARD", "R-SPAWN-LOCKED"],
      (PE, """                    with executor._processes_management_lock:
                        executor._adjust_process_count()""", """                    executor._adjust_process_count()""")),
    M("respawn-removed", ["C07"], ["R-RESPAWN-GUARD"],
      (PE, """                    with executor._processes_management_lock:
                        executor._adjust_process_count()""", """                    pass""")),
    M("respawn-inner-off-by-one", ["C07", "C08"], ["R-RESPAWN-GUARD"],
      (PE, """                    and len(self.processes) < executor._max_workers
                ):""", """                    and len(self.processes) <= executor._max_workers
                ):""")),
    # ------------------------------------------------------------- R-SPAWN-SITE
    M("spawn-loop-le", ["C08"], ["R-SPAWN-SITE"],
      (PE, """        while len(self._processes) < self._max_workers:""", """        while len(self._processes) <= self._max_workers:""")),
    M("spawn-ensure-running-only-when-empty", ["C08", "C07"], ["R-SPAWN-SITE"],
      (PE, """            if len(self._processes) != self._max_workers:
                self._adjust_process_count()""", """            if len(self._processes) == 0:
                self._adjust_process_count()""")),
    M("spawn-ensure-running-without-lock", ["C08", "C07"], ["R-SPAWN-LOCKED"],
      (PE, """        with self._processes_management_lock:
            if len(self._processes) != self._max_workers:
                self._adjust_process_count()
            self._start_executor_manager_thread()""", """        if len(self._processes) != self._max_workers:
            self._adjust_process_count()
        self._start_executor_manager_thread()""")),
    M("spawn-register-before-start", ["C08"], ["R-SPAWN-SITE"],
      (PE, """            p.start()
            self._processes[p.pid] = p""", """            self._processes[p.pid] = p
            p.start()""")),
    # ------------------------------------------------------------ R-EXC-BREADTH
    M("breadth-worker-except-exception", ["C04"], ["R-EXC-BREADTH", "R-TIMEOUT-EXIT"],
      (PE, """            r = call_item()
        except BaseException as e:""", """            r = call_item()
        except Exception as e:""")),
    M("breadth-callbacks-except-exception", ["C04"], ["R-EXC-BREADTH"],
      (BA, """            except BaseException:""", """            except Exception:""")),
    M("breadth-sendback-except-exception", ["C04"], ["R-EXC-BREADTH"],
      (PE, """    except BaseException as e:
        exc = _ExceptionWithTraceback(e)
        result_queue.put(_ResultItem(work_id, exception=exc))""", """    except Exception as e:
        exc = _ExceptionWithTraceback(e)
        result_queue.put(_ResultItem(work_id, exception=exc))""")),
    M("breadth-initializer-continues", ["C04", "C18"], ["R-EXC-BREADTH", "R-INIT-FIRST"],
      (PE, """            # The parent will notice that the process stopped and
            # mark the pool broken
            return""", """            # The parent will notice that the process stopped and
            # mark the pool broken
            pass""")),
    # ------------------------------------------------------------------ R-FEEDER
    M("feeder-no-slot-release", ["C04", "C01"], ["R-FEEDER"],
      (QU, """                    queue_sem.release()
                    onerror(e, obj)""", """                    onerror(e, obj)""")),
    # discarded candidate of seed C05-r6: the release moved into the default hook, which _SafeQueue overrides
    M("feeder-slot-release-in-default-hook", ["C04", "C01"], ["R-FEEDER"],
      (QU, """                    queue_sem.release()
                    onerror(e, obj)""", """                    onerror(e, obj)"""),
      (QU, """        import traceback

        traceback.print_exc()
""", """        import traceback

        traceback.print_exc()
        self._sem.release()
""")),
    M("feeder-pickle-under-lock", ["C04"], ["R-PAIR"],
      (QU, """                    obj_ = dumps(obj, reducers=reducers)
                    sending = True
                    if wacquire is None:
                        send_bytes(obj_)
                    else:
                        wacquire()
                        try:
                            send_bytes(obj_)""", """                    sending = True
                    if wacquire is None:
                        obj_ = dumps(obj, reducers=reducers)
                        send_bytes(obj_)
                    else:
                        wacquire()
                        obj_ = dumps(obj, reducers=reducers)
                        try:
                            send_bytes(obj_)""")),
    M("feeder-release-not-in-finally", ["C04", "C01"], ["R-PAIR"],
      (QU, """                        try:
                            send_bytes(obj_)
                        finally:
                            wrelease()""", """                        send_bytes(obj_)
                        wrelease()""")),
    M("feeder-return-on-any-error", ["C04"], ["R-FEEDER"],
      (QU, """                if ignore_epipe and getattr(e, "errno", 0) == errno.EPIPE:
                    return""", """                if ignore_epipe:
                    return""") if False else (QU, """                if util.is_exiting():""", """                if util.is_exiting() or not isinstance(e, OSError):""")),
    # ------------------------------------------------------------- R-FEEDER-HOOK
    M("hook-flags-broken", ["C04"], ["R-FEEDER-HOOK"],
      (PE, """            work_item = self.pending_work_items.pop(obj.work_id, None)
            self.running_work_items.remove(obj.work_id)""", """            work_item = self.pending_work_items.pop(obj.work_id, None)
            self.flags.flag_as_broken(raised_error)
            self.running_work_items.remove(obj.work_id)"""),
      (PE, """        self.thread_wakeup = thread_wakeup
        self.shutdown_lock = shutdown_lock""", """        self.thread_wakeup = thread_wakeup
        self.flags = _ExecutorFlags(shutdown_lock)
        self.shutdown_lock = shutdown_lock""")),
    M("hook-running-not-removed", ["C04"], ["R-FEEDER-HOOK"],
      (PE, """            self.running_work_items.remove(obj.work_id)
            # work_item can be None if another process terminated. In this""", """            # work_item can be None if another process terminated. In this""")),
    M("hook-wrong-error-type", ["C04"], ["R-FEEDER-HOOK"],
      (PE, """                raised_error = PicklingError(
                    "Could not pickle the task to send it to the workers."
                )""", """                raised_error = ValueError(
                    "Could not pickle the task to send it to the workers."
                )""")),
    # ------------------------------------------------------------------- R-CAUSE
    M("cause-dropped", ["C04"], ["R-CAUSE"],
      (PE, """    exc.__cause__ = _RemoteTraceback(tb)
    return exc""", """    return exc""")),
    M("cause-reduce-swapped", ["C04"], ["R-CAUSE"],
      (PE, """        return _rebuild_exc, (self.exc, self.tb)""", """        return _rebuild_exc, (self.tb, self.exc)""")),
    # ---------------------------------------------------------------------- R-ID
    M("id-key-after-increment", ["C03"], ["R-ID"],
      (PE, """            self._pending_work_items[self._queue_count] = w
            self._work_ids.put(self._queue_count)
            self._queue_count += 1""", """            self._queue_count += 1
            self._pending_work_items[self._queue_count] = w
            self._work_ids.put(self._queue_count - 1)""")),
    # ---------------------------------------------------------------------- round-6 seeds and D24
    M("afterfork-hook-bound-c-method", ["C14"], ["R-AFTER-FORK"],
      (SY, """        def _after_fork(obj):
            obj._semlock._after_fork()

        util.register_after_fork(self, _after_fork)""", """        util.register_after_fork(self, self._semlock._after_fork)""")),
    M("afterfork-hook-resets-nothing", ["C14"], ["R-AFTER-FORK"],
      (SY, """        def _after_fork(obj):
            obj._semlock._after_fork()
""", """        def _after_fork(obj):
            util.debug("after fork")
""")),
    M("afterfork-registry-not-cleared", ["C14"], ["R-AFTER-FORK"],
      (PE, """mp.util.register_after_fork(_threads_wakeups, lambda obj: obj.clear())""",
       """mp.util.register_after_fork(_threads_wakeups, lambda: _threads_wakeups.clear())""")),
    M("killpath-factory-rebinds-kill-workers", ["C06"], ["R-KILL-PATH"],
      (RE, '''                    elif executor._flags.shutdown:
                        reason = "shutdown"''', '''                    elif executor._flags.shutdown:
                        reason = "shutdown"
                        kill_workers = False''')),
    M("ctx-name-loky-overridden-by-default", ["C18"], ["R-CTX-NAME"],
      (CX, '''    method = method or _DEFAULT_START_METHOD or "loky"''', '''    if not method or method == "loky":
        method = _DEFAULT_START_METHOD or "loky"''')),
    M("ctx-name-default-ignored", ["C18"], ["R-CTX-NAME"],
      (CX, '''    method = method or _DEFAULT_START_METHOD or "loky"''', '''    method = method or "loky"''')),
    M("tracker-chdir-root", ["C11", "C13"], ["R-RT-LOOP"],
      (RT, """    if verbose:
        util.debug("Main resource tracker is running")""", """    os.chdir(os.path.abspath(os.sep))
    if verbose:
        util.debug("Main resource tracker is running")""")),
    M("popen-no-kill-D24", ["C02", "C06"], ["R-POPEN-API"],
      (PP, """    def kill(self):
        self._send_signal(signal.SIGKILL)
""", "")),
    M("cpu-probe-before-user-limit", ["C17"], ["R-CPU-PHYSICAL"],
      (CX, '''    if cpu_count_user < os_cpu_count:
        # Respect user setting
        return max(cpu_count_user, 1)

    cpu_count_physical, exception = _count_physical_cores()
''', '''    cpu_count_physical, exception = _count_physical_cores()
    if cpu_count_user < os_cpu_count:
        # Respect user setting
        return max(cpu_count_user, 1)

''')),
    M("relaunch-reset-after-warning", ["C12", "C13"], ["R-RELAUNCH"],
      (RT, '''                self._fd = None
                self._pid = None

                warnings.warn(
                    "resource_tracker: process died unexpectedly, "
                    "relaunching.  Some folders/sempahores might "
                    "leak."
                )
''', '''                warnings.warn(
                    "resource_tracker: process died unexpectedly, "
                    "relaunching.  Some folders/sempahores might "
                    "leak."
                )
                self._fd = None
                self._pid = None
''')),
    M("relaunch-stderr-handler-narrowed", ["C12"], ["R-RELAUNCH"],
      (RT, '''                fds_to_pass.append(sys.stderr.fileno())
            except Exception:
                pass''', '''                fds_to_pass.append(sys.stderr.fileno())
            except (AttributeError, OSError):
                pass''')),
    M("respawn-guard-stale-max-workers", ["C07", "C08"], ["R-RESPAWN-GUARD"],
      (PE, '''        self.processes_management_lock = executor._processes_management_lock

        super().__init__(name="ExecutorManagerThread")''', '''        self.processes_management_lock = executor._processes_management_lock
        self.max_workers = executor._max_workers

        super().__init__(name="ExecutorManagerThread")'''),
      (PE, '''            if n_pending - n_running > 0 or n_running > len(self.processes):
                executor = self.executor_reference()''', '''            if (
                n_pending - n_running > 0 or n_running > len(self.processes)
            ) and len(self.processes) < self.max_workers:
                executor = self.executor_reference()''')),
    M("depth-check-moved-to-spawn", ["C19"], ["R-DEPTH"],
      (PE, '''        _check_max_depth(self._context)

        if result_reducers is None:''', '''        if result_reducers is None:'''),
      (PE, '''    def _adjust_process_count(self):
        while len(self._processes) < self._max_workers:''', '''    def _adjust_process_count(self):
        _check_max_depth(self._context)
        while len(self._processes) < self._max_workers:''')),
    M("launch-payload-pipe-leaks-on-failure-D25", ["C18", "C20"], ["R-SPAWN-FRESH"],
      (PP, '''            for fd in (child_r, child_w, parent_w):''', '''            for fd in (child_r, child_w):''')),
    M("id-consumed-at-end-of-submit", ["C03"], ["R-ID"],
      (PE, """            self._pending_work_items[self._queue_count] = w
            self._work_ids.put(self._queue_count)
            self._queue_count += 1""", """            work_id = self._queue_count
            self._pending_work_items[work_id] = w
            self._work_ids.put(work_id)"""),
      (PE, """            self._executor_manager_thread_wakeup.wakeup()
            return f""", """            self._executor_manager_thread_wakeup.wakeup()
            self._queue_count = work_id + 1
            return f""")),
    M("id-args-kwargs-swapped", ["C03"], ["R-ID"],
      (PE, """                            work_item.fn,
                            work_item.args,
                            work_item.kwargs,""", """                            work_item.fn,
                            work_item.kwargs,
                            work_item.args,""")),
    M("id-result-exception-swapped", ["C03"], ["R-ID"],
      (PE, """            _ResultItem(work_id, result=result, exception=exception)""", """            _ResultItem(work_id, result=exception, exception=result)""")),
    M("id-counter-reset-on-resize", ["C03"], ["R-ID"],
      (RE, """                self._max_workers = max_workers
                return

            self._wait_job_completion()""", """                self._max_workers = max_workers
                return

            self._wait_job_completion()
            self._queue_count = 0""")),
    M("id-increment-outside-lock", ["C03"], ["R-ID"],
      (PE, """            self._work_ids.put(self._queue_count)
            self._queue_count += 1
            # Wake up queue management thread
            self._executor_manager_thread_wakeup.wakeup()

            self._ensure_executor_running()
            # Wake up the queue management thread again once the workers are
            # (re)spawned and registered: it waits on a snapshot of the worker
            # sentinels and would not notice the death of a worker that was
            # registered after that snapshot was taken.
            self._executor_manager_thread_wakeup.wakeup()
            return f""", """            self._work_ids.put(self._queue_count)
            # Wake up queue management thread
            self._executor_manager_thread_wakeup.wakeup()

            self._ensure_executor_running()
            self._executor_manager_thread_wakeup.wakeup()
        self._queue_count += 1
        return f""")),
    M("id-set-result-regardless", ["C03"], ["R-ID", "R-DROP-RESOLVES"],
      (PE, """                if result_item.exception is not None:
                    work_item.future.set_exception(result_item.exception)
                else:
                    work_item.future.set_result(result_item.result)""", """                work_item.future.set_result(result_item.result)""")),
    M("id-call-drops-kwargs", ["C03"], ["R-ID"],
      (PE, """        return self.fn(*self.args, **self.kwargs)""", """        return self.fn(*self.args)""")),
    # -------------------------------------------------------------------- R-ONCE
    M("once-dispatch-cancelled", ["C03"], ["R-ONCE", "R-DROP-RESOLVES"],
      (PE, """                if work_item.future.set_running_or_notify_cancel():""", """                work_item.future.set_running_or_notify_cancel()
                if True:""")),
    M("once-requeue-on-respawn", ["C03"], ["R-ONCE"],
      (PE, """                    with executor._processes_management_lock:
                        executor._adjust_process_count()""", """                    with executor._processes_management_lock:
                        executor._adjust_process_count()
                    for work_id in self.running_work_items:
                        self.work_ids_queue.put(work_id)""")),
    M("once-worker-retry", ["C03"], ["R-ONCE"],
      (PE, """        try:
            r = call_item()
        except BaseException as e:""", """        try:
            try:
                r = call_item()
            except OSError:
                r = call_item()
        except BaseException as e:""")),
    # ------------------------------------------------------------- R-KILL-PATH
    M("killpath-factory-drops-kill-workers", ["C06"], ["R-KILL-PATH"],
      (RE, """                    executor.shutdown(wait=True, kill_workers=kill_workers)""", """                    executor.shutdown(wait=True)""")),
    M("killpath-manager-resets-flag", ["C06"], ["R-KILL-PATH"],
      (PE, """            self.shutdown = True
            if kill_workers:""", """            self.shutdown = True
            self.kill_workers = bool(kill_workers)
            if False:""")),
    M("killpath-kill-before-failing", ["C06"], ["R-KILL-PATH"],
      (PE, """        if self.executor_flags.kill_workers:
            while self.pending_work_items:""", """        if self.executor_flags.kill_workers:
            self.kill_workers(reason="executor shutting down")
            while self.pending_work_items:""")),
    M("killpath-pending-not-failed", ["C06", "C01"], ["R-KILL-PATH", "R-MGR-EXIT", "R-DROP-RESOLVES"],
      (PE, """            while self.pending_work_items:
                try:
                    _, work_item = self.pending_work_items.popitem()
                except KeyError:
                    # The feeder thread of the call queue can concurrently
                    # remove (and fail) an item it could not serialize.
                    break
                try:
                    work_item.future.set_exception(
                        ShutdownExecutorError(
                            "The Executor was shutdown with `kill_workers=True` "
                            "before this job could complete."
                        )
                    )
                except InvalidStateError:
                    # set_exception() fails if the future was cancelled while
                    # it was still queued: nothing to report to it.
                    pass
                del work_item
""", """            self.pending_work_items.clear()
""")),
    M("killpath-wrong-exception", ["C06"], ["R-KILL-PATH"],
      (PE, """                    work_item.future.set_exception(
                        ShutdownExecutorError(
                            "The Executor was shutdown with `kill_workers=True` \"""", """                    work_item.future.set_exception(
                        RuntimeError(
                            "The Executor was shutdown with `kill_workers=True` \"""")),
    # ------------------------------------------------------------- R-SINGLETON
    M("singleton-read-outside-lock", ["C09"], ["R-SINGLETON"],
      (RE, """        with _executor_lock:
            global _executor, _executor_kwargs
            executor = _executor
""", """        global _executor, _executor_kwargs
        executor = _executor
        with _executor_lock:
""")),
    M("singleton-replace-ignores-shutdown", ["C09"], ["R-SINGLETON"],
      (RE, """                if (
                    executor._flags.broken
                    or executor._flags.shutdown
                    or not reuse
                ):""", """                if (
                    executor._flags.broken
                    or not reuse
                ):""")),
    M("singleton-kwargs-omit-env", ["C09"], ["R-SINGLETON"],
      (RE, """                initargs=initargs,
                env=env,
            )
            if executor is None:""", """                initargs=initargs,
            )
            if executor is None:""")),
    M("singleton-replacement-no-wait", ["C09"], ["R-SINGLETON"],
      (RE, """                    executor.shutdown(wait=True, kill_workers=kill_workers)""", """                    executor.shutdown(wait=False, kill_workers=kill_workers)""")),
    M("singleton-public-drops-initargs", ["C09"], ["R-SINGLETON"],
      (RE, """        initializer=initializer,
        initargs=initargs,
        env=env,
    )
    return _executor""", """        initializer=initializer,
        env=env,
    )
    return _executor""")),
    M("singleton-stale-kwargs-stored", ["C09"], ["R-SINGLETON"],
      (RE, """                executor_id = _get_next_executor_id()
                _executor_kwargs = kwargs
""", """                executor_id = _get_next_executor_id()
""")),
    M("singleton-reset-before-shutdown", ["C09"], ["R-SINGLETON"],
      (RE, """                    executor.shutdown(wait=True, kill_workers=kill_workers)
                    _executor = executor = _executor_kwargs = None""", """                    previous = executor
                    _executor = executor = _executor_kwargs = None
                    previous.shutdown(wait=True, kill_workers=kill_workers)""") if False else
      (RE, """                    executor.shutdown(wait=True, kill_workers=kill_workers)
                    _executor = executor = _executor_kwargs = None
                    # Recursive call to build a new instance
                    return cls.get_reusable_executor(
                        max_workers=max_workers, **kwargs
                    )""", """                    previous = executor
                    _executor = executor = _executor_kwargs = None
                    # Recursive call to build a new instance
                    new = cls.get_reusable_executor(
                        max_workers=max_workers, **kwargs
                    )
                    previous.shutdown(wait=True, kill_workers=kill_workers)
                    return new""")),
    M("singleton-reuse-without-resize", ["C09"], ["R-SINGLETON"],
      (RE, """                    is_reused = True
                    executor._resize(max_workers)""", """                    is_reused = True""")),
    M("singleton-id-not-incremented", ["C09"], ["R-SINGLETON"],
      (RE, """        executor_id = _next_executor_id
        _next_executor_id += 1
        return executor_id""", """        executor_id = _next_executor_id
        _next_executor_id = executor_id
        return executor_id""")),
    M("singleton-rex-init-drops-timeout", ["C09"], ["R-SINGLETON"],
      (RE, """            context=context,
            timeout=timeout,
            job_reducers=job_reducers,""", """            context=context,
            job_reducers=job_reducers,""")),
    # ---------------------------------------------------------------- R-RESIZE
    M("resize-submit-without-lock", ["C10"], ["R-RESIZE"],
      (RE, """        with self._submit_resize_lock:
            return super().submit(fn, *args, **kwargs)""", """        return super().submit(fn, *args, **kwargs)""")),
    M("resize-no-wait-for-jobs", ["C10"], ["R-RESIZE"],
      (RE, """            self._wait_job_completion()

            # Some process might have returned""", """            # Some process might have returned""")),
    M("resize-max-workers-after-sentinels", ["C10"], ["R-RESIZE"],
      (RE, """                self._max_workers = max_workers
                for _ in range(max_workers, nb_children_alive):
                    self._call_queue.put(None)""", """                for _ in range(max_workers, nb_children_alive):
                    self._call_queue.put(None)
            self._max_workers = max_workers""")),
    M("resize-sentinel-count-from-table-size", ["C10"], ["R-RESIZE"],
      (RE, """                for _ in range(max_workers, nb_children_alive):""", """                for _ in range(max_workers, len(processes) + 1):""")),
    M("resize-kills-surplus", ["C10"], ["R-RESIZE"],
      (RE, """                for _ in range(max_workers, nb_children_alive):
                    self._call_queue.put(None)""", """                for p in processes[max_workers:]:
                    p.terminate()""")),
    # -------------------------------------------------------------- R-RT-TABLE
    M("rt-unlink-at-or-below-zero", ["C11"], ["R-RT-TABLE"],
      (RT, """                        if registry[rtype][name] == 0:""", """                        if registry[rtype][name] <= 1:""")),
    M("rt-unregister-no-delete", ["C11", "C13"], ["R-RT-TABLE"],
      (RT, """                        del registry[rtype][name]
                        if verbose:
                            util.debug(
                                f"[ResourceTracker] unregister {name} {rtype}: \"""", """                        registry[rtype][name] -= 1
                        if verbose:
                            util.debug(
                                f"[ResourceTracker] unregister {name} {rtype}: \"""")),
    M("rt-register-resets-count", ["C11"], ["R-RT-TABLE"],
      (RT, """                        if name not in registry[rtype]:
                            registry[rtype][name] = 1
                        else:
                            registry[rtype][name] += 1""", """                        registry[rtype][name] = 1""")),
    M("rt-decrement-after-test", ["C11"], ["R-RT-TABLE"],
      (RT, """                        registry[rtype][name] -= 1
                        if verbose:
                            util.debug(
                                "[ResourceTracker] decremented refcount of \"""", """                        if verbose:
                            util.debug(
                                "[ResourceTracker] decremented refcount of \""""),
      (RT, """                                    f"resource_tracker: {name}: {e!r}"
                                )
""", """                                    f"resource_tracker: {name}: {e!r}"
                                )
                        else:
                            registry[rtype][name] -= 1
""")),
    M("rt-cleanup-on-unregister", ["C11"], ["R-RT-TABLE"],
      (RT, """                        del registry[rtype][name]
                        if verbose:
                            util.debug(
                                f"[ResourceTracker] unregister {name} {rtype}: \"""", """                        del registry[rtype][name]
                        _CLEANUP_FUNCS[rtype](name)
                        if verbose:
                            util.debug(
                                f"[ResourceTracker] unregister {name} {rtype}: \"""")),
    M("rt-no-delete-at-zero", ["C11"], ["R-RT-TABLE"],
      (RT, """                        if registry[rtype][name] == 0:
                            del registry[rtype][name]
                            try:""", """                        if registry[rtype][name] == 0:
                            try:""")),
    M("rt-unknown-type-checked-late", ["C11"], ["R-RT-TABLE"],
      (RT, """                    if rtype not in _CLEANUP_FUNCS:
                        raise ValueError(""", """                    if rtype not in _CLEANUP_FUNCS and cmd != "REGISTER":
                        raise ValueError(""")),
    # -------------------------------------------------------------- R-RT-SWEEP
    # D10 (fixed in /repo): the report of a failing cleanup raises under -W error and aborts the sweep
    M("rt-sweep-report-unguarded-D10", ["C11", "C13"], ["R-RT-SWEEP"],
      (RT, """                    try:
                        warnings.warn(f"resource_tracker: {name}: {e!r}")
                    except Exception:
                        pass
""", """                    warnings.warn(f"resource_tracker: {name}: {e!r}")
""")),
    M("rt-sweep-leak-warning-narrow-handler", ["C11", "C13"], ["R-RT-SWEEP"],
      (RT, """                        "clean up at shutdown"
                    )
                except Exception:
                    pass""", """                        "clean up at shutdown"
                    )
                except OSError:
                    pass""")),
    M("rt-sweep-cleanup-narrow-handler", ["C11", "C13"], ["R-RT-SWEEP"],
      (RT, """                        util.debug(f"[ResourceTracker] unlink {name}")
                except Exception as e:""", """                        util.debug(f"[ResourceTracker] unlink {name}")
                except OSError as e:""")),
    M("rt-sweep-debug-before-loop", ["C11", "C13"], ["R-RT-SWEEP"],
      (RT, """        for rtype, rtype_registry in registry.items():
            if rtype == "folder":
                continue""", """        warnings.warn("resource_tracker: end of life")
        for rtype, rtype_registry in registry.items():
            if rtype == "folder":
                continue""")),
    # ------------------------------------------- R-TRACKER-SHIP (install before user code)
    M("ship-main-fixup-before-tracker-install", ["C12"], ["R-TRACKER-SHIP"],
      (SP, """    if "mp_tracker_args" in data:
        from multiprocessing.resource_tracker import (""", """    if "init_main_from_name" in data:
        _fixup_main_from_name(data["init_main_from_name"])
    if "mp_tracker_args" in data:
        from multiprocessing.resource_tracker import (""")),
    M("ship-child-unpickles-before-prepare", ["C12"], ["R-TRACKER-SHIP"],
      (PP, """                prep_data = pickle.load(from_parent)
                spawn.prepare(prep_data)
                process_obj = pickle.load(from_parent)""", """                prep_data = pickle.load(from_parent)
                process_obj = pickle.load(from_parent)
                spawn.prepare(prep_data)""")),
    # ------------------------------------------------- R-KILL-PATH (flag writer)
    M("kill-flag-sticky-first-mode", ["C06"], ["R-KILL-PATH"],
      (PE, """        with self.shutdown_lock:
            self.shutdown = True
            if kill_workers:""", """        with self.shutdown_lock:
            if self.shutdown:
                return
            self.shutdown = True
            if kill_workers:""")),
    M("kill-flag-only-when-not-shutdown", ["C06"], ["R-KILL-PATH"],
      (PE, """            self.shutdown = True
            if kill_workers:""", """            if kill_workers and not self.shutdown:
                self.kill_workers = True
            self.shutdown = True
            if False:""")),
    M("rt-sweep-only-folders-in-loop", ["C11", "C13"], ["R-RT-SWEEP"],
      (RT, """            if rtype == "folder":
                continue
            else:
                _unlink_resources(rtype_registry, rtype)""", """            if rtype != "folder":
                continue
            else:
                _unlink_resources(rtype_registry, rtype)""")),
    M("rt-sweep-folders-never", ["C11"], ["R-RT-SWEEP"],
      (RT, """        if "folder" in registry:
            _unlink_resources(registry["folder"], "folder")""", """        if "folder" not in registry:
            _unlink_resources(registry["folder"], "folder")""")),
    M("rt-sweep-semlock-skipped", ["C11", "C13"], ["R-RT-SWEEP"],
      (RT, """            if rtype == "folder":
                continue
            else:""", """            if rtype in ("folder", "semlock"):
                continue
            else:""")),
    M("relaunch-probe-polarity", ["C12"], ["R-RELAUNCH"],
      (RT, """            if self._fd is not None:
                # resource tracker was launched before, is it still running?""", """            if self._fd is None:
                # resource tracker was launched before, is it still running?""")),
    M("relaunch-reap-narrow-handler", ["C12"], ["R-RELAUNCH"],
      (RT, """                        os.waitpid(self._pid, 0)
                    except OSError:""", """                        os.waitpid(self._pid, 0)
                    except InterruptedError:""")),
    # D11 (fixed in /repo): the depth is installed after the initializer ran
    M("depth-installed-after-initializer-D11", ["C19"], ["R-DEPTH"],
      (PE, """    global _CURRENT_DEPTH
    _CURRENT_DEPTH = current_depth

    if initializer is not None:
        try:
            initializer(*initargs)
        except BaseException:
            LOGGER.critical("Exception in initializer:", exc_info=True)
            # The parent will notice that the process stopped and
            # mark the pool broken
            return
""", """    global _CURRENT_DEPTH
    if initializer is not None:
        try:
            initializer(*initargs)
        except BaseException:
            LOGGER.critical("Exception in initializer:", exc_info=True)
            # The parent will notice that the process stopped and
            # mark the pool broken
            return
    _CURRENT_DEPTH = current_depth
""")),
    M("shutdown-snapshot-before-flag", ["C05"], ["R-SHUTDOWN-API"],
      (PE, """        self._flags.flag_as_shutting_down(kill_workers)
        executor_manager_thread = self._executor_manager_thread
        executor_manager_thread_wakeup = self._executor_manager_thread_wakeup
""", """        executor_manager_thread = self._executor_manager_thread
        executor_manager_thread_wakeup = self._executor_manager_thread_wakeup
        self._flags.flag_as_shutting_down(kill_workers)
""")),
    M("pickler-restored-before-result-is-sent", ["C15"], ["R-PICKLER-NAME"],
      (PE, """        set_loky_pickler(self.loky_pickler)
        return self.fn(*self.args, **self.kwargs)""", """        previous = get_loky_pickler_name()
        set_loky_pickler(self.loky_pickler)
        try:
            return self.fn(*self.args, **self.kwargs)
        finally:
            set_loky_pickler(previous)""")),
    M("pickler-reset-in-worker-before-sendback", ["C15"], ["R-PICKLER-NAME"],
      (PE, """            r = call_item()
        except BaseException as e:""", """            r = call_item()
            set_loky_pickler()
        except BaseException as e:""")),
    # ------------------------------------- kill tree: polarity / totality
    M("killtree-dispatch-inverted", ["C02", "C06", "C20"], ["R-KILL-TREE"],
      (UT, """    if use_psutil and psutil is not None:""", """    if use_psutil and psutil is None:""")),
    M("killtree-kill-sends-nothing", ["C06"], ["R-KILL-TREE"],
      (UT, """    try:
        os.kill(pid, kill_signal)
    except OSError as e:""", """    try:
        os.getpgid(pid)
    except OSError as e:""")),
    M("killtree-esrch-inverted", ["C06"], ["R-KILL-TREE"],
      (UT, """        if e.errno != errno.ESRCH:""", """        if e.errno == errno.ESRCH:""")),
    M("killtree-pgrep-no-children-raises", ["C06"], ["R-KILL-TREE"],
      (UT, """        if e.returncode == 1:
            children_pids = \"\"
        else:
            raise  # pragma: no cover""", """        if e.returncode != 1:
            children_pids = \"\"
        else:
            raise  # pragma: no cover""")),
    M("killtree-descendant-handler-narrow", ["C06"], ["R-KILL-TREE"],
      (UT, """            descendant.kill()
        except psutil.NoSuchProcess:""", """            descendant.kill()
        except psutil.AccessDenied:""")),
    M("killtree-fallback-handler-narrow", ["C06"], ["R-KILL-TREE"],
      (UT, """    except Exception:  # pragma: no cover
        details = traceback.format_exc()""", """    except OSError:  # pragma: no cover
        details = traceback.format_exc()""")),
    M("killtree-fallback-does-not-kill-worker", ["C06"], ["R-KILL-TREE"],
      (UT, """        # which in turns calls the Win32 API function TerminateProcess().
        process.kill()
    process.join()""", """        # which in turns calls the Win32 API function TerminateProcess().
    process.join()""")),
    # ------------------------------------- Event probes
    M("event-is-set-consumes-flag", ["C14"], ["R-EVENT-LOCKED"],
      (SY, """    def is_set(self):
        with self._cond:
            if self._flag.acquire(False):
                self._flag.release()
                return True""", """    def is_set(self):
        with self._cond:
            if self._flag.acquire(False):
                return True""")),
    M("event-is-set-inverted", ["C14"], ["R-EVENT-LOCKED"],
      (SY, """    def is_set(self):
        with self._cond:
            if self._flag.acquire(False):""", """    def is_set(self):
        with self._cond:
            if not self._flag.acquire(False):""")),
    M("event-wait-first-probe-consumes", ["C14"], ["R-EVENT-LOCKED"],
      (SY, """            if self._flag.acquire(False):
                self._flag.release()
            else:
                self._cond.wait(timeout)""", """            if self._flag.acquire(False):
                pass
            else:
                self._cond.wait(timeout)""")),
    M("event-wait-first-probe-inverted", ["C14"], ["R-EVENT-LOCKED"],
      (SY, """            if self._flag.acquire(False):
                self._flag.release()
            else:
                self._cond.wait(timeout)""", """            if not self._flag.acquire(False):
                self._flag.release()
            else:
                self._cond.wait(timeout)""")),
    # ------------------------------------- feeder loop
    M("feeder-drops-popped-object", ["C01", "C04"], ["R-FEEDER"],
      (QU, """                        wacquire()
                        try:
                            send_bytes(obj_)
                        finally:
                            wrelease()""", """                        wacquire()
                        try:
                            pass
                        finally:
                            wrelease()""")),
    M("feeder-sentinel-test-inverted", ["C01", "C05"], ["R-FEEDER"],
      (QU, """                    if obj is sentinel:""", """                    if obj is not sentinel:""")),
    M("feeder-busy-loop", ["C01"], ["R-FEEDER"],
      (QU, """                    if not buffer:
                        nwait()""", """                    if buffer:
                        nwait()""")),
    M("feeder-thread-not-started", ["C01"], ["R-FEEDER"],
      (QU, """        util.debug("doing self._thread.start()")
        self._thread.start()""", """        util.debug("doing self._thread.start()")""")),
    # ------------------------------------- Empty / Full
    M("mgr-total-work-ids-empty-unhandled", ["C01", "C02"], ["R-MGR-TOTAL"],
      (PE, """                work_id = self.work_ids_queue.get(block=False)
            except queue.Empty:""", """                work_id = self.work_ids_queue.get(block=False)
            except queue.Full:""")),
    M("mgr-total-sentinel-post-full-unhandled", ["C05"], ["R-MGR-TOTAL"],
      (PE, """                    self.call_queue.put_nowait(None)
                    n_sentinels_sent += 1
                except queue.Full as e:""", """                    self.call_queue.put_nowait(None)
                    n_sentinels_sent += 1
                except OSError as e:""")),
    M("mgr-total-worker-idle-timeout-unhandled", ["C01"], ["R-MGR-TOTAL"],
      (PE, """        except queue.Empty:
            mp.util.info(f"Shutting down worker after timeout {timeout:0.3f}s")""", """        except TimeoutError:
            mp.util.info(f"Shutting down worker after timeout {timeout:0.3f}s")""")),
    M("ship-install-gate-inverted", ["C12"], ["R-TRACKER-SHIP"],
      (SP, """    if "tracker_args" in data:
        from .resource_tracker import _resource_tracker""", """    if "tracker_args" not in data:
        from .resource_tracker import _resource_tracker""")),
    M("ship-fd-written-only-on-win32", ["C12"], ["R-TRACKER-SHIP"],
      (SP, """    if sys.platform == "win32":
        d["tracker_args"]["fh"] = msvcrt.get_osfhandle(_resource_tracker._fd)
    else:
        d["tracker_args"]["fd"] = _resource_tracker._fd""", """    if sys.platform == "win32":
        d["tracker_args"]["fh"] = msvcrt.get_osfhandle(_resource_tracker._fd)""")),
    M("respawn-guard-true-when-idle", ["C07"], ["R-RESPAWN-GUARD"],
      (PE, """            if n_pending - n_running > 0 or n_running > len(self.processes):""", """            if n_pending - n_running >= 0 or n_running > len(self.processes):""")),
    M("cause-unpickle-diagnosis-without-traceback", ["C04"], ["R-CAUSE"],
      (PE, """                    bpe.__cause__ = result_item
                else:""", """                else:""")),
    M("cause-result-diagnosis-without-error", ["C04"], ["R-CAUSE"],
      (PE, """                bpe.__cause__ = _RemoteTraceback("".join(tb))

        elif wakeup_reader in ready:""", """
        elif wakeup_reader in ready:""")),
    # ------------------------------------- reusable executor: polarity
    M("resize-same-size-test-inverted", ["C09", "C10"], ["R-RESIZE"],
      (RE, """            elif max_workers == self._max_workers:
                return""", """            elif max_workers != self._max_workers:
                return""")),
    M("resize-unstarted-does-not-record-size", ["C09", "C10"], ["R-RESIZE"],
      (RE, """                # update _max_workers and return
                self._max_workers = max_workers
                return""", """                # update _max_workers and return
                return""")),
    M("resize-unstarted-test-inverted", ["C10"], ["R-RESIZE"],
      (RE, """            if self._executor_manager_thread is None:
                # If the executor_manager_thread has not been started""", """            if self._executor_manager_thread is not None:
                # If the executor_manager_thread has not been started""")),
    M("resize-shrink-wait-never-ends", ["C09", "C10"], ["R-RESIZE"],
      (RE, """                len(self._processes) > max_workers and not self._flags.broken""", """                len(self._processes) >= max_workers and not self._flags.broken""")),
    M("singleton-auto-test-inverted", ["C09"], ["R-SINGLETON"],
      (RE, """                if reuse == "auto":
                    reuse = kwargs == _executor_kwargs""", """                if reuse != "auto":
                    reuse = kwargs == _executor_kwargs""")),
    M("singleton-create-test-inverted", ["C09"], ["R-SINGLETON"],
      (RE, """            if executor is None:
                is_reused = False""", """            if executor is not None:
                is_reused = False""")),
    # ------------------------------------- pickler selection / wrapper dispatch polarity
    M("select-same-name-test-inverted", ["C15"], ["R-PICKLER-SELECT"],
      (RD, """    if loky_pickler == _loky_pickler_name:
        return""", """    if loky_pickler != _loky_pickler_name:
        return""")),
    M("select-env-overrides-explicit", ["C15"], ["R-PICKLER-SELECT"],
      (RD, """    if loky_pickler is None:
        loky_pickler = ENV_LOKY_PICKLER""", """    if loky_pickler is not None:
        loky_pickler = ENV_LOKY_PICKLER""")),
    M("select-register-drops-reducer", ["C15"], ["R-PICKLER-SELECT"],
      (RD, """            self.dispatch_table[type] = reduce_func""", """            pass""")),
    M("select-module-reducers-not-merged", ["C15"], ["R-PICKLER-SELECT"],
      (RD, """            loky_dt.update(_dispatch_table)""", """            pass""")),
    M("wrap-isclass-test-inverted", ["C16"], ["R-WRAP-DISPATCH"],
      (CW, """    if inspect.isclass(obj):
        # Make sure the wrapped instances""", """    if not inspect.isclass(obj):
        # Make sure the wrapped instances""")),
    M("wrap-getattr-inverted", ["C16"], ["R-WRAP-DISPATCH"],
      (CW, """        if attr not in ["_obj", "_keep_wrapper"]:""", """        if attr in ["_obj", "_keep_wrapper"]:""")),
    M("cpu-cgroup-v2-test-inverted", ["C17"], ["R-CPU-HELPERS"],
      (CX, """    if os.path.exists(cpu_max_fname):""", """    if not os.path.exists(cpu_max_fname):""")),
    M("cpu-cgroup-v1-needs-only-quota", ["C17"], ["R-CPU-HELPERS"],
      (CX, """    elif os.path.exists(cfs_quota_fname) and os.path.exists(cfs_period_fname):""", """    elif os.path.exists(cfs_quota_fname) or os.path.exists(cfs_period_fname):""")),
    M("cpu-affinity-test-inverted", ["C17"], ["R-CPU-HELPERS"],
      (CX, """    if hasattr(os, "sched_getaffinity"):""", """    if not hasattr(os, "sched_getaffinity"):""")),
    M("launch-finaliser-test-inverted", ["C20"], ["R-EXITCODE"],
      (PP, """            if parent_r is not None:
                util.Finalize(self, os.close, (parent_r,))""", """            if parent_r is None:
                util.Finalize(self, os.close, (parent_r,))""")),
    M("launch-child-ends-not-closed", ["C20", "C02"], ["R-EXITCODE"],
      (PP, """                if fd is not None:
                    os.close(fd)""", """                if fd is None:
                    os.close(fd)""")),
    M("poll-returncode-test-inverted", ["C02", "C20"], ["R-EXITCODE"],
      (PP, """    def poll(self, flag=os.WNOHANG):
        if self.returncode is None:""", """    def poll(self, flag=os.WNOHANG):
        if self.returncode is not None:""")),
    M("poll-waitpid-handler-narrow", ["C02"], ["R-EXITCODE"],
      (PP, """                    pid, sts = os.waitpid(self.pid, flag)
                except OSError:""", """                    pid, sts = os.waitpid(self.pid, flag)
                except InterruptedError:""")),
    # ------------------------------------- R-MAP-SHAPE
    M("map-chain-reversed", ["C03"], ["R-MAP-SHAPE"],
      (PE, """        element.reverse()
        while element:""", """        while element:""")),
    M("map-runner-filters-falsy-args", ["C03"], ["R-MAP-SHAPE"],
      (PE, """    return [fn(*args) for args in chunk]""", """    return [fn(*args) for args in chunk if args]""")),
    M("map-chunker-rezips-per-chunk", ["C03"], ["R-MAP-SHAPE"],
      (PE, """    it = zip(*iterables)
    while True:
        chunk = tuple(itertools.islice(it, chunksize))""", """    while True:
        it = zip(*iterables)
        chunk = tuple(itertools.islice(it, chunksize))""")),
    M("map-chunker-stops-on-nonempty", ["C03"], ["R-MAP-SHAPE"],
      (PE, """        if not chunk:
            return
        yield chunk""", """        if chunk:
            return
        yield chunk""")),
    M("map-chunk-size-off-by-one", ["C03"], ["R-MAP-SHAPE"],
      (PE, """        chunk = tuple(itertools.islice(it, chunksize))""", """        chunk = tuple(itertools.islice(it, chunksize - 1))""")),
    M("map-returns-unchained-results", ["C03"], ["R-MAP-SHAPE"],
      (PE, """        return _chain_from_iterable_of_lists(results)""", """        return results""")),
    M("map-ignores-timeout", ["C03"], ["R-MAP-SHAPE"],
      (PE, """            _get_chunks(chunksize, *iterables),
            timeout=timeout,
        )""", """            _get_chunks(chunksize, *iterables),
        )""")),
    # D12 (fixed in /repo): the forced-shutdown loop pops from a table the feeder's error hook pops from too
    M("mgr-total-kill-path-popitem-unhandled-D12", ["C01", "C02", "C06"], ["R-MGR-TOTAL"],
      (PE, """                try:
                    _, work_item = self.pending_work_items.popitem()
                except KeyError:
                    # The feeder thread of the call queue can concurrently
                    # remove (and fail) an item it could not serialize.
                    break
""", """                _, work_item = self.pending_work_items.popitem()
""")),
    M("mgr-total-terminate-broken-popitem-narrow", ["C01", "C02"], ["R-MGR-TOTAL"],
      (PE, """                _, work_item = self.pending_work_items.popitem()
            except KeyError:
                break""", """                _, work_item = self.pending_work_items.popitem()
            except IndexError:
                break""")),
    M("feeder-send-without-lock-on-posix", ["C01", "C04"], ["R-PAIR"],
      (QU, """                    if wacquire is None:
                        send_bytes(obj_)""", """                    if wacquire is not None:
                        send_bytes(obj_)""")),
    M("killtree-kill-handler-narrow", ["C06"], ["R-KILL-TREE"],
      (UT, """        os.kill(pid, kill_signal)
    except OSError as e:""", """        os.kill(pid, kill_signal)
    except PermissionError as e:""")),
    M("select-queue-reducers-reset", ["C15"], ["R-PICKLER-SELECT"],
      (RD, """            if reducers is None:
                reducers = {}""", """            if reducers is not None:
                reducers = {}""")),
    M("select-dispatch-table-source-inverted", ["C15"], ["R-PICKLER-SELECT"],
      (RD, """            if hasattr(self, "dispatch_table"):""", """            if not hasattr(self, "dispatch_table"):""")),
    M("singleton-default-size-inverted", ["C09"], ["R-SINGLETON"],
      (RE, """                if reuse is True and executor is not None:
                    max_workers = executor._max_workers""", """                if not (reuse is True and executor is not None):
                    max_workers = executor._max_workers""")),
    # ------------------------------------- round-3 seeds
    M("feeder-popped-object-overwritten-by-bytes", ["C01", "C04"], ["R-FEEDER"],
      (QU, """                    obj_ = dumps(obj, reducers=reducers)
                    sending = True
                    if wacquire is None:
                        send_bytes(obj_)
                    else:
                        wacquire()
                        try:
                            send_bytes(obj_)
                        finally:
                            wrelease()
                    # Remove references early to avoid leaking memory
                    del obj, obj_""", """                    obj = dumps(obj, reducers=reducers)
                    sending = True
                    if wacquire is None:
                        send_bytes(obj)
                    else:
                        wacquire()
                        try:
                            send_bytes(obj)
                        finally:
                            wrelease()
                    # Remove references early to avoid leaking memory
                    del obj""")),
    M("spawn-routine-early-return-at-exit", ["C07", "C08"], ["R-SPAWN-SITE"],
      (PE, """    def _adjust_process_count(self):
""", """    def _adjust_process_count(self):
        if _global_shutdown:
            return
""")),
    M("map-chunker-slices-each-iterable", ["C03"], ["R-MAP-SHAPE"],
      (PE, """    it = zip(*iterables)
    while True:
        chunk = tuple(itertools.islice(it, chunksize))
        if not chunk:
            return
        yield chunk""", """    iterators = [iter(iterable) for iterable in iterables]
    while iterators:
        chunk = tuple(tuple(itertools.islice(it, chunksize)) for it in iterators)
        if not all(chunk):
            return
        yield chunk"""),
      (PE, """    return [fn(*args) for args in chunk]""", """    return list(map(fn, *chunk))""")),
    M("resize-noop-compares-table-length", ["C08", "C09", "C10"], ["R-RESIZE"],
      (RE, """            elif max_workers == self._max_workers:
                return""", """            elif max_workers == len(self._processes):
                return""")),
    M("rt-table-rows-shared-fromkeys", ["C11", "C13"], ["R-RT-TABLE"],
      (RT, """    registry = {rtype: {} for rtype in _CLEANUP_FUNCS.keys()}""", """    registry = dict.fromkeys(_CLEANUP_FUNCS, {})""")),
    M("rt-proto-name-cut-at-first-colon", ["C11", "C13"], ["R-RT-PROTO"],
      (RT, """                    splitted = line.strip().decode("ascii").split(":")
                    # name can potentially contain separator symbols (for
                    # instance folders on Windows)
                    cmd, name, rtype = (
                        splitted[0],
                        ":".join(splitted[1:-1]),
                        splitted[-1],
                    )""", """                    msg = line.strip().decode("ascii")
                    cmd, _, msg = msg.partition(":")
                    name, _, rtype = msg.partition(":")""")),
    M("rt-main-detaches-std-fds-by-number", ["C12", "C13"], ["R-RT-LOOP"],
      (RT, """    if verbose:
        util.debug("Main resource tracker is running")""", """    devnull = os.open(os.devnull, os.O_RDWR)
    for std_fd in (0, 1):
        os.dup2(devnull, std_fd)
    if verbose:
        util.debug("Main resource tracker is running")""")),
    M("spawn-env-overlay-drops-empty-values", ["C18", "C20"], ["R-SPAWN-FRESH"],
      (PR, """        self.env = {} if env is None else env""", """        self.env = {key: value for key, value in dict(env or {}).items() if value}""")),
    # D14 (fixed in /repo): the resize goes on to top up a pool that broke while it was waiting
    M("resize-topup-into-broken-pool-D14", ["C09", "C10"], ["R-RESIZE"],
      (RE, """            if self._flags.broken:
                # A worker died while the pool was being resized: the executor
                # manager thread kills all the workers and closes the queues,
                # there is nothing left to adjust. The next call to
                # get_reusable_executor creates a new executor.
                return

            self._adjust_process_count()""", """            self._adjust_process_count()""")),
    M("feeder-close-finaliser-not-stored", ["C05", "C20"], ["R-FEEDER"],
      (QU, """        self._close = util.Finalize(
            self,
            Queue._finalize_close,
            [self._buffer, self._notempty],
            exitpriority=10,
        )""", """        util.Finalize(
            self,
            Queue._finalize_close,
            [self._buffer, self._notempty],
            exitpriority=10,
        )""")),
    # ------------------------------------- argument order / defaults / token value (operators ARGSWAP, DEFAULT, CONST of the sweep)
    M("handshake-pop-args-swapped", ["C05", "C07"], ["R-EXIT-HANDSHAKE"],
      (PE, """                p = self.processes.pop(result_item, None)""", """                p = self.processes.pop(None, result_item)""")),
    M("spawn-exit-lock-two-units", ["C07", "C08"], ["R-SPAWN-SITE"],
      (PE, """            worker_exit_lock = self._context.BoundedSemaphore(1)""", """            worker_exit_lock = self._context.BoundedSemaphore(2)""")),
    M("shutdown-default-kills-workers", ["C05"], ["R-SHUTDOWN-API"],
      (PE, """    def shutdown(self, wait=True, kill_workers=False):""", """    def shutdown(self, wait=True, kill_workers=True):""")),
    M("shutdown-default-does-not-wait", ["C05"], ["R-SHUTDOWN-API"],
      (PE, """    def shutdown(self, wait=True, kill_workers=False):""", """    def shutdown(self, wait=False, kill_workers=False):""")),
    M("select-register-args-swapped", ["C15"], ["R-PICKLER-SELECT"],
      (RD, """                self.register(type, reduce_func)""", """                self.register(reduce_func, type)""")),
    M("wrap-rebuild-args-swapped", ["C16"], ["R-WRAP-DISPATCH"],
      (CW, """    return _wrap_non_picklable_objects(obj, keep_wrapper)""", """    return _wrap_non_picklable_objects(keep_wrapper, obj)""")),
    M("shutdown-purges-cancelled-items-still-queued", ["C01", "C03", "C05"], ["R-DROP-RESOLVES"],
      (PE, """            if self.is_shutting_down():
                self.flag_executor_shutting_down()
""", """            if self.is_shutting_down():
                self.flag_executor_shutting_down()
                for work_id, work_item in list(self.pending_work_items.items()):
                    if work_item.future.cancelled():
                        work_item.future.set_running_or_notify_cancel()
                        del self.pending_work_items[work_id]
""")),
    M("cpu-cgroup-v2-fields-swapped", ["C17"], ["R-CPU-HELPERS"],
      (CX, """            cpu_quota_us, cpu_period_us = fh.read().strip().split()""", """            cpu_period_us, cpu_quota_us = fh.read().strip().split()""")),
    M("launch-sentinel-is-write-end", ["C02", "C20"], ["R-EXITCODE"],
      (PP, """            parent_r, child_w = os.pipe()""", """            child_w, parent_r = os.pipe()""")),
    # ------------------------------------------------------- R-SCN-* (polarity)
    M("scn-wakeup-inverted", ["C01", "C02", "C05"], ["R-SCN-WAKEPRIM"],
      (PE, """    def wakeup(self):
        if not self._closed:""", """    def wakeup(self):
        if self._closed:""")),
    M("scn-clear-inverted-poll", ["C01", "C05"], ["R-SCN-WAKEPRIM"],
      (PE, """            while self._reader.poll():""", """            while not self._reader.poll():""")),
    M("scn-close-does-not-record", ["C01", "C20"], ["R-SCN-WAKEPRIM"],
      (PE, """        if not self._closed:
            self._closed = True
            self._writer.close()""", """        if not self._closed:
            self._writer.close()""")),
    M("scn-wakeup-born-closed", ["C01"], ["R-SCN-WAKEPRIM"],
      (PE, """        self._closed = False
        self._reader, self._writer""", """        self._closed = True
        self._reader, self._writer""")),
    M("scn-worker-leave-test-inverted", ["C01", "C05", "C07"], ["R-SCN-WORKER"],
      (PE, """        if call_item is None:
            # Notify queue management thread about worker shutdown""", """        if call_item is not None:
            # Notify queue management thread about worker shutdown""")),
    M("scn-worker-timeout-keeps-stale-item", ["C07"], ["R-SCN-WORKER"],
      (PE, """                processes_management_lock.release()
                call_item = None""", """                processes_management_lock.release()""")),
    M("scn-worker-trylock-inverted", ["C07"], ["R-SCN-WORKER"],
      (PE, """            if processes_management_lock.acquire(block=False):
                processes_management_lock.release()
                call_item = None
            else:
                mp.util.info("Could not acquire processes_management_lock")
                continue""", """            if not processes_management_lock.acquire(block=False):
                call_item = None
            else:
                processes_management_lock.release()
                mp.util.info("Could not acquire processes_management_lock")
                continue""")),
    M("scn-worker-no-nested-exit-hook", ["C01"], ["R-SCN-WORKER"],
      (PE, """            _python_exit()

            if is_clean:""", """            if is_clean:""")),
    M("scn-manager-result-test-inverted", ["C01", "C02"], ["R-SCN-MANAGER"],
      (PE, """            if result_item is not None:
                self.process_result_item(result_item)""", """            if result_item is None:
                self.process_result_item(result_item)""")),
    M("scn-manager-shutting-down-inverted", ["C01", "C05"], ["R-SCN-MANAGER"],
      (PE, """            if self.is_shutting_down():
                self.flag_executor_shutting_down()""", """            if not self.is_shutting_down():
                self.flag_executor_shutting_down()""")),
    M("scn-manager-exits-with-pending", ["C05"], ["R-SCN-MANAGER"],
      (PE, """                if not self.pending_work_items:
                    self.join_executor_internals()
                    return""", """                if self.pending_work_items:
                    self.join_executor_internals()
                    return""")),
    M("scn-terminate-broken-loop-inverted", ["C01", "C02"], ["R-SCN-MANAGER"],
      (PE, """        while self.pending_work_items:
            try:
                _, work_item = self.pending_work_items.popitem()""", """        while not self.pending_work_items:
            try:
                _, work_item = self.pending_work_items.popitem()""")),
    M("scn-kill-path-loop-inverted", ["C06"], ["R-SCN-MANAGER"],
      (PE, """            while self.pending_work_items:
                try:
                    _, work_item = self.pending_work_items.popitem()
                except KeyError:
                    # The feeder thread""", """            while not self.pending_work_items:
                try:
                    _, work_item = self.pending_work_items.popitem()
                except KeyError:
                    # The feeder thread""")),
    M("scn-result-pid-test-inverted", ["C01", "C07"], ["R-SCN-RESULT"],
      (PE, """        if isinstance(result_item, int):
            # Clean shutdown of a worker using its PID""", """        if not isinstance(result_item, int):
            # Clean shutdown of a worker using its PID""")),
    M("scn-result-running-id-kept", ["C01", "C03", "C07"], ["R-SCN-RESULT"],
      (PE, """                    work_item.future.set_result(result_item.result)
                self.running_work_items.remove(result_item.work_id)""", """                    work_item.future.set_result(result_item.result)""")),
    M("scn-feeder-hook-inverted", ["C01", "C04"], ["R-SCN-FEEDER"],
      (PE, """    def _on_queue_feeder_error(self, e, obj):
        if isinstance(obj, _CallItem):""", """    def _on_queue_feeder_error(self, e, obj):
        if not isinstance(obj, _CallItem):""")),
    M("scn-start-manager-inverted", ["C01", "C05"], ["R-SCN-START"],
      (PE, """        if self._executor_manager_thread is None:
            mp.util.debug("_start_executor_manager_thread called")""", """        if self._executor_manager_thread is not None:
            mp.util.debug("_start_executor_manager_thread called")""")),
    M("scn-atexit-registration-inverted", ["C05"], ["R-SCN-START"],
      (PE, """            if process_pool_executor_at_exit is None:""", """            if process_pool_executor_at_exit is not None:""")),
    M("scn-submit-global-shutdown-inverted", ["C01", "C02", "C05"], ["R-SCN-START"],
      (PE, """            if _global_shutdown:
                raise RuntimeError(""", """            if not _global_shutdown:
                raise RuntimeError(""")),
    # --------------------------------------------------------------- R-RT-LOOP
    M("rt-barrier-except-exception", ["C11", "C12"], ["R-RT-LOOP"],
      (RT, """                except BaseException:
                    try:
                        sys.excepthook(*sys.exc_info())""", """                except Exception:
                    try:
                        sys.excepthook(*sys.exc_info())""")),
    M("rt-barrier-breaks", ["C11", "C12"], ["R-RT-LOOP"],
      (RT, """                    except BaseException:
                        pass
    finally:""", """                    except BaseException:
                        break
    finally:""")),
    M("rt-folders-first", ["C11", "C13"], ["R-RT-LOOP"],
      (RT, """        for rtype, rtype_registry in registry.items():
            if rtype == "folder":
                continue
            else:
                _unlink_resources(rtype_registry, rtype)
""", """        if "folder" in registry:
            _unlink_resources(registry["folder"], "folder")
        for rtype, rtype_registry in registry.items():
            if rtype == "folder":
                continue
            else:
                _unlink_resources(rtype_registry, rtype)
"""),
      (RT, """        # other resource types.
        if "folder" in registry:
            _unlink_resources(registry["folder"], "folder")
""", """        # other resource types.
""")),
    M("rt-sweep-not-in-finally", ["C11", "C13"], ["R-RT-LOOP"],
      (RT, """    try:
        # keep track of registered/unregistered resources
        if sys.platform == "win32":""", """    if True:
        # keep track of registered/unregistered resources
        if sys.platform == "win32":"""),
      (RT, """                        pass
    finally:
        # all processes have terminated; cleanup any remaining resources""", """                        pass
    if True:
        # all processes have terminated; cleanup any remaining resources""")),
    M("rt-stop-on-blank-line", ["C11", "C12"], ["R-RT-LOOP"],
      (RT, """                if line == b"":  # EOF
                    break""", """                if not line.strip():  # EOF
                    break""")),
    # -------------------------------------------------------------- R-RT-PROTO
    M("rt-name-truncated-at-colon", ["C11"], ["R-RT-PROTO"],
      (RT, """                        ":".join(splitted[1:-1]),""", """                        splitted[1],""")),
    M("rt-maybe-unlink-renamed-client-only", ["C11"], ["R-RT-PROTO"],
      (RT, """        self._send("MAYBE_UNLINK", name, rtype)""", """        self._send("UNLINK", name, rtype)""")),
    M("rt-semlock-cleanup-missing", ["C11", "C13"], ["R-RT-PROTO"],
      (RT, """if os.name == "posix":
    _CLEANUP_FUNCS["semlock"] = sem_unlink""", """if os.name == "nt":
    _CLEANUP_FUNCS["semlock"] = sem_unlink""")),
    # ---------------------------------------------------------- R-TRACKER-SHIP
    M("ship-read-before-ensure-running", ["C12"], ["R-TRACKER-SHIP"],
      (SP, """    _resource_tracker.ensure_running()
    d["tracker_args"] = {"pid": _resource_tracker._pid}""", """    d["tracker_args"] = {"pid": _resource_tracker._pid}
    _resource_tracker.ensure_running()""")),
    M("ship-fd-key-mismatch", ["C12"], ["R-TRACKER-SHIP"],
      (SP, """        d["tracker_args"]["fd"] = _resource_tracker._fd""", """        d["tracker_args"]["fh"] = _resource_tracker._fd""")),
    M("ship-tracker-fd-not-kept", ["C12"], ["R-TRACKER-SHIP"],
      (PP, """            self._fds += [child_r, child_w, tracker_fd]""", """            self._fds += [child_r, child_w]""")),
    M("ship-pid-fd-swapped-in-prepare", ["C12"], ["R-TRACKER-SHIP"],
      (SP, """        _resource_tracker._pid = data["tracker_args"]["pid"]""", """        _resource_tracker._pid = data["tracker_args"]["fd"]""")),
    # ------------------------------------------------------------------- R-SIG
    M("sig-sigterm-not-ignored", ["C12"], ["R-SIG"],
      (RT, """    signal.signal(signal.SIGTERM, signal.SIG_IGN)
""", "")),
    M("sig-unblock-not-in-finally", ["C12"], ["R-SIG"],
      (RT, """                    pid = spawnv_passfds(exe, args, fds_to_pass)
                finally:
                    if _HAVE_SIGMASK:""", """                    pid = spawnv_passfds(exe, args, fds_to_pass)
                    if _HAVE_SIGMASK:"""),
      (RT, """                try:
                    if _HAVE_SIGMASK:
                        signal.pthread_sigmask(
                            signal.SIG_BLOCK, _IGNORED_SIGNALS
                        )""", """                if True:
                    if _HAVE_SIGMASK:
                        signal.pthread_sigmask(
                            signal.SIG_BLOCK, _IGNORED_SIGNALS
                        )""")),
    M("sig-block-after-spawn", ["C12"], ["R-SIG"],
      (RT, """                    if _HAVE_SIGMASK:
                        signal.pthread_sigmask(
                            signal.SIG_BLOCK, _IGNORED_SIGNALS
                        )
                    pid = spawnv_passfds(exe, args, fds_to_pass)""", """                    pid = spawnv_passfds(exe, args, fds_to_pass)
                    if _HAVE_SIGMASK:
                        signal.pthread_sigmask(
                            signal.SIG_BLOCK, _IGNORED_SIGNALS
                        )""")),
    M("sig-unmask-before-ignore", ["C12"], ["R-SIG"],
      (RT, """    signal.signal(signal.SIGINT, signal.SIG_IGN)
    signal.signal(signal.SIGTERM, signal.SIG_IGN)

    if _HAVE_SIGMASK:
        signal.pthread_sigmask(signal.SIG_UNBLOCK, _IGNORED_SIGNALS)
""", """    if _HAVE_SIGMASK:
        signal.pthread_sigmask(signal.SIG_UNBLOCK, _IGNORED_SIGNALS)

    signal.signal(signal.SIGINT, signal.SIG_IGN)
    signal.signal(signal.SIGTERM, signal.SIG_IGN)
""")),
    # -------------------------------------------------------------- R-RELAUNCH
    M("relaunch-dead-tracker-returns", ["C12"], ["R-RELAUNCH"],
      (RT, """                    "leak."
                )
""", """                    "leak."
                )
                return
""")),
    M("relaunch-fd-installed-before-spawn", ["C12"], ["R-RELAUNCH"],
      (RT, """            cmd = f"from {main.__module__} import main; main({r}, {VERBOSE})"
            try:""", """            cmd = f"from {main.__module__} import main; main({r}, {VERBOSE})"
            self._fd = w
            try:""")),
    M("relaunch-read-end-not-closed", ["C12", "C20"], ["R-RELAUNCH"],
      (RT, """                else:
                    os.close(r)


_resource_tracker""", """                else:
                    pass


_resource_tracker""")),
    M("relaunch-without-lock", ["C12"], ["R-RELAUNCH"],
      (RT, """        with self._lock:
            if self._fd is not None:
                # resource tracker was launched before, is it still running?""", """        if True:
            if self._fd is not None:
                # resource tracker was launched before, is it still running?""")),
    M("relaunch-maybe-unlink-no-ensure", ["C12"], ["R-RELAUNCH"],
      (RT, """        self.ensure_running()
        self._send("MAYBE_UNLINK", name, rtype)""", """        self._send("MAYBE_UNLINK", name, rtype)""")),
    # -------------------------------------------------------------- R-SEM-LIFE
    M("sem-register-other-name", ["C13"], ["R-SEM-LIFE"],
      (SY, """        resource_tracker.register(self._semlock.name, "semlock")""", """        resource_tracker.register(self.name, "semlock")""")),
    M("sem-unregister-outside-finally", ["C13"], ["R-SEM-LIFE"],
      (SY, """        try:
            sem_unlink(name)
        except FileNotFoundError:
            # Already unlinked, possibly by user code: ignore and make sure to
            # unregister the semaphore from the resource tracker.
            pass
        finally:
            resource_tracker.unregister(name, "semlock")""", """        try:
            sem_unlink(name)
        except FileNotFoundError:
            # Already unlinked, possibly by user code: ignore and make sure to
            # unregister the semaphore from the resource tracker.
            return
        resource_tracker.unregister(name, "semlock")""")),
    M("sem-register-in-setstate", ["C13"], ["R-SEM-LIFE"],
      (SY, """        self._semlock = _SemLock._rebuild(*state)""", """        self._semlock = _SemLock._rebuild(*state)
        resource_tracker.register(self._semlock.name, "semlock")""")),
    M("sem-no-finalizer", ["C13"], ["R-SEM-LIFE"],
      (SY, """        util.Finalize(
            self, SemLock._cleanup, (self._semlock.name,), exitpriority=0
        )
""", "")),
    M("sem-register-only-for-generated-names", ["C13"], ["R-SEM-LIFE"],
      (SY, """        resource_tracker.register(self._semlock.name, "semlock")""", """        if name is None:
            resource_tracker.register(self._semlock.name, "semlock")""")),
    M("sem-lock-bypasses-semlock-init", ["C13", "C14"], ["R-SEM-LIFE", "R-SEM-TABLE"],
      (SY, """class Lock(SemLock):
    def __init__(self):
        super().__init__(SEMAPHORE, 1, 1)""", """class Lock(SemLock):
    def __init__(self):
        self._semlock = _SemLock(SEMAPHORE, 1, 1, SemLock._make_name(), False)
        self.name = None
        self._make_methods()""")),
    # ------------------------------------------------------------ R-CTX-FACTORY
    M("ctx-lock-from-multiprocessing", ["C13", "C14"], ["R-CTX-FACTORY"],
      (CX, """            from .synchronize import Lock

            return Lock()""", """            from multiprocessing.synchronize import Lock

            return Lock(ctx=self.get_context())""")),
    # -------------------------------------------------------------- R-SEM-TABLE
    M("table-lock-unbounded", ["C14"], ["R-SEM-TABLE"],
      (SY, """        super().__init__(SEMAPHORE, 1, 1)""", """        super().__init__(SEMAPHORE, 1, SEM_VALUE_MAX)""")),
    M("table-rlock-not-recursive", ["C14"], ["R-SEM-TABLE"],
      (SY, """        super().__init__(RECURSIVE_MUTEX, 1, 1)""", """        super().__init__(SEMAPHORE, 1, 1)""")),
    M("table-bounded-semaphore-unbounded", ["C14"], ["R-SEM-TABLE"],
      (SY, """        SemLock.__init__(self, SEMAPHORE, value, value)""", """        SemLock.__init__(self, SEMAPHORE, value, SEM_VALUE_MAX)""")),
    M("table-kinds-swapped", ["C14"], ["R-SEM-TABLE"],
      (SY, """RECURSIVE_MUTEX, SEMAPHORE = range(2)""", """SEMAPHORE, RECURSIVE_MUTEX = range(2)""")),
    # -------------------------------------------------------------- R-STATE-SYM
    M("state-condition-swapped", ["C14"], ["R-STATE-SYM"],
      (SY, """        (
            self._lock,
            self._sleeping_count,
            self._woken_count,
            self._wait_semaphore,
        ) = state""", """        (
            self._lock,
            self._woken_count,
            self._sleeping_count,
            self._wait_semaphore,
        ) = state""")),
    M("state-queue-drops-reducers", ["C15"], ["R-STATE-SYM"],
      (QU, """            self._reader,
            self._writer,
            self._reducers,
            self._rlock,
            self._wlock,
        )

    def __setstate__(self, state):
        (
            self._reader,
            self._writer,
            self._reducers,
            self._rlock,
            self._wlock,
        ) = state""", """            self._reader,
            self._writer,
            self._rlock,
            self._wlock,
        )

    def __setstate__(self, state):
        (
            self._reader,
            self._writer,
            self._rlock,
            self._wlock,
        ) = state
        self._reducers = None""")),
    # -------------------------------------------------------------- R-COND-PAIR
    M("cond-woken-release-outside-finally", ["C14"], ["R-COND-PAIR"],
      (SY, """        try:
            # wait for notification or timeout
            return self._wait_semaphore.acquire(True, timeout)
        finally:
            # indicate that this thread has woken
            self._woken_count.release()

            # reacquire lock""", """        # indicate that this thread has woken
        try:
            # wait for notification or timeout
            res = self._wait_semaphore.acquire(True, timeout)
            self._woken_count.release()
            return res
        finally:
            # reacquire lock""")),
    M("cond-lock-released-before-sleeping", ["C14"], ["R-COND-PAIR"],
      (SY, """        # indicate that this thread is going to sleep
        self._sleeping_count.release()

        # release lock
        count = self._lock._semlock._count()
        for _ in range(count):
            self._lock.release()
""", """        # release lock
        count = self._lock._semlock._count()
        for _ in range(count):
            self._lock.release()

        # indicate that this thread is going to sleep
        self._sleeping_count.release()
""")),
    M("cond-reacquire-once", ["C14"], ["R-COND-PAIR"],
      (SY, """            # reacquire lock
            for _ in range(count):
                self._lock.acquire()""", """            # reacquire lock
            self._lock.acquire()""")),
    M("cond-wait-returns-true", ["C14"], ["R-COND-PAIR"],
      (SY, """            return self._wait_semaphore.acquire(True, timeout)""", """            self._wait_semaphore.acquire(True, timeout)
            return True""")),
    # ------------------------------------------------------------ R-COND-TOKENS
    M("tokens-notify-no-rezero", ["C14"], ["R-COND-TOKENS"],
      (SY, """            self._woken_count.acquire()  # wait for the sleeper to wake

            # rezero _wait_semaphore in case a timeout just happened
            self._wait_semaphore.acquire(False)""", """            self._woken_count.acquire()  # wait for the sleeper to wake""")),
    M("tokens-notify-all-waits-one", ["C14"], ["R-COND-TOKENS"],
      (SY, """            for _ in range(sleepers):
                self._woken_count.acquire()  # wait for a sleeper to wake""", """            self._woken_count.acquire()  # wait for a sleeper to wake""")),
    M("tokens-notify-wakes-without-sleeper", ["C14"], ["R-COND-TOKENS"],
      (SY, """        if self._sleeping_count.acquire(False):  # try grabbing a sleeper
            self._wait_semaphore.release()  # wake up one sleeper""", """        self._wait_semaphore.release()  # wake up one sleeper
        if self._sleeping_count.acquire(False):  # try grabbing a sleeper""")),
    M("tokens-drain-without-sleeper-acquire", ["C14"], ["R-COND-TOKENS"],
      (SY, """        while self._woken_count.acquire(False):
            res = self._sleeping_count.acquire(False)
            assert res

        if self._sleeping_count.acquire(False):  # try grabbing a sleeper""", """        while self._woken_count.acquire(False):
            pass

        if self._sleeping_count.acquire(False):  # try grabbing a sleeper""")),
    # ----------------------------------------------------------- R-EVENT-LOCKED
    M("event-set-notifies-one", ["C14"], ["R-EVENT-LOCKED"],
      (SY, """            self._flag.release()
            self._cond.notify_all()""", """            self._flag.release()
            self._cond.notify()""")),
    M("event-wait-returns-cond-result", ["C14"], ["R-EVENT-LOCKED"],
      (SY, """            else:
                self._cond.wait(timeout)

            if self._flag.acquire(False):
                self._flag.release()
                return True
            return False""", """            else:
                return self._cond.wait(timeout)
            return True""")),
    M("event-is-set-outside-cond", ["C14"], ["R-EVENT-LOCKED"],
      (SY, """    def is_set(self):
        with self._cond:
            if self._flag.acquire(False):
                self._flag.release()
                return True
            return False""", """    def is_set(self):
        if self._flag.acquire(False):
            self._flag.release()
            return True
        return False""")),
    M("event-set-double-release", ["C14"], ["R-EVENT-LOCKED"],
      (SY, """            self._flag.acquire(False)
            self._flag.release()
            self._cond.notify_all()""", """            self._flag.release()
            self._cond.notify_all()""")),
    # ---------------------------------------------------------- R-PICKLER-FRESH
    M("fresh-no-copy-of-class-table", ["C15"], ["R-PICKLER-FRESH"],
      (RD, """                loky_dt = dict(self.dispatch_table)""", """                loky_dt = self.dispatch_table""")),
    M("fresh-copyreg-not-copied", ["C15"], ["R-PICKLER-FRESH"],
      (RD, """                loky_dt = copyreg.dispatch_table.copy()""", """                loky_dt = copyreg.dispatch_table""")),
    M("fresh-register-before-install", ["C15"], ["R-PICKLER-FRESH"],
      (RD, """            self._set_dispatch_table(loky_dt)

            # Register the reducers
            for type, reduce_func in reducers.items():
                self.register(type, reduce_func)""", """            # Register the reducers
            for type, reduce_func in reducers.items():
                self.register(type, reduce_func)
            self._set_dispatch_table(loky_dt)""")),
    M("fresh-user-reducers-into-module-table", ["C15"], ["R-PICKLER-FRESH", "R-REGISTER-WHO"],
      (RD, """            for type, reduce_func in reducers.items():
                self.register(type, reduce_func)""", """            for type, reduce_func in reducers.items():
                _dispatch_table[type] = reduce_func
                self.register(type, reduce_func)""")),
    # ----------------------------------------------------------- R-REGISTER-WHO
    M("who-register-at-runtime", ["C15"], ["R-REGISTER-WHO"],
      (RD, """    buf = io.BytesIO()
    dump(obj, buf, reducers=reducers, protocol=protocol)""", """    buf = io.BytesIO()
    for type_, reduce_function in (reducers or {}).items():
        register(type_, reduce_function)
    dump(obj, buf, reducers=reducers, protocol=protocol)""")),
    # ---------------------------------------------------------- R-REDUCERS-FLOW
    M("flow-result-queue-gets-job-reducers", ["C15"], ["R-REDUCERS-FLOW"],
      (PE, """        self._result_queue = SimpleQueue(
            reducers=result_reducers, ctx=self._context
        )""", """        self._result_queue = SimpleQueue(
            reducers=job_reducers, ctx=self._context
        )""")),
    M("flow-no-default-for-result-reducers", ["C15"], ["R-REDUCERS-FLOW"],
      (PE, """        if result_reducers is None:
            result_reducers = job_reducers
""", "")),
    M("flow-simplequeue-put-ignores-reducers", ["C15"], ["R-REDUCERS-FLOW"],
      (QU, """        obj = dumps(obj, reducers=self._reducers)""", """        obj = dumps(obj)""")),
    M("flow-feeder-args-shifted", ["C15"], ["R-REDUCERS-FLOW"],
      (QU, """                self._writer.close,
                self._reducers,
                self._ignore_epipe,""", """                self._writer.close,
                self._ignore_epipe,
                self._reducers,""")),
    M("flow-dump-drops-reducers", ["C15"], ["R-REDUCERS-FLOW"],
      (RD, """    _LokyPickler(file, reducers=reducers, protocol=protocol).dump(obj)""", """    _LokyPickler(file, protocol=protocol).dump(obj)""")),
    # ----------------------------------------------------------- R-PICKLER-NAME
    M("name-worker-does-not-reselect", ["C15"], ["R-PICKLER-NAME"],
      (PE, """        set_loky_pickler(self.loky_pickler)
        return self.fn(*self.args, **self.kwargs)""", """        return self.fn(*self.args, **self.kwargs)""")),
    M("name-reselect-after-call", ["C15"], ["R-PICKLER-NAME"],
      (PE, """        set_loky_pickler(self.loky_pickler)
        return self.fn(*self.args, **self.kwargs)""", """        res = self.fn(*self.args, **self.kwargs)
        set_loky_pickler(self.loky_pickler)
        return res""")),
    # ----------------------------------------------------------- R-REDUCE-ARITY
    M("arity-partial-drops-keywords", ["C15"], ["R-REDUCE-ARITY"],
      (RD, """    return _rebuild_partial, (p.func, p.args, p.keywords or {})""", """    return _rebuild_partial, (p.func, p.args)""")),
    M("arity-partial-swapped", ["C15"], ["R-REDUCE-ARITY"],
      (RD, """    return _rebuild_partial, (p.func, p.args, p.keywords or {})""", """    return _rebuild_partial, (p.func, p.keywords or {}, p.args)""")),
    M("arity-rebuild-partial-ignores-keywords", ["C15"], ["R-REDUCE-ARITY"],
      (RD, """    return functools.partial(func, *args, **keywords)""", """    return functools.partial(func, *args)""")),
    # ---------------------------------------------------------- R-WRAP-DISPATCH
    M("wrap-class-fixed-base", ["C16"], ["R-WRAP-DISPATCH"],
      (CW, """        class CloudpickledClassWrapper(base_wrapper):""", """        class CloudpickledClassWrapper(CloudpickledObjectWrapper):""")),
    M("wrap-always-callable", ["C16"], ["R-WRAP-DISPATCH"],
      (CW, """    if callable(obj):
        return CallableObjectWrapper(obj, keep_wrapper=keep_wrapper)
    return CloudpickledObjectWrapper(obj, keep_wrapper=keep_wrapper)""", """    return CallableObjectWrapper(obj, keep_wrapper=keep_wrapper)""")),
    M("wrap-reconstruct-bypasses-dispatch", ["C16"], ["R-WRAP-DISPATCH"],
      (CW, """    obj = loads(_pickled_object)
    return _wrap_non_picklable_objects(obj, keep_wrapper)""", """    obj = loads(_pickled_object)
    return CloudpickledObjectWrapper(obj, keep_wrapper)""")),
    # ------------------------------------------------------------ R-WRAP-FIELDS
    M("wrap-class-wrapper-no-keep-flag", ["C16"], ["R-WRAP-FIELDS"],
      (CW, """                self._obj = obj(*args, **kwargs)
                self._keep_wrapper = keep_wrapper""", """                self._obj = obj(*args, **kwargs)""")),
    M("wrap-getattr-excludes-wrong-names", ["C16"], ["R-WRAP-FIELDS"],
      (CW, """        if attr not in ["_obj", "_keep_wrapper"]:""", """        if attr not in ["_obj"]:""")),
    M("wrap-class-wrapper-drops-kwargs", ["C16"], ["R-WRAP-FIELDS"],
      (CW, """                self._obj = obj(*args, **kwargs)""", """                self._obj = obj(*args)""")),
    # ------------------------------------------------------------ R-WRAP-REDUCE
    M("wrap-reduce-inverted", ["C16"], ["R-WRAP-REDUCE"],
      (CW, """        if not self._keep_wrapper:
            return loads, (_pickled_object,)""", """        if self._keep_wrapper:
            return loads, (_pickled_object,)""")),
    M("wrap-reduce-loses-flag", ["C16"], ["R-WRAP-REDUCE"],
      (CW, """        return _reconstruct_wrapper, (_pickled_object, self._keep_wrapper)""", """        return _reconstruct_wrapper, (_pickled_object, False)""")),
    # --------------------------------------------------------------- R-CPU-TERM
    M("cpu-max-becomes-min", ["C17"], ["R-CPU-TERM"],
      (CX, """    aggregate_cpu_count = max(min(os_cpu_count, cpu_count_user), 1)""", """    aggregate_cpu_count = min(min(os_cpu_count, cpu_count_user), 1)""")),
    M("cpu-no-lower-bound", ["C17"], ["R-CPU-TERM"],
      (CX, """    aggregate_cpu_count = max(min(os_cpu_count, cpu_count_user), 1)""", """    aggregate_cpu_count = min(os_cpu_count, cpu_count_user)""")),
    M("cpu-env-leaf-dropped", ["C17"], ["R-CPU-TERM"],
      (CX, """    return min(cpu_count_affinity, cpu_count_cgroup, cpu_count_loky)""", """    return min(cpu_count_affinity, cpu_count_cgroup)""")),
    M("cpu-env-default-wrong", ["C17"], ["R-CPU-TERM"],
      (CX, """    cpu_count_loky = int(os.environ.get("LOKY_MAX_CPU_COUNT", os_cpu_count))""", """    cpu_count_loky = int(os.environ.get("LOKY_MAX_CPU_COUNT", 1))""")),
    M("cpu-os-none-not-handled", ["C17"], ["R-CPU-TERM"],
      (CX, """    os_cpu_count = os.cpu_count() or 1""", """    os_cpu_count = os.cpu_count()""")),
    # ------------------------------------------------------------ R-CPU-HELPERS
    M("cpu-cgroup-floor", ["C17"], ["R-CPU-HELPERS"],
      (CX, """            return math.ceil(cpu_quota_us / cpu_period_us)""", """            return math.floor(cpu_quota_us / cpu_period_us)""")),
    M("cpu-cgroup-no-positive-guard", ["C17"], ["R-CPU-HELPERS"],
      (CX, """        if cpu_quota_us > 0 and cpu_period_us > 0:""", """        if cpu_period_us > 0:""")),
    M("cpu-cgroup-ratio-inverted", ["C17"], ["R-CPU-HELPERS"],
      (CX, """            return math.ceil(cpu_quota_us / cpu_period_us)""", """            return math.ceil(cpu_period_us / cpu_quota_us)""")),
    # ----------------------------------------------------------- R-CPU-PHYSICAL
    M("cpu-physical-ignores-user-limit", ["C17"], ["R-CPU-PHYSICAL"],
      (CX, """    if cpu_count_user < os_cpu_count:
        # Respect user setting
        return max(cpu_count_user, 1)
""", "")),
    M("cpu-physical-zero-accepted", ["C17"], ["R-CPU-PHYSICAL"],
      (CX, """        if cpu_count_physical < 1:
            raise ValueError(f"found {cpu_count_physical} physical cores < 1")
""", "")),
    M("cpu-physical-failure-not-cached", ["C17"], ["R-CPU-PHYSICAL"],
      (CX, """    except Exception as e:
        exception = e
        cpu_count_physical = "not found"

    # Put the result in cache
    physical_cores_cache = cpu_count_physical
""", """        # Put the result in cache
        physical_cores_cache = cpu_count_physical
    except Exception as e:
        exception = e
        cpu_count_physical = "not found"
""")),
    M("cpu-physical-user-limit-can-be-zero", ["C17"], ["R-CPU-PHYSICAL"],
      (CX, """        return max(cpu_count_user, 1)""", """        return cpu_count_user""")),
    # ----------------------------------------------------------- R-SPAWN-FRESH
    M("fresh-close-fds-false", ["C18"], ["R-SPAWN-FRESH"],
      (FE, """            True,  # close_fds""", """            False,  # close_fds""")),
    M("fresh-env-overlay-first", ["C18"], ["R-SPAWN-FRESH"],
      (FE, """    env = {**os.environ, **env}""", """    env = {**env, **os.environ}""")),
    M("fresh-parent-end-in-keep-list", ["C18", "C20"], ["R-SPAWN-FRESH"],
      (PP, """            self._fds += [child_r, child_w, tracker_fd]""", """            self._fds += [child_r, child_w, parent_r, tracker_fd]""")),
    M("fresh-child-ends-not-closed", ["C18", "C20"], ["R-SPAWN-FRESH"],
      (PP, """            for fd in (child_r, child_w, parent_w):
                if fd is not None:
                    os.close(fd)""", """            for fd in (child_r, parent_w):
                if fd is not None:
                    os.close(fd)""")),
    M("fresh-launch-drops-env", ["C18"], ["R-SPAWN-FRESH"],
      (PP, """            pid = fork_exec(cmd_python, self._fds, env=process_obj.env)""", """            pid = fork_exec(cmd_python, self._fds)""")),
    M("fresh-errpipe-leak", ["C18", "C20"], ["R-SPAWN-FRESH"],
      (FE, """    finally:
        os.close(errpipe_read)
        os.close(errpipe_write)""", """    finally:
        os.close(errpipe_write)""")),
    # ------------------------------------------------------------ R-INIT-FIRST
    M("init-after-first-get", ["C18"], ["R-INIT-FIRST"],
      (PE, """    if initializer is not None:
        try:
            initializer(*initargs)
        except BaseException:
            LOGGER.critical("Exception in initializer:", exc_info=True)
            # The parent will notice that the process stopped and
            # mark the pool broken
            return

    _process_reference_size = None""", """    _process_reference_size = None"""),
      (PE, """        if call_item is None:
            # Notify queue management thread about worker shutdown""", """        if initializer is not None:
            try:
                initializer(*initargs)
            except BaseException:
                LOGGER.critical("Exception in initializer:", exc_info=True)
                return
            initializer = None
        if call_item is None:
            # Notify queue management thread about worker shutdown""")),
    M("init-without-initargs", ["C18"], ["R-INIT-FIRST"],
      (PE, """            initializer(*initargs)""", """            initializer()""")),
    # ------------------------------------------------------------------ R-ARGS
    M("args-queues-swapped", ["C18"], ["R-ARGS"],
      (PE, """            args = (
                self._call_queue,
                self._result_queue,""", """            args = (
                self._result_queue,
                self._call_queue,""")),
    M("args-depth-without-increment", ["C18", "C19"], ["R-ARGS"],
      (PE, """                _CURRENT_DEPTH + 1,
            )""", """                _CURRENT_DEPTH,
            )""")),
    M("args-respawn-without-initializer", ["C18"], ["R-ARGS"],
      (PE, """            except TypeError:
                p = self._context.Process(target=_process_worker, args=args)""", """            except TypeError:
                p = self._context.Process(
                    target=_process_worker,
                    args=args[:2] + (None, ()) + args[4:],
                )""")),
    M("args-no-env", ["C18"], ["R-ARGS"],
      (PE, """                p = self._context.Process(
                    target=_process_worker, args=args, env=self._env
                )""", """                p = self._context.Process(
                    target=_process_worker, args=args, env=None
                )""")),
    # -------------------------------------------------------------- R-MAIN-FLAG
    M("main-default-true", ["C18"], ["R-MAIN-FLAG"],
      (PR, """        daemon=None,
        init_main_module=False,
        env=None,""", """        daemon=None,
        init_main_module=True,
        env=None,""")),
    M("main-keys-shipped-unconditionally", ["C18"], ["R-MAIN-FLAG"],
      (SP, """    if init_main_module:
        main_module = sys.modules["__main__"]""", """    if True:
        main_module = sys.modules["__main__"]""")),
    # --------------------------------------------------------------- R-EXITCODE
    M("exitcode-signal-positive", ["C18", "C02"], ["R-EXITCODE"],
      (PP, """                    self.returncode = -os.WTERMSIG(sts)""", """                    self.returncode = os.WTERMSIG(sts)""")),
    M("exitcode-recorded-for-any-pid", ["C18"], ["R-EXITCODE"],
      (PP, """            if pid == self.pid:
                if os.WIFSIGNALED(sts):""", """            if True:
                if os.WIFSIGNALED(sts):""")),
    M("exitcode-sentinel-not-closed", ["C18", "C20"], ["R-EXITCODE"],
      (PP, """            if parent_r is not None:
                util.Finalize(self, os.close, (parent_r,))""", """            pass""")),
    # ------------------------------------------------------------------ R-DEPTH
    M("depth-ge-becomes-gt", ["C19"], ["R-DEPTH"],
      (PE, """    if 0 < MAX_DEPTH and _CURRENT_DEPTH + 1 > MAX_DEPTH:""", """    if 0 < MAX_DEPTH and _CURRENT_DEPTH > MAX_DEPTH:""")),
    M("depth-zero-means-zero", ["C19"], ["R-DEPTH"],
      (PE, """    if 0 < MAX_DEPTH and _CURRENT_DEPTH + 1 > MAX_DEPTH:""", """    if _CURRENT_DEPTH + 1 > MAX_DEPTH:""")),
    M("depth-check-after-queues", ["C19"], ["R-DEPTH"],
      (PE, """        _check_max_depth(self._context)

        if result_reducers is None:""", """        if result_reducers is None:"""),
      (PE, """        self._setup_queues(job_reducers, result_reducers)

        mp.util.debug("ProcessPoolExecutor is setup")""", """        self._setup_queues(job_reducers, result_reducers)
        _check_max_depth(self._context)

        mp.util.debug("ProcessPoolExecutor is setup")""")),
    M("depth-warns-instead-of-raising", ["C19"], ["R-DEPTH"],
      (PE, """        raise LokyRecursionError(
            "Could not spawn extra nested processes at depth superior to "
            f"MAX_DEPTH={MAX_DEPTH}. If this is intendend, you can change \"""", """        warnings.warn(
            "Could not spawn extra nested processes at depth superior to "
            f"MAX_DEPTH={MAX_DEPTH}. If this is intendend, you can change \"""")),
    M("depth-installed-after-first-task", ["C19"], ["R-DEPTH"],
      (PE, """    global _CURRENT_DEPTH
    _CURRENT_DEPTH = current_depth

    if initializer is not None:""", """    global _CURRENT_DEPTH

    if initializer is not None:"""),
      (PE, """        # Free the resource as soon as possible, to avoid holding onto
        # open files or shared memory that is not needed anymore
        del call_item""", """        # Free the resource as soon as possible, to avoid holding onto
        # open files or shared memory that is not needed anymore
        del call_item
        _CURRENT_DEPTH = current_depth""")),
    M("depth-fork-guard-dropped", ["C19"], ["R-DEPTH"],
      (PE, """    if context.get_start_method() == "fork" and _CURRENT_DEPTH > 0:""", """    if context.get_start_method() == "fork" and _CURRENT_DEPTH > 1:""")),
    # ------------------------------------------------------------------- R-LEAK
    M("leak-wakeup-close-one-end", ["C20"], ["R-LEAK"],
      (PE, """            self._writer.close()
            self._reader.close()""", """            self._writer.close()""")),
    M("leak-simplequeue-close-one-end", ["C20"], ["R-LEAK"],
      (QU, """    def close(self):
        self._reader.close()
        self._writer.close()""", """    def close(self):
        self._reader.close()""")),
    M("leak-broken-routine-no-join-internals", ["C20", "C02"], ["R-LEAK", "R-BROKEN-ORDER"],
      (PE, """        # clean up resources
        self.join_executor_internals()

    def flag_executor_shutting_down(self):""", """    def flag_executor_shutting_down(self):""")),
    M("leak-shutdown-keeps-queues", ["C20"], ["R-LEAK"],
      (PE, """            self._call_queue = None
            self._result_queue = None
            self._processes_management_lock = None""", """            self._processes_management_lock = None""")),

    # ------------------------------------------- inspired by seeded changes (8.5)
    M("clear-wakeup-at-end-of-iteration", ["C01", "C05"], ["R-WAKE-CLEAR"],
      (PE, """                    self.join_executor_internals()
                    return

    def add_call_item_to_queue(self):""", """                    self.join_executor_internals()
                    return

            self.thread_wakeup.clear()

    def add_call_item_to_queue(self):"""),
      (PE, """        self.thread_wakeup.clear()

        return result_item, is_broken, bpe""", """        return result_item, is_broken, bpe""")),
    M("clear-wakeup-before-wait", ["C01"], ["R-WAKE-CLEAR"],
      (PE, """        worker_sentinels = [p.sentinel for p in list(self.processes.values())]
        ready = wait(readers + worker_sentinels)""", """        worker_sentinels = [p.sentinel for p in list(self.processes.values())]
        self.thread_wakeup.clear()
        ready = wait(readers + worker_sentinels)"""),
      (PE, """        self.thread_wakeup.clear()

        return result_item, is_broken, bpe""", """        return result_item, is_broken, bpe""")),
    M("running-registered-after-put", ["C04"], ["R-FEEDER-HOOK"],
      (PE, """                    self.running_work_items += [work_id]
                    self.call_queue.put(""", """                    self.call_queue.put("""),
      (PE, """                        block=True,
                    )
                else:""", """                        block=True,
                    )
                    self.running_work_items += [work_id]
                else:""")),
    M("sentinel-loop-stops-at-alive-count", ["C05"], ["R-SHUTDOWN-SEQ"],
      (PE, """            and self.get_n_children_alive() > 0""", """            and self.get_n_children_alive() > n_sentinels_sent""")),
    M("respawn-not-after-shutdown", ["C07", "C05"], ["R-RESPAWN-GUARD"],
      (PE, """                    executor is not None
                    and len(self.processes) < executor._max_workers""", """                    executor is not None
                    and not self.executor_flags.shutdown
                    and len(self.processes) < executor._max_workers""")),
    M("submit-top-up-before-registration", ["C07", "C08"], ["R-SPAWN-SITE"],
      (PE, """            f = Future()
            w = _WorkItem(f, fn, args, kwargs)
""", """            self._ensure_executor_running()
            f = Future()
            w = _WorkItem(f, fn, args, kwargs)
"""),
      (PE, """            self._executor_manager_thread_wakeup.wakeup()

            self._ensure_executor_running()
            # Wake up the queue management thread again""", """            self._executor_manager_thread_wakeup.wakeup()

            # Wake up the queue management thread again""")),

    M("publish-id-before-item", ["C03"], ["R-ID"],
      (PE, """            self._pending_work_items[self._queue_count] = w
            self._work_ids.put(self._queue_count)""", """            self._work_ids.put(self._queue_count)
            self._pending_work_items[self._queue_count] = w""")),
    M("publish-start-before-exit-lock", ["C07", "C08"], ["R-SPAWN-SITE"],
      (PE, """            worker_exit_lock.acquire()
            try:""", """            try:"""),
      (PE, """            p._worker_exit_lock = worker_exit_lock
            p.start()""", """            p._worker_exit_lock = worker_exit_lock
            p.start()
            worker_exit_lock.acquire()""")),
    M("publish-lock-attached-after-insert", ["C08"], ["R-SPAWN-SITE"],
      (PE, """            p._worker_exit_lock = worker_exit_lock
            p.start()
            self._processes[p.pid] = p""", """            p.start()
            self._processes[p.pid] = p
            p._worker_exit_lock = worker_exit_lock""")),
    M("total-signal-name-lookup-unguarded", ["C02", "C01"], ["R-MGR-TOTAL"],
      (UT, """        try:
            import signal

            return signal.Signals(-exitcode).name
        except ValueError:
            return "UNKNOWN\"""", """        import signal

        if -exitcode in signal.valid_signals():
            return signal.Signals(-exitcode).name
        return "UNKNOWN\"""")),
    M("rt-defaultdict-rows", ["C11", "C13"], ["R-RT-TABLE"],
      (RT, """    registry = {rtype: {} for rtype in _CLEANUP_FUNCS.keys()}""", """    from collections import defaultdict

    registry = {rtype: defaultdict(int) for rtype in _CLEANUP_FUNCS.keys()}"""),
      (RT, """                        if name not in registry[rtype]:
                            registry[rtype][name] = 1
                        else:
                            registry[rtype][name] += 1""", """                        registry[rtype][name] += 1""")),

    M("once-cancelled-item-not-removed", ["C03", "C01"], ["R-ONCE"],
      (PE, """                else:
                    del self.pending_work_items[work_id]
                    continue""", """                else:
                    continue""")),
    M("result-put-without-write-lock", ["C04"], ["R-PAIR"],
      (QU, """        else:
            with self._wlock:
                self._writer.send_bytes(obj)""", """        else:
            self._writer.send_bytes(obj)""")),
    M("result-pickled-under-write-lock", ["C04"], ["R-PAIR"],
      (QU, """        # serialize the data before acquiring the lock
        obj = dumps(obj, reducers=self._reducers)
        if self._wlock is None:
            # writes to a message oriented win32 pipe are atomic
            self._writer.send_bytes(obj)
        else:
            with self._wlock:
                self._writer.send_bytes(obj)""", """        if self._wlock is None:
            # writes to a message oriented win32 pipe are atomic
            self._writer.send_bytes(dumps(obj, reducers=self._reducers))
        else:
            with self._wlock:
                self._writer.send_bytes(dumps(obj, reducers=self._reducers))""")),

    # ------------------------------------------------------------ R-CANCEL-SAFE
    M("cancel-safe-terminate-broken-unguarded", ["C01", "C02"], ["R-CANCEL-SAFE"],
      (PE, """            try:
                work_item.future.set_exception(bpe)
            except InvalidStateError:
                # set_exception() fails if the future was cancelled while it
                # was still queued: nothing to report to a cancelled future.
                pass""", """            work_item.future.set_exception(bpe)""")),
    M("cancel-safe-kill-path-narrow-handler", ["C06", "C01"], ["R-CANCEL-SAFE"],
      (PE, """                except InvalidStateError:
                    # set_exception() fails if the future was cancelled while
                    # it was still queued: nothing to report to it.
                    pass""", """                except KeyError:
                    pass""")),

    M("wrap-reduce-cached-payload", ["C16"], ["R-WRAP-REDUCE"],
      (CW, """        _pickled_object = dumps(self._obj)
        if not self._keep_wrapper:""", """        if getattr(self, "_payload", None) is None:
            self._payload = dumps(self._obj)
        _pickled_object = self._payload
        if not self._keep_wrapper:""")),

    M("fresh-env-filled-in-place", ["C18"], ["R-SPAWN-FRESH"],
      (FE, """    env = {**os.environ, **env}
""", """    for key, value in os.environ.items():
        env.setdefault(key, value)
""")),

    M("leak-reader-not-closed-after-kill", ["C20"], ["R-LEAK"],
      (PE, """        self.call_queue._reader.close()
""", "")),
    M("nulled-top-up-outside-submit-lock", ["C01", "C05"], ["R-NULLED", "R-SPAWN-SITE"],
      (PE, """            self._executor_manager_thread_wakeup.wakeup()

            self._ensure_executor_running()
            # Wake up the queue management thread again once the workers are
            # (re)spawned and registered: it waits on a snapshot of the worker
            # sentinels and would not notice the death of a worker that was
            # registered after that snapshot was taken.
            self._executor_manager_thread_wakeup.wakeup()
            return f""", """            self._executor_manager_thread_wakeup.wakeup()

        # spawning can be slow: do it without holding the shutdown lock
        self._ensure_executor_running()
        with self._flags.shutdown_lock:
            if self._executor_manager_thread_wakeup is not None:
                self._executor_manager_thread_wakeup.wakeup()
        return f""")),

    # ---------------------------------------------------------- round-2 lessons
    M("callback-lock-feeder-hook-resolves-under-lock", ["C04", "C01"], ["R-CALLBACK-LOCK"],
      (PE, """            if work_item is not None:
                work_item.future.set_exception(raised_error)
                del work_item
            with self.shutdown_lock:
                self.thread_wakeup.wakeup()""", """            with self.shutdown_lock:
                if work_item is not None:
                    work_item.future.set_exception(raised_error)
                    del work_item
                self.thread_wakeup.wakeup()""")),
    M("callback-lock-terminate-broken-drains-under-lock", ["C02", "C01"], ["R-CALLBACK-LOCK"],
      (PE, """        while self.pending_work_items:
            try:
                _, work_item = self.pending_work_items.popitem()
            except KeyError:
                break
            try:
                work_item.future.set_exception(bpe)""", """        while self.pending_work_items:
            try:
                _, work_item = self.pending_work_items.popitem()
            except KeyError:
                break
            try:
                with self.shutdown_lock:
                    work_item.future.set_exception(bpe)""")),
    M("iter-snapshot-waitset-live-values", ["C01", "C02", "C07"], ["R-ITER-SNAPSHOT"],
      (PE, """        worker_sentinels = [p.sentinel for p in list(self.processes.values())]""",
       """        worker_sentinels = [p.sentinel for p in self.processes.values()]""")),
    M("iter-snapshot-adjust-debug-live-items", ["C09", "C10"], ["R-ITER-SNAPSHOT"],
      (PE, """for pid, p in list(self._processes.items())]}\"""", """for pid, p in self._processes.items()]}\"""")),
    M("wrap-update-wrapper-copies-dict", ["C16"], ["R-WRAP-FIELDS"],
      (CW, """class CallableObjectWrapper(CloudpickledObjectWrapper):
    def __call__(self, *args, **kwargs):""", """class CallableObjectWrapper(CloudpickledObjectWrapper):
    def __init__(self, obj, keep_wrapper=False):
        super().__init__(obj, keep_wrapper=keep_wrapper)
        import functools
        functools.update_wrapper(self, obj)

    def __call__(self, *args, **kwargs):""")),
    M("once-cancelled-check-not-atomic", ["C03"], ["R-ONCE"],
      (PE, """                if work_item.future.set_running_or_notify_cancel():""", """                if not work_item.future.cancelled():
                    work_item.future.set_running_or_notify_cancel()""")),

    # D15 (fixed in /repo): failure vs success decided by the truth value of the user's exception
    M("result-dispatch-by-truthiness-D15", ["C01", "C03", "C04"], ["R-SCN-RESULT"],
      (PE, """                if result_item.exception is not None:
                    work_item.future.set_exception""", """                if result_item.exception:
                    work_item.future.set_exception""")),
    # D16 (fixed in /repo): the 'buffer empty' IndexError swallow covers the serialisation of the task
    M("feeder-indexerror-swallow-covers-dumps-D16", ["C01", "C04", "C05", "C20"], ["R-FEEDER"],
      (QU, """                    try:
                        obj = bpopleft()
                    except IndexError:
                        # The buffer is empty. Only the pop is protected: an
                        # IndexError raised while pickling obj is an error.
                        break
                    if obj is sentinel:
                        util.debug("feeder thread got sentinel -- exiting")
                        close()
                        return

                    # serialize the data before acquiring the lock
                    obj_ = dumps(obj, reducers=reducers)""", """                    try:
                        obj = bpopleft()
                        if obj is sentinel:
                            util.debug("feeder thread got sentinel -- exiting")
                            close()
                            return

                        # serialize the data before acquiring the lock
                        obj_ = dumps(obj, reducers=reducers)
                    except IndexError:
                        break""")),
    # D17 (fixed in /repo): the task's exception is put on the result queue without protection against a pickling failure
    M("worker-exception-sent-bare-D17", ["C04"], ["R-EXC-BREADTH"],
      (PE, """            _sendback_result(result_queue, call_item.work_id, exception=exc)""",
       """            result_queue.put(_ResultItem(call_item.work_id, exception=exc))""")),
    # ------------------------------------- round-4 seeds
    M("respawn-pending-counts-dispatched-only", ["C05", "C07", "C08"], ["R-RESPAWN-GUARD"],
      (PE, """            n_pending = len(self.pending_work_items)""", """            n_pending = sum(
                w.future.running()
                for w in list(self.pending_work_items.values())
            )""")),
    M("queue-cap-reusable-from-first-max-workers", ["C08"], ["R-QUEUE-CAP"],
      (RE, """        queue_size = 2 * cpu_count() + EXTRA_QUEUED_CALLS""", """        queue_size = 2 * self._max_workers + EXTRA_QUEUED_CALLS""")),
    M("queue-cap-base-halved", ["C08"], ["R-QUEUE-CAP"],
      (PE, """            queue_size = 2 * self._max_workers + EXTRA_QUEUED_CALLS""", """            queue_size = self._max_workers // 2 + EXTRA_QUEUED_CALLS""")),
    M("queue-cap-base-constant", ["C08"], ["R-QUEUE-CAP"],
      (PE, """            queue_size = 2 * self._max_workers + EXTRA_QUEUED_CALLS""", """            queue_size = 8 + EXTRA_QUEUED_CALLS""")),
    M("tracker-eof-test-on-stripped-line", ["C11", "C12", "C13"], ["R-RT-LOOP"],
      (RT, """                line = f.readline()
                if line == b"":  # EOF""", """                line = f.readline().strip()
                if line == b"":  # EOF""")),
    M("cond-wait-count-clamped-by-maxvalue", ["C14"], ["R-COND-PAIR"],
      (SY, """        count = self._lock._semlock._count()
        for _ in range(count):
            self._lock.release()""", """        count = min(
            self._lock._semlock._count(), self._lock._semlock.maxvalue
        )
        for _ in range(count):
            self._lock.release()""")),
    M("tracker-launch-names-package-literally", ["C11", "C12", "C13", "C18"], ["R-VENDOR"],
      (RT, '''            cmd = f"from {main.__module__} import main; main({r}, {VERBOSE})"''', """            cmd = (
                "from loky.backend.resource_tracker import main; "
                f"main({r}, {VERBOSE})"
            )""")),
    M("worker-launch-names-module-literally", ["C18"], ["R-VENDOR"],
      (PP, """            cmd_python += ["-m", self.__module__]""", """            cmd_python += ["-m", "loky.backend.popen_loky_posix"]""")),
    M("absolute-import-of-own-package", ["C12", "C13"], ["R-VENDOR"],
      (SY, """from . import resource_tracker""", """from loky.backend import resource_tracker""")),
    M("feeder-hook-attaches-live-exception", ["C04", "C20"], ["R-LIVE-EXC"],
      (PE, """            raised_error.__cause__ = _RemoteTraceback("".join(tb))
            work_item = self.pending_work_items.pop(obj.work_id, None)""", """            raised_error.__cause__ = e
            work_item = self.pending_work_items.pop(obj.work_id, None)""")),
    # D19 (fixed in /repo): the memory-leak exit skips the shutdown of nested executors
    M("worker-leak-exit-skips-nested-shutdown-D19", ["C01", "C07"], ["R-EXIT-NESTED"],
      (PE, """                    _python_exit()
                    mp.util.debug("Exit due to memory leak")""", """                    mp.util.debug("Exit due to memory leak")""")),
    M("worker-timeout-exit-skips-nested-shutdown", ["C01", "C07"], ["R-EXIT-NESTED"],
      (PE, """            is_clean = worker_exit_lock.acquire(True, timeout=30)

            # Early notify any loky executor running in this worker process
            # (nested parallelism) that this process is about to shutdown to
            # avoid a deadlock waiting undifinitely for the worker to finish.
            _python_exit()
""", """            is_clean = worker_exit_lock.acquire(True, timeout=30)
""")),
    # D20 (fixed in /repo): a warning raised as an error on the manager thread
    M("mgr-warning-unguarded-D20", ["C01", "C02", "C05"], ["R-MGR-TOTAL"],
      (PE, """                    try:
                        warnings.warn(
                            "A worker stopped while some jobs were given to "
                            "the executor. This can be caused by a too short "
                            "worker timeout or by a memory leak.",
                            UserWarning,
                        )
                    except Exception as e:
                        # Warnings can be turned into errors (-W error): this
                        # must not kill the executor manager thread before it
                        # re-spawns the workers needed by the pending jobs.
                        mp.util.info(f"{type(e).__name__}: {e}")
""", """                    warnings.warn(
                        "A worker stopped while some jobs were given to the "
                        "executor. This can be caused by a too short worker "
                        "timeout or by a memory leak.",
                        UserWarning,
                    )
""")),
    # D22 (fixed in /repo): a plain shutdown resets a pending kill request
    M("killflag-overwritten-by-plain-shutdown-D22", ["C06"], ["R-KILL-PATH"],
      (PE, """            if kill_workers:
                # Only ever upgrade: a later shutdown() with the default
                # kill_workers=False must not cancel a pending forced shutdown.
                self.kill_workers = True""", """            if kill_workers is not None:
                self.kill_workers = kill_workers""")),
    M("killflag-only-first-shutdown-decides", ["C06"], ["R-KILL-PATH"],
      (PE, """            self.shutdown = True
            if kill_workers:
                # Only ever upgrade: a later shutdown() with the default
                # kill_workers=False must not cancel a pending forced shutdown.
                self.kill_workers = True""", """            if kill_workers and not self.shutdown:
                self.kill_workers = True
            self.shutdown = True""")),
    # D23 (fixed in /repo): check on a snapshot, use of a second read
    M("shutdown-rereads-nulled-wakeup-D23", ["C01", "C05", "C07"], ["R-NULLED"],
      (PE, """            with self._shutdown_lock:
                executor_manager_thread_wakeup.wakeup()""", """            with self._shutdown_lock:
                self._executor_manager_thread_wakeup.wakeup()""")),
    # ------------------------------------- round-5 seeds
    M("send-helper-oserror-reraised", ["C04"], ["R-EXC-BREADTH"],
      (PE, """    except BaseException as e:
        exc = _ExceptionWithTraceback(e)
        result_queue.put(_ResultItem(work_id, exception=exc))""", """    except OSError:
        raise
    except BaseException as e:
        exc = _ExceptionWithTraceback(e)
        result_queue.put(_ResultItem(work_id, exception=exc))""")),
    M("tracker-entry-deleted-after-cleanup", ["C11", "C13"], ["R-RT-TABLE"],
      (RT, """                            del registry[rtype][name]
                            try:
                                if verbose:
                                    util.debug(
                                        f"[ResourceTracker] unlink {name}"
                                    )
                                _CLEANUP_FUNCS[rtype](name)""", """                            try:
                                if verbose:
                                    util.debug(
                                        f"[ResourceTracker] unlink {name}"
                                    )
                                _CLEANUP_FUNCS[rtype](name)
                                del registry[rtype][name]""")),
    M("cond-drain-acquire-inside-assert", ["C14"], ["R-COND-TOKENS"],
      (SY, """        while self._woken_count.acquire(False):
            res = self._sleeping_count.acquire(False)
            assert res

        if self._sleeping_count.acquire(False):""", """        while self._woken_count.acquire(False):
            assert self._sleeping_count.acquire(False)

        if self._sleeping_count.acquire(False):""")),
    M("reducer-registered-for-bound-slot-wrapper", ["C15", "C03"], ["R-REDUCE-TYPES"],
      (RD, """register(type(int.__add__), _reduce_method_descriptor)""", """register(types.MethodWrapperType, _reduce_method_descriptor)""")),
    M("initializer-filtered-by-truth-value", ["C18"], ["R-INIT-TRUTH"],
      ("loky/initializers.py", """        if initializer is not None:
            filtered_initializers.append(initializer)""", """        if initializer:
            filtered_initializers.append(initializer)""")),
    M("bootstrap-guard-only-with-main-module", ["C19"], ["R-DEPTH"],
      (SP, """    _check_not_importing_main()
    d = dict(""", """    if init_main_module:
        _check_not_importing_main()
    d = dict(""")),
    M("exitcode-name-table-keyerror", ["C02", "C10"], ["R-MGR-TOTAL"],
      (UT, """            import signal

            return signal.Signals(-exitcode).name""", """            return _SIGNAL_NAMES[-exitcode]"""),
      (UT, """def kill_process_tree(process, use_psutil=True):""", """_SIGNAL_NAMES = {int(sig): sig.name for sig in signal.Signals}


def kill_process_tree(process, use_psutil=True):""")),
    M("queue-close-override-early-return", ["C05", "C20"], ["R-FEEDER"],
      (QU, """    # Overload _start_thread to correctly call our custom _feed
    def _start_thread(self):""", """    def close(self):
        self._closed = True
        if self._reader.closed:
            return
        self._reader.close()
        close = self._close
        if close:
            self._close = None
            close()

    # Overload _start_thread to correctly call our custom _feed
    def _start_thread(self):""")),
    # ------------------------------------------------------------- round 7: R-INIT-CHAIN, R-RESIZE-DRAIN, R-RELAUNCH reap clause
    M("initchain-args-only-when-nonempty", ["C18"], ["R-INIT-CHAIN"],
      ("loky/initializers.py", """            filtered_initializers.append(initializer)
            filtered_initargs.append(initargs)""", """            filtered_initializers.append(initializer)
            if initargs:
                filtered_initargs.append(initargs)""")),
    M("initchain-single-other-index", ["C18"], ["R-INIT-CHAIN"],
      ("loky/initializers.py", """        return filtered_initializers[0], filtered_initargs[0]""", """        return filtered_initializers[0], filtered_initargs[-1:]""")),
    M("initchain-args-outside-filter", ["C18"], ["R-INIT-CHAIN"],
      ("loky/initializers.py", """        if initializer is not None:
            filtered_initializers.append(initializer)
            filtered_initargs.append(initargs)""", """        if initializer is not None:
            filtered_initializers.append(initializer)
        filtered_initargs.append(initargs)""")),
    M("initchain-provider-args-not-tuple", ["C18"], ["R-INIT-CHAIN"],
      ("loky/initializers.py", """            return _viztracer_init, (tracer.init_kwargs,)""", """            return _viztracer_init, tracer.init_kwargs""")),
    M("initchain-compound-zip-reversed", ["C18"], ["R-INIT-CHAIN"],
      ("loky/initializers.py", """        for initializer, args in zip(self._initializers, chained_args):""", """        for initializer, args in zip(self._initializers, reversed(chained_args)):""")),
    M("initchain-compound-swallows", ["C18"], ["R-INIT-CHAIN"],
      ("loky/initializers.py", """        for initializer, args in zip(self._initializers, chained_args):
            initializer(*args)""", """        for initializer, args in zip(self._initializers, chained_args):
            try:
                initializer(*args)
            except Exception:
                pass""")),
    M("initchain-user-pair-swapped", ["C18"], ["R-INIT-CHAIN"],
      ("loky/initializers.py", """            (initializer, initargs),
""", """            (initargs, initializer),
""")),
    M("initchain-filter-on-args", ["C18"], ["R-INIT-CHAIN"],
      ("loky/initializers.py", """        if initializer is not None:
            filtered_initializers""", """        if initializer is not None and initargs is not None:
            filtered_initializers""")),
    M("drain-cancelled-item-stays-pending", ["C09", "C10"], ["R-ONCE"],
      (PE, """                    del self.pending_work_items[work_id]
                    continue""", """                    continue""")),
    M("relaunch-warn-before-reap", ["C12", "C13", "C20"], ["R-RELAUNCH"],
      (RT, """                os.close(self._fd)
                if os.name == "posix":""", """                os.close(self._fd)
                self._fd = None
                warnings.warn("resource_tracker: process died unexpectedly, relaunching.")
                if os.name == "posix":""")),
    M("relaunch-warn-before-pid-reset", ["C12", "C20"], ["R-RELAUNCH"],
      (RT, """                self._fd = None
                self._pid = None

                warnings.warn(
                    "resource_tracker: process died unexpectedly, "
                    "relaunching.  Some folders/sempahores might "
                    "leak."
                )
""", """                self._fd = None

                warnings.warn(
                    "resource_tracker: process died unexpectedly, "
                    "relaunching.  Some folders/sempahores might "
                    "leak."
                )
                self._pid = None
""")),
]


def B(id, props, *edits):
    return {"id": id, "props": props, "edits": list(edits)}


BENIGN = [
    B("benign-rename-local-in-submit", None,
      (PE, """            f = Future()
            w = _WorkItem(f, fn, args, kwargs)

            self._pending_work_items[self._queue_count] = w""", """            f = Future()
            item = _WorkItem(f, fn, args, kwargs)

            self._pending_work_items[self._queue_count] = item""")),
    B("benign-extra-wakeup-and-logging", None,
      (PE, """            self._queue_count += 1
            # Wake up queue management thread""", """            self._queue_count += 1
            mp.util.debug("queued a work item")
            self._executor_manager_thread_wakeup.wakeup()
            # Wake up queue management thread""")),
    B("benign-with-to-acquire-release", None,
      (PE, """            with self.processes_management_lock:
                p = self.processes.pop(result_item, None)""", """            self.processes_management_lock.acquire()
            try:
                p = self.processes.pop(result_item, None)
            finally:
                self.processes_management_lock.release()""")),
    B("benign-guard-operand-swap", None,
      (PE, """            if n_pending - n_running > 0 or n_running > len(self.processes):""",
       """            if len(self.processes) < n_running or n_pending > n_running:""")),
    B("benign-demorgan-is-shutting-down", None,
      (PE, """        return _global_shutdown or (
            (executor is None or self.executor_flags.shutdown)
            and not self.executor_flags.broken
        )""", """        flags = self.executor_flags
        stopping = not (executor is not None and not flags.shutdown)
        return _global_shutdown or (stopping and not flags.broken)""")),
    B("benign-extract-helper-in-terminate-broken", None,
      (PE, """        # Terminate remaining workers forcibly: the queues or their
        # locks may be in a dirty state and block forever.
        self.kill_workers(reason="broken executor")

        # clean up resources
        self.join_executor_internals()""", """        self._kill_and_join()

    def _kill_and_join(self):
        # Terminate remaining workers forcibly: the queues or their
        # locks may be in a dirty state and block forever.
        self.kill_workers(reason="broken executor")

        # clean up resources
        self.join_executor_internals()""")),
    B("benign-timeout-in-polling-loop", None,
      (RE, """        while self._pending_work_items:
            time.sleep(1e-3)""", """        deadline = time.time() + 3600
        while self._pending_work_items and time.time() < deadline:
            time.sleep(1e-3)""")),
    B("benign-rename-private-method", None,
      (PE, """    def shutdown_workers(self):""", """    def _stop_all_workers(self):"""),
      (PE, """        self.shutdown_workers()""", """        self._stop_all_workers()""")),
    B("benign-reorder-independent-statements", None,
      (PE, """        self._pending_work_items = {}
        self._running_work_items = []
        self._work_ids = queue.Queue()""", """        self._work_ids = queue.Queue()
        self._running_work_items = []
        self._pending_work_items = {}""")),
    B("benign-call-item-local", None,
      (PE, """                    self.call_queue.put(
                        _CallItem(
                            work_id,
                            work_item.fn,
                            work_item.args,
                            work_item.kwargs,
                        ),
                        block=True,
                    )""", """                    call_item = _CallItem(
                        work_id,
                        work_item.fn,
                        work_item.args,
                        work_item.kwargs,
                    )
                    self.call_queue.put(call_item, block=True)""")),
    B("benign-env-merge-copy-update", ["C18", "C20"],
      (FE, """    env = {**os.environ, **env}
    encoded_env = []""", """    overlay = env
    env = dict(os.environ)
    env.update(overlay)
    encoded_env = []""")),
    B("benign-nulling-guard-swapped", ["C01", "C05", "C07"],
      (PE, """        if wait or executor_manager_thread is None:
            self._executor_manager_thread = None""", """        if executor_manager_thread is None or wait:
            self._executor_manager_thread = None""")),
    B("benign-nulling-early-return", ["C01", "C05", "C07"],
      (PE, """        if wait or executor_manager_thread is None:
            self._executor_manager_thread = None""", """        if not wait and executor_manager_thread is not None:
            return
        if True:
            self._executor_manager_thread = None""")),
    B("benign-sweep-handlers-baseexception", ["C11", "C13"],
      (RT, """                        "clean up at shutdown"
                    )
                except Exception:
                    pass""", """                        "clean up at shutdown"
                    )
                except BaseException:
                    pass""")),
    B("benign-map-chain-yield-from", ["C03"],
      (PE, """        element.reverse()
        while element:
            yield element.pop()""", """        yield from element""")),
    B("benign-map-chain-pop-front", ["C03"],
      (PE, """        element.reverse()
        while element:
            yield element.pop()""", """        while element:
            yield element.pop(0)""")),
    # ---- behaviour-preserving rewrites of conditions the scenario obligations look at
    B("benign-wakeup-early-return", ["C01", "C02", "C05", "C20"],
      (PE, """    def wakeup(self):
        if not self._closed:
            self._writer.send_bytes(b"")""", """    def wakeup(self):
        if self._closed:
            return
        self._writer.send_bytes(b"")""")),
    B("benign-manager-result-none-else", ["C01", "C02", "C05", "C06"],
      (PE, """            if result_item is not None:
                self.process_result_item(result_item)
                # Delete reference to result_item to avoid keeping references
                # while waiting on new results.
                del result_item""", """            if result_item is None:
                pass
            else:
                self.process_result_item(result_item)
                # Delete reference to result_item to avoid keeping references
                # while waiting on new results.
                del result_item""")),
    B("benign-terminate-broken-len-loop", ["C01", "C02", "C06"],
      (PE, """        while self.pending_work_items:
            try:
                _, work_item = self.pending_work_items.popitem()
            except KeyError:
                break
            try:
                work_item.future.set_exception(bpe)""", """        while len(self.pending_work_items) > 0:
            try:
                _, work_item = self.pending_work_items.popitem()
            except KeyError:
                break
            try:
                work_item.future.set_exception(bpe)""")),
    B("benign-event-is-set-early-return", ["C14"],
      (SY, """            if self._flag.acquire(False):
                self._flag.release()
                return True
            return False

    def set(self):""", """            if not self._flag.acquire(False):
                return False
            self._flag.release()
            return True

    def set(self):""")),
    B("benign-resize-same-size-operands-swapped", ["C09", "C10"],
      (RE, """            elif max_workers == self._max_workers:
                return""", """            elif self._max_workers == max_workers:
                return""")),
    B("benign-kill-esrch-positive-form", ["C06"],
      (UT, """        if e.errno != errno.ESRCH:
            raise  # pragma: no cover""", """        if e.errno == errno.ESRCH:
            return
        raise  # pragma: no cover""")),
    B("benign-tracker-sweep-without-continue", ["C11", "C13"],
      (RT, """            if rtype == "folder":
                continue
            else:
                _unlink_resources(rtype_registry, rtype)""", """            if rtype != "folder":
                _unlink_resources(rtype_registry, rtype)""")),
    B("benign-submit-gate-shutdown-first", ["C01", "C02", "C05"],
      (PE, """            if self._flags.broken is not None:
                raise self._flags.broken
            if self._flags.shutdown:
                raise ShutdownExecutorError(
                    "cannot schedule new futures after shutdown"
                )""", """            if self._flags.broken is not None:
                raise self._flags.broken
            elif self._flags.shutdown:
                raise ShutdownExecutorError(
                    "cannot schedule new futures after shutdown"
                )""")),
    B("benign-rt-proto-parse-with-partition", ["C11", "C12", "C13"],
      (RT, """                    splitted = line.strip().decode("ascii").split(":")
                    # name can potentially contain separator symbols (for
                    # instance folders on Windows)
                    cmd, name, rtype = (
                        splitted[0],
                        ":".join(splitted[1:-1]),
                        splitted[-1],
                    )""", """                    msg = line.strip().decode("ascii")
                    cmd, _, msg = msg.partition(":")
                    name, _, rtype = msg.rpartition(":")""")),
    B("benign-result-dispatch-none-branch-first", ["C01", "C03", "C04"],
      (PE, """                if result_item.exception is not None:
                    work_item.future.set_exception(result_item.exception)
                else:
                    work_item.future.set_result(result_item.result)""", """                if result_item.exception is None:
                    work_item.future.set_result(result_item.result)
                else:
                    work_item.future.set_exception(result_item.exception)""")),
    B("benign-worker-exception-sent-in-own-try", ["C04"],
      (PE, """            _sendback_result(result_queue, call_item.work_id, exception=exc)""",
       """            try:
                result_queue.put(_ResultItem(call_item.work_id, exception=exc))
            except BaseException as e2:
                result_queue.put(_ResultItem(call_item.work_id, exception=_ExceptionWithTraceback(e2)))""")),
    B("benign-respawn-pending-excludes-cancelled", ["C05", "C07", "C08"],
      (PE, """            n_pending = len(self.pending_work_items)""", """            n_pending = sum(
                not w.future.cancelled()
                for w in list(self.pending_work_items.values())
            )""")),
    B("benign-queue-cap-base-larger", ["C08"],
      (PE, """            queue_size = 2 * self._max_workers + EXTRA_QUEUED_CALLS""", """            queue_size = 3 * self._max_workers + EXTRA_QUEUED_CALLS + 1""")),
    B("benign-tracker-strip-after-eof-test", ["C11", "C12", "C13"],
      (RT, """                if line == b"":  # EOF
                    break
                try:
                    splitted = line.strip().decode("ascii").split(":")""", """                if line == b"":  # EOF
                    break
                line = line.strip()
                try:
                    splitted = line.decode("ascii").split(":")""")),
    B("benign-tracker-launch-names-module-by-name-global", ["C11", "C12", "C13", "C18"],
      (RT, '''            cmd = f"from {main.__module__} import main; main({r}, {VERBOSE})"''', '''            cmd = f"from {__name__} import main; main({r}, {VERBOSE})"''')),
    B("benign-queue-close-override-calls-finaliser", ["C05", "C20"],
      (QU, """    # Overload _start_thread to correctly call our custom _feed
    def _start_thread(self):""", """    def close(self):
        self._closed = True
        close = self._close
        if close:
            self._close = None
            close()

    # Overload _start_thread to correctly call our custom _feed
    def _start_thread(self):""")),
    B("benign-env-overlay-copied", ["C18", "C20"],
      (PR, """        self.env = {} if env is None else env""", """        self.env = dict(env or {})""")),
    B("benign-increment-spelled-out", None,
      (PE, """                    n_sentinels_sent += 1""", """                    n_sentinels_sent = n_sentinels_sent + 1"""),
      (PE, """            self._queue_count += 1""", """            self._queue_count = self._queue_count + 1"""),
      (RT, """                            registry[rtype][name] += 1""", """                            registry[rtype][name] = registry[rtype][name] + 1""")),
    B("benign-spawn-loop-as-range", None,
      (PE, """        while len(self._processes) < self._max_workers:
            worker_exit_lock""", """        for _ in range(self._max_workers - len(self._processes)):
            worker_exit_lock""")),
    B("benign-rename-workitem-attribute", ["C03", "C01", "C04"],
      (PE, """    __slots__ = ["future", "fn", "args", "kwargs"]

    def __init__(self, future, fn, args, kwargs):
        self.future = future
        self.fn = fn""", """    __slots__ = ["future", "func", "args", "kwargs"]

    def __init__(self, future, fn, args, kwargs):
        self.future = future
        self.func = fn"""),
      (PE, """                            work_item.fn,""", """                            work_item.func,""")),
    B("benign-initchain-guard-clause", ["C18"],
      ("loky/initializers.py", """        if initializer is not None:
            filtered_initializers.append(initializer)
            filtered_initargs.append(initargs)""", """        if initializer is None:
            continue
        filtered_initializers.append(initializer)
        filtered_initargs.append(initargs)""")),
]
