"""lokysa -- repository-specific static analysis of joblib/loky (see /verif/DESIGN.md)."""
