"""Helper inlining: the inverse of the extract-method refactoring.

A private function or method that (1) is called at exactly one place, (2) is not referred to anywhere else in the package
(not passed as a callback, not looked up by name, not overridden), (3) has a simple body (no generator, no global / nonlocal
declaration, at most one `return`, as its last statement), and (4) is called with plain positional / keyword arguments, is
replaced by its body at the call site.  The result is the program a maintainer had before extracting the helper: the same
operations in the same order under the same locks and handlers.  The statements keep their own line numbers, so a report
still points into the helper.

Used by `Report.run_rules` as a *refinement* step only: when a rule reports a violation (or declines) on the program as
written, it is run again on variants with helpers inlined; the variants are equivalent programs, so a rule that accepts one
of them (all floors met) has established its clause for the program as written.  Nothing is executed.
"""
import ast
import copy
import re


def _is_private(name):
    return name.startswith("_") and not (name.startswith("__") and name.endswith("__"))


def _own_nodes(fn):
    """nodes of fn's own scope (not nested defs / lambdas / classes / comprehensions)."""
    todo = list(fn.body)
    while todo:
        n = todo.pop()
        yield n
        for c in ast.iter_child_nodes(n):
            if isinstance(c, (ast.FunctionDef, ast.AsyncFunctionDef, ast.Lambda, ast.ClassDef)):
                yield c          # the def itself is visible, its inside is another scope
                continue
            if isinstance(c, (ast.ListComp, ast.SetComp, ast.DictComp, ast.GeneratorExp)):
                # its own scope, except the first iterable, which is evaluated outside
                todo.append(c.generators[0].iter)
                continue
            todo.append(c)


def _tail_returns(stmts):
    """the Return statements in tail position of a statement list (through trailing if / with)."""
    if not stmts:
        return
    last = stmts[-1]
    if isinstance(last, ast.Return):
        yield last
    elif isinstance(last, ast.If):
        yield from _tail_returns(last.body)
        yield from _tail_returns(last.orelse)
    elif isinstance(last, ast.With):
        yield from _tail_returns(last.body)
    elif isinstance(last, ast.Try) and not any(isinstance(n, ast.Return) for s in last.finalbody for n in ast.walk(s)):
        yield from _tail_returns(last.orelse if last.orelse else last.body)
        for h in last.handlers:
            yield from _tail_returns(h.body)


def _rewrite_tail(stmts, mk, fall):
    """replace every tail Return by mk(value) (a list of statements); `fall()` is appended where the body falls off its end."""
    if not stmts:
        return fall()
    last = stmts[-1]
    if isinstance(last, ast.Return):
        return stmts[:-1] + mk(last)
    if isinstance(last, ast.If):
        last.body = _rewrite_tail(last.body, mk, fall) or [ast.copy_location(ast.Pass(), last)]
        last.orelse = _rewrite_tail(last.orelse, mk, fall)
        return stmts
    if isinstance(last, ast.With):
        last.body = _rewrite_tail(last.body, mk, fall) or [ast.copy_location(ast.Pass(), last)]
        return stmts
    if isinstance(last, ast.Try) and not any(isinstance(n, ast.Return) for s in last.finalbody for n in ast.walk(s)):
        # (`return v` inside try ... finally evaluates v, runs the finally clause, then returns: `target = v` in its place does the same)
        if last.orelse:
            last.orelse = _rewrite_tail(last.orelse, mk, fall)
        else:
            last.body = _rewrite_tail(last.body, mk, fall) or [ast.copy_location(ast.Pass(), last)]
        for h in last.handlers:
            h.body = _rewrite_tail(h.body, mk, fall) or [ast.copy_location(ast.Pass(), last)]
        return stmts
    return stmts + fall()


def _cm_parts(fn):
    """the body of a generator-based context manager with exactly one `yield` (yielding nothing), as (statements, the yield statement);
    None if it has another form.  `with h(): B` is then h's body with B in place of the yield: contextlib.contextmanager throws an
    exception of B into the generator at the yield, so the handlers / finally clauses around the yield see it exactly as if B stood there."""
    if any(isinstance(n, (ast.Global, ast.Nonlocal, ast.Return, ast.YieldFrom, ast.Await)) for n in ast.walk(fn)):
        return None
    a = fn.args
    if a.vararg or a.kwarg or a.posonlyargs or a.kwonlyargs or any(not isinstance(d, ast.Constant) for d in a.defaults):
        return None
    ys = [n for n in ast.walk(fn) if isinstance(n, ast.Yield)]
    if len(ys) != 1 or ys[0].value is not None:
        return None
    # the yield is an expression statement that is not inside a loop or a nested scope
    def find(stmts):
        for s in stmts:
            if isinstance(s, ast.Expr) and s.value is ys[0]:
                return s
            if isinstance(s, (ast.For, ast.While, ast.FunctionDef, ast.AsyncFunctionDef, ast.ClassDef)):
                continue
            for fld in ("body", "orelse", "finalbody"):
                v = getattr(s, fld, None)
                if isinstance(v, list) and v and isinstance(v[0], ast.stmt):
                    r = find(v)
                    if r is not None:
                        return r
            for h in getattr(s, "handlers", []) or []:
                r = find(h.body)
                if r is not None:
                    return r
        return None
    y = find(fn.body)
    if y is None:
        return None
    return fn.body, y


def _bool_status_body(fn):
    """a helper that reports a status: every return gives the constant True or False (anywhere in the body, not in a loop's else / finally),
    no generator, no global declaration, plain parameters."""
    if any(isinstance(n, (ast.Yield, ast.YieldFrom, ast.Await, ast.Global, ast.Nonlocal)) for n in ast.walk(fn)):
        return False
    a = fn.args
    if a.vararg or a.kwarg or a.posonlyargs or a.kwonlyargs or any(not isinstance(d, ast.Constant) for d in a.defaults):
        return False
    rets = [n for n in _own_nodes(fn) if isinstance(n, ast.Return)]
    if not rets or not all(isinstance(r.value, ast.Constant) and isinstance(r.value.value, bool) for r in rets):
        return False
    # no return inside a finally clause
    for n in _own_nodes(fn):
        if isinstance(n, ast.Try) and any(isinstance(x, ast.Return) for s in n.finalbody for x in ast.walk(s)):
            return False
    return isinstance(fn.body[-1], ast.Return)


def _simple_body(fn):
    if any(isinstance(n, (ast.Yield, ast.YieldFrom, ast.Await, ast.Global, ast.Nonlocal)) for n in ast.walk(fn)):
        return False
    rets = [n for n in _own_nodes(fn) if isinstance(n, ast.Return)]
    tails = set(id(n) for n in _tail_returns(fn.body))
    if any(id(r) not in tails for r in rets):
        return False
    a = fn.args
    if a.vararg or a.kwarg or a.posonlyargs or a.kwonlyargs:
        return False
    if any(not isinstance(d, ast.Constant) for d in a.defaults):
        return False
    # a nested function that closes over the helper's locals keeps working after inlining only if those names stay the same: they do
    return True


def candidates(trees, sources):
    """{(path, class name or None, helper name): FunctionDef} of helpers that may be inlined."""
    text = "\n".join(sources.values())
    out = {}
    for path, tree in trees.items():
        scopes = [(None, tree.body)] + [(c.name, c.body) for c in tree.body if isinstance(c, ast.ClassDef)]
        for cname, body in scopes:
            for fn in body:
                if not isinstance(fn, ast.FunctionDef) or not _is_private(fn.name):
                    continue
                decos = [ast.unparse(d) for d in fn.decorator_list]
                cm = decos in (["contextmanager"], ["contextlib.contextmanager"])
                if not cm and any(d != "staticmethod" for d in decos):
                    continue
                n_occ = len(re.findall(r"(?<![A-Za-z0-9_])" + re.escape(fn.name) + r"(?![A-Za-z0-9_])", text))
                if n_occ < 2 or n_occ > 4:
                    continue            # the definition and one to three uses (every use must be an inlinable call: checked when inlining)
                if cm:
                    if _cm_parts(fn) is None:
                        continue
                elif not _simple_body(fn) and not _bool_status_body(fn):
                    continue
                out[(path, cname, fn.name)] = fn
    return out


class _Rename(ast.NodeTransformer):
    def __init__(self, mapping):
        self.m = mapping

    def visit_Name(self, node):
        if node.id in self.m:
            return ast.copy_location(ast.Name(id=self.m[node.id], ctx=node.ctx), node)
        return node

    def visit_arg(self, node):
        return node


def _locals_of(fn):
    names = {a.arg for a in fn.args.args}
    for n in _own_nodes(fn):
        if isinstance(n, ast.Name) and isinstance(n.ctx, (ast.Store, ast.Del)):
            names.add(n.id)
        elif isinstance(n, (ast.FunctionDef, ast.ClassDef)):
            names.add(n.name)
        elif isinstance(n, ast.ExceptHandler) and n.name:
            names.add(n.name)
        elif isinstance(n, (ast.Import, ast.ImportFrom)):
            names |= {(al.asname or al.name).split(".")[0] for al in n.names}
    return names


def _inline_at(caller, stmt_list, idx, call, helper, is_method, static):
    """statements replacing stmt_list[idx] (which contains `call` in Expr / Assign / Return position), or None."""
    st = stmt_list[idx]
    if isinstance(st, ast.Expr) and st.value is call:
        ctx = "expr"
    elif isinstance(st, ast.Return) and st.value is call:
        ctx = "return"
    elif isinstance(st, ast.Assign) and st.value is call and len(st.targets) == 1 and (isinstance(st.targets[0], (ast.Name, ast.Attribute)) or (
            isinstance(st.targets[0], ast.Tuple) and all(isinstance(x, ast.Name) for x in st.targets[0].elts))):
        ctx = "assign"
    else:
        return None
    if any(isinstance(a, ast.Starred) for a in call.args) or any(k.arg is None for k in call.keywords):
        return None
    params = [a.arg for a in helper.args.args]
    binds = []
    if is_method and not static:
        if not (isinstance(call.func, ast.Attribute)):
            return None
        binds.append((params[0], call.func.value))
        rest = params[1:]
    else:
        rest = params
    if len(call.args) > len(rest):
        return None
    given = {}
    for p, a in zip(rest, call.args):
        given[p] = a
    for k in call.keywords:
        if k.arg not in rest or k.arg in given:
            return None
        given[k.arg] = k.value
    defaults = dict(zip(rest[len(rest) - len(helper.args.defaults):], helper.args.defaults))
    for p in rest:
        if p in given:
            binds.append((p, given[p]))
        elif p in defaults:
            binds.append((p, defaults[p]))
        else:
            return None
    body = copy.deepcopy(helper.body)
    # a leading docstring is not code
    if body and isinstance(body[0], ast.Expr) and isinstance(body[0].value, ast.Constant) and isinstance(body[0].value.value, str):
        body = body[1:]
    stored = {n.id for s_ in helper.body for n in ast.walk(s_) if isinstance(n, ast.Name) and isinstance(n.ctx, (ast.Store, ast.Del))}
    hl = _locals_of(helper)
    cl = _locals_of(caller)
    # a parameter that is never re-assigned and is given a plain variable is replaced by that variable (no binding statement)
    subst = {p: a.id for p, a in binds if isinstance(a, ast.Name) and p not in stored and (a.id == p or a.id not in hl)}
    # the returned local may keep its name when it is exactly the variable the call is assigned to
    keep = set()
    rets = list(_tail_returns(helper.body))
    if ctx == "assign" and isinstance(st.targets[0], ast.Name) and rets and all(isinstance(r.value, ast.Name) and r.value.id == st.targets[0].id for r in rets):
        keep.add(st.targets[0].id)
    if ctx == "assign" and isinstance(st.targets[0], ast.Tuple) and rets and all(_same_names(r.value, st.targets[0]) for r in rets):
        keep |= {x.id for x in st.targets[0].elts}
    ren = {n: f"{n}__{helper.name.strip('_')}" for n in (hl & cl) - set(subst) - keep}
    ren.update({p: v for p, v in subst.items() if p != v})
    if ren:
        body = [_Rename(ren).visit(s) for s in body]
    pre = []
    for p, a in binds:
        if p in subst:
            continue
        tgt = ast.Name(id=ren.get(p, p), ctx=ast.Store())
        pre.append(ast.copy_location(ast.Assign(targets=[ast.copy_location(tgt, st)], value=copy.deepcopy(a)), st))

    def mk(r):
        v = r.value
        if ctx == "expr":
            return [ast.copy_location(ast.Expr(value=v), r)] if v is not None and not isinstance(v, (ast.Name, ast.Constant)) else []
        if ctx == "return":
            return [ast.copy_location(ast.Return(value=v), r)]
        if isinstance(v, ast.Name) and isinstance(st.targets[0], ast.Name) and v.id == st.targets[0].id:
            return []
        if isinstance(st.targets[0], ast.Tuple) and _same_names(v, st.targets[0]):
            return []
        return [ast.copy_location(ast.Assign(targets=copy.deepcopy(st.targets), value=v if v is not None else ast.Constant(value=None)), r)]

    def fall():
        if ctx == "assign":
            return [ast.copy_location(ast.Assign(targets=copy.deepcopy(st.targets), value=ast.Constant(value=None)), st)]
        if ctx == "return":
            return [ast.copy_location(ast.Return(value=None), st)]
        return []
    body = _rewrite_tail(body, mk, fall)
    out = pre + body
    return out or [ast.copy_location(ast.Pass(), st)]


def _blocks(node):
    for fld in ("body", "orelse", "finalbody"):
        v = getattr(node, fld, None)
        if isinstance(v, list) and v and isinstance(v[0], ast.stmt):
            yield v
    for h in getattr(node, "handlers", []) or []:
        yield h.body


def _same_names(value, target):
    return isinstance(value, ast.Tuple) and len(value.elts) == len(target.elts) and all(
        isinstance(a, ast.Name) and isinstance(b, ast.Name) and a.id == b.id for a, b in zip(value.elts, target.elts))


def _find_calls(owner, helper_name, is_method):
    """[(statement list, index, call, kind)] of the calls of the helper in the own scope of `owner`; kind = 'stmt' (Expr / Assign /
    Return position) or 'with' (sole item of a with statement)."""
    out = []
    todo = [owner]
    while todo:
        node = todo.pop()
        for lst in _blocks(node):
            for i, s in enumerate(lst):
                def is_h(val):
                    if not isinstance(val, ast.Call):
                        return False
                    f = val.func
                    return (is_method and isinstance(f, ast.Attribute) and f.attr == helper_name and isinstance(f.value, ast.Name)) or \
                        (not is_method and isinstance(f, ast.Name) and f.id == helper_name)
                val = s.value if isinstance(s, (ast.Expr, ast.Return, ast.Assign)) else None
                if is_h(val):
                    out.append((lst, i, val, "stmt"))
                elif isinstance(s, ast.With) and len(s.items) == 1 and s.items[0].optional_vars is None and is_h(s.items[0].context_expr):
                    out.append((lst, i, s.items[0].context_expr, "with"))
                elif isinstance(s, ast.If) and not s.orelse and (is_h(s.test) or (isinstance(s.test, ast.UnaryOp) and isinstance(s.test.op, ast.Not) and is_h(s.test.operand))):
                    out.append((lst, i, s.test if is_h(s.test) else s.test.operand, "cond"))
                if not isinstance(s, (ast.FunctionDef, ast.AsyncFunctionDef, ast.ClassDef)):
                    todo.append(s)
    return out


def _n_refs(tree_or_node, name):
    return sum(1 for n in ast.walk(tree_or_node) if (isinstance(n, ast.Name) and n.id == name) or (isinstance(n, ast.Attribute) and n.attr == name))


def _inline_with(caller, lst, i, call, helper, is_method, static):
    parts = _cm_parts(helper)
    if parts is None:
        return None
    w = lst[i]
    if call.args or call.keywords or helper.args.args[(1 if is_method and not static else 0):]:
        return None          # keep it simple: context-manager helpers without parameters
    if (_locals_of(helper) - {a.arg for a in helper.args.args}) & _locals_of(caller):
        return None
    body = copy.deepcopy(helper.body)
    if body and isinstance(body[0], ast.Expr) and isinstance(body[0].value, ast.Constant) and isinstance(body[0].value.value, str):
        body = body[1:]
    if is_method and not static and call.func.value.id != helper.args.args[0].arg:
        body = [_Rename({helper.args.args[0].arg: call.func.value.id}).visit(s) for s in body]

    def subst(stmts):
        out = []
        for s in stmts:
            if isinstance(s, ast.Expr) and isinstance(s.value, ast.Yield):
                out += w.body
                continue
            for fld in ("body", "orelse", "finalbody"):
                v = getattr(s, fld, None)
                if isinstance(v, list) and v and isinstance(v[0], ast.stmt) and not isinstance(s, (ast.FunctionDef, ast.ClassDef)):
                    setattr(s, fld, subst(v))
            for h in getattr(s, "handlers", []) or []:
                h.body = subst(h.body)
            out.append(s)
        return out
    return subst(body) or [ast.copy_location(ast.Pass(), w)]


def _inline_cond(caller, lst, i, call, helper, is_method, static):
    """`if [not] h(args): A` where A ends in a jump and h reports a boolean status: h's body with every `return <the value that triggers A>`
    replaced by A, and every `return <the other value>` -- which must be in tail position -- dropped (control falls through to what follows
    the if statement)."""
    st = lst[i]
    if not _bool_status_body(helper) or not st.body:
        return None
    rest = []
    negated = isinstance(st.test, ast.UnaryOp) and isinstance(st.test.op, ast.Not)
    if not isinstance(st.body[-1], (ast.Return, ast.Continue, ast.Break, ast.Raise)):
        # the canonical form of `if not h(): return` + rest at the tail of the caller: `if h(): rest`
        if negated or lst is not caller.body or i != len(lst) - 1:
            return None
        rest = st.body
        st = copy.copy(st)
        st.test = ast.copy_location(ast.UnaryOp(op=ast.Not(), operand=st.test), st.test)
        st.body = [ast.copy_location(ast.Return(value=None), st)]
    trigger = not (isinstance(st.test, ast.UnaryOp) and isinstance(st.test.op, ast.Not))      # `if h():` is triggered by True
    tails = set(id(r) for r in _tail_returns(helper.body))
    for r in [n for n in _own_nodes(helper) if isinstance(n, ast.Return)]:
        if r.value.value is not trigger and id(r) not in tails:
            return None
        # a `break` / `continue` in A would bind to a loop of the helper if the return sits inside one
    if isinstance(st.body[-1], (ast.Continue, ast.Break)) and any(isinstance(n, (ast.For, ast.While)) for n in _own_nodes(helper)):
        return None
    # reuse the statement machinery for argument binding and renaming: inline as an expression statement, then patch the returns
    marker_t, marker_f = "__inl_status_true__", "__inl_status_false__"
    fake = copy.deepcopy(helper)
    for r in [n for n in ast.walk(fake) if isinstance(n, ast.Return)]:
        r.value = ast.copy_location(ast.Name(id=marker_t if r.value.value else marker_f, ctx=ast.Load()), r)
    # (_simple_body would reject non-tail returns: bypass by converting returns into marker expression statements first)
    class _R(ast.NodeTransformer):
        def visit_Return(self, node):
            return ast.copy_location(ast.Expr(value=node.value), node)

        def visit_FunctionDef(self, node):
            if node is fake:
                self.generic_visit(node)
            return node
    _R().visit(fake)
    fake_list = [ast.copy_location(ast.Expr(value=call), st)]
    body = _inline_at(caller, fake_list, 0, call, fake, is_method, static)
    if body is None:
        return None

    def patch(stmts):
        out = []
        for s in stmts:
            if isinstance(s, ast.Expr) and isinstance(s.value, ast.Name) and s.value.id in (marker_t, marker_f):
                if (s.value.id == marker_t) is trigger:
                    out += copy.deepcopy(st.body)
                # the other value: tail position, falls through
                continue
            for fld in ("body", "orelse", "finalbody"):
                v = getattr(s, fld, None)
                if isinstance(v, list) and v and isinstance(v[0], ast.stmt) and not isinstance(s, (ast.FunctionDef, ast.ClassDef)):
                    nv = patch(v)
                    setattr(s, fld, nv if nv or fld != "body" else [ast.copy_location(ast.Pass(), s)])
            for h in getattr(s, "handlers", []) or []:
                h.body = patch(h.body) or [ast.copy_location(ast.Pass(), s)]
            out.append(s)
        return out
    return (patch(body) + list(rest)) or [ast.copy_location(ast.Pass(), st)]


def inline(trees, sources, select=None):
    """Inline the selected candidates (all if select is None) in place; returns the list of (path, class, name) inlined."""
    done = []
    for _round in range(3):
        cands = candidates(trees, sources)
        progress = False
        for key, helper in sorted(cands.items(), key=lambda kv: (kv[0][0], kv[0][1] or "", kv[0][2])):
            path, cname, name = key
            if (select is not None and name not in select) or key in done:
                continue
            tree = trees[path]
            decos = [ast.unparse(d) for d in helper.decorator_list]
            static = "staticmethod" in decos
            is_method = cname is not None
            if is_method:
                cls = next(c for c in tree.body if isinstance(c, ast.ClassDef) and c.name == cname)
                owners = [m for m in cls.body if isinstance(m, ast.FunctionDef) and m is not helper]
            else:
                owners = [n for n in ast.walk(tree) if isinstance(n, ast.FunctionDef) and n is not helper]
            # every reference to the name in the package must be one of the calls found here
            total_refs = sum(_n_refs(t_, name) for t_ in trees.values())
            plan = []
            ok = True
            for caller in owners:
                for lst, i, call, kind in _find_calls(caller, name, is_method):
                    if is_method and not static and not (caller.args.args and call.func.value.id == caller.args.args[0].arg):
                        ok = False
                        break
                    new = _inline_at(caller, lst, i, call, helper, is_method, static) if kind == "stmt" and "contextmanager" not in " ".join(decos) and _simple_body(helper) \
                        else _inline_with(caller, lst, i, call, helper, is_method, static) if kind == "with" \
                        else _inline_cond(caller, lst, i, call, helper, is_method, static) if kind == "cond" else None
                    if new is None:
                        ok = False
                        break
                    plan.append((lst, i, new))
                if not ok:
                    break
            if not ok or not plan or len(plan) != total_refs:
                continue
            # apply, highest index first within each list
            for lst, i, new in sorted(plan, key=lambda x: -x[1]):
                lst[i:i + 1] = new
            owner_body = cls.body if is_method else tree.body
            if helper in owner_body:
                owner_body.remove(helper)
            done.append(key)
            progress = True
        if not progress:
            break
    for t in trees.values():
        ast.fix_missing_locations(t)
    return done
