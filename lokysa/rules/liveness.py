"""Rules behind deadlock freedom (C01) and shared by C02/C05/C07/C09/C10.

R-WAKE, R-WAKE-LOCK, R-OWN-RESOLVE, R-DROP-RESOLVES, R-MGR-EXIT, R-NULLED,
R-MGR-SELF, R-POLL, R-LOCK-ORDER / R-WAIT-FOR, R-BLOCK-MGR.
"""
import ast

from ..model import func_nodes, norm, AnalysisError
from ..cfg import calls_in, _walk_noscope
from ..engine import SYNC_KINDS
from .util import (none_test, node_has_effect, effect_nodes, calls_method_of, recv_call, attr_stores,
                   attr_loads, stmt_of, parent, cfg_nodes, fmt_chain, sleep_call, loops_with_sleep)

FLAG_ATTRS = ("shutdown", "broken", "kill_workers")
REMOVE_METHODS = ("pop", "popitem", "clear")
RESOLVE_METHODS = ("set_result", "set_exception")


# ---------------------------------------------------------------------------
# common predicates
# ---------------------------------------------------------------------------

def wake_pred(e):
    a = e.anchors
    return calls_method_of(e, [a.wake_method.qualname])


def flag_writers(e):
    """Methods of the flags class that store a flag attribute: {qualname: set(attrs)}."""
    a = e.anchors
    out = {}
    c = e.prog.classes[a.flags_cls]
    for m in c.methods.values():
        if m.node.name == "__init__":
            continue
        for n in func_nodes(m):
            if isinstance(n, ast.Attribute) and isinstance(n.ctx, ast.Store) and n.attr in FLAG_ATTRS \
                    and isinstance(n.value, ast.Name) and m.params and n.value.id == m.params[0]:
                out.setdefault(m.qualname, set()).add(n.attr)
    init = c.methods.get("__init__")
    have = set()
    if init is not None:
        for n in func_nodes(init):
            if isinstance(n, ast.Attribute) and isinstance(n.ctx, ast.Store):
                have.add(n.attr)
    missing = [x for x in FLAG_ATTRS if x not in have]
    if missing:
        raise AnalysisError(f"flags class no longer has attributes {missing}")
    return out


def broken_pred(e):
    fw = flag_writers(e)
    qs = [q for q, attrs in fw.items() if "broken" in attrs]
    if not qs:
        raise AnalysisError("no method of the flags class sets `broken`")
    return calls_method_of(e, qs)


def spawn_pred(e):
    sites = {id(n) for _, n in e.anchors.spawn_sites}

    def pred(func, call):
        return id(call) in sites
    return pred


def resolve_pred(e):
    a = e.anchors

    def pred(func, call):
        return bool(e.receiver_objs(func, call, RESOLVE_METHODS) & a.future_objs)
    return pred


def manager_only(e, q):
    r = e.anchors.roles_of(q)
    return bool(r) and r <= {"MANAGER"}


# ---------------------------------------------------------------------------
# R-WAKE-LOCK
# ---------------------------------------------------------------------------

def r_wake_lock(e, R):
    a = e.anchors
    targets = {a.wake_method.qualname: "wake-up", a.wake_close_method.qualname: "close"}
    own = {m.qualname for m in e.prog.classes[a.wakeup_cls].methods.values()}
    for f, c in e.all_calls():
        if f.qualname in own:
            continue
        hit = e.callees_of(c) & set(targets)
        if not hit:
            continue
        what = targets[sorted(hit)[0]]
        held = e.held_full(f, c)
        ok = e.token_in(held, a.shutdown_lock)
        R.check(ok, "R-WAKE-LOCK", f"{f.short}: {norm(c)} ({what}) under the shutdown lock",
                f.short, norm(c),
                f"{what} of the wake-up pipe without the shutdown lock held (a wake-up can race with close())",
                e.loc(f, c))
    R.floor("R-WAKE-LOCK", 6)


# ---------------------------------------------------------------------------
# R-WAKE
# ---------------------------------------------------------------------------

def _wake_through(e, func, wake):
    """Predicate on CFG nodes of func: node certainly wakes the manager."""
    g = e.cfg(func)
    direct = effect_nodes(e, func, wake)
    loops = set()
    for n in g.nodes:
        if n.kind == "for_iter":
            # a for-loop whose every iteration wakes counts as a wake (zero
            # iterations = no manager registered)
            w = g.escape_path(n, lambda x: x in direct, start_labels=["T"],
                              until_pred=lambda x, n=n: any(s is n for s, _ in x.succ))
            if w is None and any(l == "T" for _, l in n.succ):
                loops.add(n)
    return direct | loops


def _null_wakeup_edge(e, func):
    """edge_ok that does not follow the branch on which the wake-up object is
    known to be None (already shut down: nothing to wake)."""
    a = e.anchors

    def edge_ok(n, m, label):
        if n.kind == "test":
            nt = none_test(n.ast)
            if nt is not None:
                subj, notnone = nt
                vals = e.pt.ev(func, e.expand(func, subj))
                if any(v in a.wakeup_objs for v in vals) and label not in (notnone, "exc"):
                    return False
        return True
    return edge_ok


def _lift_wake(e, R, func, node_list, chain, wake, seen):
    """Check that every normal path from each node to func's exit wakes the
    manager; otherwise lift the obligation to func's callers.  Returns the
    list of failures (boundary func, chain, escaping path)."""
    g = e.cfg(func)
    through = _wake_through(e, func, wake)
    edge_ok = _null_wakeup_edge(e, func)
    esc = None
    for n in node_list:
        esc = g.escape_path(n, lambda x: x in through, edge_ok=edge_ok)
        if esc is not None:
            break
    if esc is None:
        return []
    callers = [(cq, k, c) for cq, k, c in e.redges().get(func.qualname, ())
               if k in SYNC_KINDS and e.prog.funcs[cq].module.name != "__user__"]
    entries = _role_entries(e)
    if func.qualname in entries or not callers:
        return [(func, chain, esc)]
    fails = []
    for cq, k, c in callers:
        if (cq, id(c)) in seen:
            continue
        seen.add((cq, id(c)))
        cf = e.prog.funcs[cq]
        if manager_only(e, cq):
            continue  # the manager re-computes its wait set every iteration
        fails += _lift_wake(e, R, cf, cfg_nodes(e, cf, c), chain + [(cf, c)], wake, seen)
    return fails


def _role_entries(e):
    a = e.anchors
    out = {a.submit.qualname, a.shutdown.qualname, a.init.qualname, a.atexit_hook.qualname,
           a.gc_callback.qualname, a.feeder.qualname, a.worker_main.qualname, a.manager_run.qualname}
    out |= set(a.feeder_onerror)
    for cq, c in e.prog.classes.items():
        if e.pt.is_subclass(cq, a.executor_cls):
            for n in ("submit", "map", "shutdown", "get_reusable_executor"):
                if n in c.methods:
                    out.add(c.methods[n].qualname)
    return out


def r_wake(e, R, which=None):
    """which: optional set of instance kinds to report (others still counted)."""
    a = e.anchors
    wake = wake_pred(e)
    # precondition: the manager's wait has no timeout and its wait set is a snapshot
    waived = False
    for f, c in a.wait_calls:
        if len(c.args) > 1 or any(k.arg == "timeout" for k in c.keywords):
            waived = True
            R.note("R-WAKE: the manager's wait() has a timeout: spawn obligations waived")
    events = []  # (kind, func, ast node, description)
    # (a) puts on the work-id queue
    for f, c, recvs in e.method_calls(("put", "put_nowait"), lambda o: o in a.work_ids):
        if not manager_only(e, f.qualname):
            events.append(("work-id", f, c, "work id queued"))
    # (b) removals from the pending table off the manager thread
    for f, c, recvs in e.method_calls(REMOVE_METHODS, lambda o: o in a.pending):
        if not manager_only(e, f.qualname):
            events.append(("pending-removal", f, c, "pending item removed"))
    # (c) flag writes
    fw = flag_writers(e)
    for f, c in e.all_calls():
        if e.callees_of(c) & set(fw) and not manager_only(e, f.qualname) and f.qualname not in fw:
            events.append(("flag", f, c, "executor flag written"))
    # (d) module globals read by the manager and written elsewhere
    mg_reads = set()
    for q in a.manager_funcs:
        mf = e.prog.funcs[q]
        if not manager_only(e, q):
            continue
        for n in func_nodes(mf):
            if isinstance(n, ast.Name) and isinstance(n.ctx, ast.Load):
                k = e.pt.scope_key(mf, n.id)
                if k and k[0] == "G" and k[1] == mf.module.name and not e.pt.get(k):
                    mg_reads.add(k)
    for f in e.prog.funcs.values():
        if f.kind == "module" or f.module.name == "__user__" or manager_only(e, f.qualname):
            continue
        for n in func_nodes(f):
            if isinstance(n, ast.Name) and isinstance(n.ctx, ast.Store) and n.id in f.globals_decl:
                k = ("G", f.module.name, n.id)
                if k in mg_reads:
                    events.append(("global-flag", f, stmt_of(e, f, n), f"global {n.id} written"))
    # (e) insertion into the worker table (its sentinels are part of the wait set)
    if not waived:
        for f in e.prog.funcs.values():
            if f.module.name == "__user__":
                continue
            for n in func_nodes(f):
                if isinstance(n, ast.Subscript) and isinstance(n.ctx, ast.Store) \
                        and (e.objs(f, n.value) & a.processes):
                    events.append(("spawn", f, stmt_of(e, f, n), "worker registered"))
    # (f) the GC callback itself
    gc = a.gc_callback
    events.append(("gc", gc, None, "executor reference died"))

    for kind, f, node, desc in events:
        g = e.cfg(f)
        nodes = [g.entry] if node is None else cfg_nodes(e, f, node)
        if not nodes:
            raise AnalysisError(f"R-WAKE: event {desc} in {f.short} not found in its CFG")
        fails = _lift_wake(e, R, f, nodes, [(f, node)], wake, set())
        if not fails:
            R.ok("R-WAKE", f"{kind}: {desc} in {f.short} is followed by a wake-up on every path up to the API boundary",
                 e.loc(f, node) if node is not None else f.module.path)
        for bf, chain, esc in fails:
            last = chain[-1]
            construct = norm(last[1]) if last[1] is not None else "<entry>"
            path = [f"{cf.short}: {norm(c)[:100] if c is not None else '<entry>'}" for cf, c in chain]
            path += ["  escaping path in " + bf.short + ":"] + ["    " + s for s in e.cfg(bf).fmt_path(esc)][-8:]
            R.fail("R-WAKE", bf.short, f"{kind}: {construct}",
                   f"{desc} ({f.short}) is not followed by a wake-up of the manager before {bf.short} returns: "
                   f"the manager may already be blocked in wait() on a snapshot that predates the write",
                   e.loc(bf, last[1]) if last[1] is not None else bf.module.path, path,
                   instance=f"{kind}: {desc} in {f.short} -> {bf.short}")
    R.floor("R-WAKE", 6)


# ---------------------------------------------------------------------------
# R-WAKE-CLEAR
# ---------------------------------------------------------------------------

def r_wake_clear(e, R):
    """Draining the wake-up pipe must happen BEFORE the manager re-reads the
    state a wake-up can announce: on every path from a drain to the next
    blocking wait the loop must pass through the work-id read and through the
    shutting-down predicate.  Otherwise a wake-up sent after those reads but
    before the drain is swallowed and the manager blocks forever."""
    a = e.anchors
    run = a.manager_run
    g = e.cfg(run)
    clear_q = a.wake_clear_method.qualname
    wait_ids = {id(c) for _, c in a.wait_calls}

    def is_wait(f, c):
        return id(c) in wait_ids
    clear = calls_method_of(e, [clear_q])
    cn = effect_nodes(e, run, clear)
    wn = effect_nodes(e, run, is_wait)
    if not wn:
        raise AnalysisError("manager loop: blocking wait not reachable")
    R.check(bool(cn), "R-WAKE-CLEAR", "manager loop drains the wake-up pipe", run.short, "thread_wakeup.clear()",
            "the wake-up pipe is never drained: once woken the manager spins", e.loc(run, run.node))
    # inside a callee that both waits and drains, the drain must follow the wait
    both = cn & wn
    for n in both:
        for c in calls_in(n):
            for q in e.callees_of(c):
                cf = e.prog.funcs[q]
                cg = e.cfg(cf)
                cw = effect_nodes(e, cf, is_wait)
                cc = effect_nodes(e, cf, clear)
                if cw and cc:
                    ok = all(any(cg.dominates(w_, x) for w_ in cw) for x in cc) and not any(cg.path_exists(x, lambda m: m in cw, use_exc=False) for x in cc)
                    R.check(ok, "R-WAKE-CLEAR", f"{cf.short}: the drain follows the wait it belongs to", cf.short, "wait(...) ... clear()",
                            "the wake-up pipe is drained before waiting: every pending wake-up is discarded right before blocking", e.loc(cf, cf.node))
    # readers of wake-announced state
    reads_ids = effect_nodes(e, run, recv_call(e, ("get", "get_nowait"), a.work_ids))
    from .shutdown import shutting_down_func
    sdf, _ = shutting_down_func(e)
    reads_sd = {n for n in g.nodes if any(sdf.qualname in e.callees_of(c) for c in calls_in(n))}
    for what, S in (("the work-id queue is read", reads_ids), ("the shutting-down predicate is evaluated", reads_sd)):
        if not S:
            raise AnalysisError(f"manager loop: no node where {what}")
        for c_ in cn:
            esc = g.find_path(c_, lambda n: n in wn, avoid=S, use_exc=False)
            # a node that waits-then-drains restarts the obligation at itself
            R.check(esc is None, "R-WAKE-CLEAR", f"between a drain and the next wait, {what}", run.short,
                    norm(c_.ast)[:70] if c_.ast is not None else "clear",
                    f"a path goes from draining the wake-up pipe to the next blocking wait without a point where {what}: a wake-up sent "
                    "after that state was last examined is swallowed by the drain and the manager blocks forever (submit/shutdown hang)",
                    e.loc(run, c_.ast), g.fmt_path(esc) if esc else None)
    R.floor("R-WAKE-CLEAR", 3)


# ---------------------------------------------------------------------------
# R-OWN-RESOLVE / R-DROP-RESOLVES
# ---------------------------------------------------------------------------

def _removal_sites(e):
    """(func, call-or-del node, kind) removing from the pending table."""
    a = e.anchors
    out = []
    for f, c, recvs in e.method_calls(REMOVE_METHODS, lambda o: o in a.pending):
        out.append((f, c, c.func.attr if isinstance(c.func, ast.Attribute) else "pop"))
    for f in e.prog.funcs.values():
        if f.module.name == "__user__":
            continue
        for n in func_nodes(f):
            if isinstance(n, ast.Delete):
                for t in n.targets:
                    if isinstance(t, ast.Subscript) and (e.objs(f, t.value) & a.pending):
                        out.append((f, n, "del"))
    return out


def _origin(e, func, name_expr):
    """How the work item named by name_expr was obtained:
    ('removed', call) | ('iter', for node) | ('index', subscript) | ('other', expr)."""
    a = e.anchors
    if not isinstance(name_expr, ast.Name):
        return ("other", name_expr)
    name = name_expr.id
    res = []
    for n in func_nodes(func):
        if isinstance(n, ast.Assign):
            for t in n.targets:
                names = [t] if isinstance(t, ast.Name) else (t.elts if isinstance(t, (ast.Tuple, ast.List)) else [])
                if any(isinstance(x, ast.Name) and x.id == name for x in names):
                    v = n.value
                    # `d.popitem()[1]` / `d.pop(k)[...]`: the element of the removed pair
                    if isinstance(v, ast.Subscript) and isinstance(v.value, ast.Call) and e.receiver_objs(func, v.value, ("pop", "popitem")) & a.pending:
                        v = v.value
                    if isinstance(v, ast.Call) and e.receiver_objs(func, v, ("pop", "popitem")) & a.pending:
                        res.append(("removed", v))
                    elif isinstance(v, ast.Subscript) and (e.objs(func, v.value) & a.pending):
                        res.append(("index", v))
                    elif isinstance(v, ast.Call) and e.receiver_objs(func, v, ("get",)) & a.pending:
                        res.append(("index", v))
                    else:
                        res.append(("other", v))
        elif isinstance(n, (ast.For, ast.comprehension)):
            tg = n.target
            names = [tg] if isinstance(tg, ast.Name) else (tg.elts if isinstance(tg, (ast.Tuple, ast.List)) else [])
            if any(isinstance(x, ast.Name) and x.id == name for x in names):
                res.append(("iter", n))
    return res


def _iterates_pending(e, func, it):
    """Does iterating `it` walk the live pending table (not a snapshot)?"""
    a = e.anchors
    it = e.expand(func, it)
    if e.objs(func, it) & a.pending:
        return True
    if isinstance(it, ast.Call) and isinstance(it.func, ast.Attribute) and it.func.attr in ("values", "items", "keys") \
            and (e.objs(func, it.func.value) & a.pending):
        return True
    return False


def r_own_resolve(e, R):
    a = e.anchors
    res = resolve_pred(e)
    sites = 0
    for f, c in e.all_calls():
        if not res(f, c):
            continue
        # receiver is <item>.<future_attr>
        recv = c.func.value if isinstance(c.func, ast.Attribute) else None
        if not (isinstance(recv, ast.Attribute) and recv.attr == a.future_attr):
            continue
        if not (e.objs(f, recv.value) & a.workitem_objs):
            continue
        sites += 1
        origins = _origin(e, f, recv.value)
        bad = [o for o in origins if o[0] != "removed"]
        if not origins:
            bad = [("other", recv.value)]
        if bad:
            o = bad[0]
            if isinstance(o[1], (ast.For, ast.comprehension)):
                construct = f"for {norm(o[1].target)} in {norm(o[1].iter)}"
            else:
                construct = norm(o[1])
            R.fail("R-OWN-RESOLVE", f.short, construct,
                   f"a future is resolved ({norm(c)[:60]}) on an item that was not atomically removed from the pending "
                   f"table by this thread: another role (feeder error path / manager) may remove or resolve it "
                   f"concurrently, and iterating the live dict can raise `dictionary changed size during iteration`",
                   e.loc(f, c), instance=f"{f.short}: {norm(c)[:70]}")
        else:
            R.ok("R-OWN-RESOLVE", f"{f.short}: {norm(c)[:70]} resolves an item this thread removed atomically", e.loc(f, c))
    # iteration over the live table while another role may remove
    removers = {}
    for f, c, k in _removal_sites(e):
        for r in a.roles_of(f.qualname):
            removers.setdefault(r, []).append(f.short)
    for f in e.prog.funcs.values():
        if f.module.name == "__user__":
            continue
        for n in func_nodes(f):
            if isinstance(n, (ast.For, ast.comprehension)) and _iterates_pending(e, f, n.iter):
                others = {r for r in removers if r not in a.roles_of(f.qualname) or len(a.roles_of(f.qualname)) > 1}
                tgt = n.target
                construct = f"for {norm(tgt)} in {norm(n.iter)}"
                if others:
                    R.fail("R-OWN-RESOLVE", f.short, construct,
                           f"iterates the live pending table while {sorted(others)} may remove entries concurrently",
                           e.loc(f, n.iter), instance=f"{f.short}: iteration {construct}")
    R.floor("R-OWN-RESOLVE", 4)


def r_cancel_safe(e, R):
    """Resolving a future that was never dispatched can hit a CANCELLED one:
    Future.set_exception / set_result then raise InvalidStateError.  An item
    obtained by popitem() / iteration is an arbitrary pending item (possibly
    still queued, hence cancellable); such a resolution must be enclosed by a
    handler of InvalidStateError.  Items popped under the id carried by a
    result / call item were dispatched (RUNNING: not cancellable)."""
    a = e.anchors
    res = resolve_pred(e)
    n = 0
    for f, c in e.all_calls():
        if not res(f, c):
            continue
        recv = c.func.value if isinstance(c.func, ast.Attribute) else None
        if not (isinstance(recv, ast.Attribute) and recv.attr == a.future_attr and e.objs(f, recv.value) & a.workitem_objs):
            continue
        n += 1
        origins = _origin(e, f, recv.value)
        arbitrary = False
        for kind, node in origins:
            if kind == "removed" and isinstance(node, ast.Call) and isinstance(node.func, ast.Attribute):
                if node.func.attr == "popitem":
                    arbitrary = True
                elif node.func.attr == "pop":
                    key = node.args[0] if node.args else None
                    if isinstance(key, ast.Name) and len(e.local_defs(f, key.id)) == 1:
                        key = e.local_defs(f, key.id)[0]          # the id read once into a local (`work_id = obj.work_id`)
                    dispatched = isinstance(key, ast.Attribute) and isinstance(key.value, ast.Name) and key.value.id in f.params
                    if not dispatched:
                        arbitrary = True
            else:
                arbitrary = True
        if not arbitrary:
            R.ok("R-CANCEL-SAFE", f"{f.short}: {norm(c)[:60]} resolves a dispatched (RUNNING, not cancellable) item", e.loc(f, c))
            continue
        g = e.cfg(f)
        ok = True
        for cn in cfg_nodes(e, f, c):
            hs = [m for m, l in cn.succ if l == "exc" and m.kind == "except"]
            if not any(h.ast.type is None or any(t in norm(h.ast.type) for t in ("InvalidStateError", "Exception", "BaseException")) for h in hs):
                ok = False
        R.check(ok, "R-CANCEL-SAFE", f"{f.short}: {norm(c)[:50]} on an arbitrary pending item tolerates a cancelled future", f.short, norm(c)[:80],
                "a future taken from the whole pending table (possibly still queued, so cancel() may have succeeded) is resolved without "
                "handling InvalidStateError: on a cancelled future set_exception raises, the manager thread dies in the middle of failing "
                "everything, the remaining futures stay pending and the workers are neither killed nor reaped", e.loc(f, c))
    R.trust("Future.set_result/set_exception raise InvalidStateError on a CANCELLED or FINISHED future (re-checked against the stdlib source in the thorough tier)")
    if n < 4:
        raise AnalysisError(f"R-CANCEL-SAFE: {n} resolution sites found (floor 4)")


def r_callback_lock(e, R):
    """Future.set_result / set_exception run the user's done-callbacks
    synchronously in the resolving thread.  A callback may re-enter the API
    (submit, shutdown, get_reusable_executor take the shutdown lock / the
    management lock): resolving a future while holding one of loky's
    non-re-entrant locks deadlocks that thread for good."""
    a = e.anchors
    res = resolve_pred(e)
    n = 0
    for f, c in e.all_calls():
        if not res(f, c):
            continue
        n += 1
        held = [t for t in e.held_full(f, c) if _is_lock(e, t)]
        # may-held through some caller counts as well: one locked path is enough to deadlock
        may = [t for t in (e.held_at_call(f, c) | e.entry_may_held().get(f.qualname, frozenset())) if _is_lock(e, t)]
        bad = held or may
        R.check(not bad, "R-CALLBACK-LOCK", f"{f.short}: {norm(c)[:50]} runs the done-callbacks with no lock held", f.short, norm(c)[:80],
                f"a future is resolved while {', '.join(_lock_name(e, t) for t in bad)} is held: done-callbacks run synchronously in this thread "
                "and a callback that calls submit()/shutdown()/get_reusable_executor() blocks on that lock forever (the manager or feeder thread "
                "is stuck mid-way: remaining futures unresolved, workers not killed, every later API call hangs)", e.loc(f, c))
    if n < 4:
        raise AnalysisError(f"R-CALLBACK-LOCK: {n} resolution sites found (floor 4)")


def r_drop_resolves(e, R):
    a = e.anchors
    res = resolve_pred(e)
    for f, node, kind in _removal_sites(e):
        g = e.cfg(f)
        if kind in ("pop", "popitem"):
            st = stmt_of(e, f, node)
            var = None
            if isinstance(st, ast.Assign):
                t = st.targets[0]
                if isinstance(t, ast.Name):
                    var = t.id
                elif isinstance(t, (ast.Tuple, ast.List)) and isinstance(t.elts[-1], ast.Name):
                    var = t.elts[-1].id
            if var is None:
                R.fail("R-DROP-RESOLVES", f.short, norm(st), "item removed from the pending table and dropped",
                       e.loc(f, node))
                continue

            def resolves(n, var=var):
                for c in calls_in(n):
                    if res(f, c):
                        rv = c.func.value
                        if isinstance(rv, ast.Attribute) and isinstance(rv.value, ast.Name) and rv.value.id == var:
                            return True
                return False

            def edge_ok(n, m, label, var=var):
                if n.kind == "test":
                    nt = none_test(n.ast)
                    if nt and isinstance(nt[0], ast.Name) and nt[0].id == var and label not in (nt[1], "exc"):
                        return False  # item is None: nothing was removed
                return True
            bad = None
            for n in cfg_nodes(e, f, st):
                w = g.escape_path(n, resolves, edge_ok=edge_ok,
                                  until_pred=lambda x, n=n: x is n)
                if w is not None:
                    bad = w
                    break
            R.check(bad is None, "R-DROP-RESOLVES",
                    f"{f.short}: item removed by {norm(node)[:60]} is resolved on every path", f.short, norm(st),
                    "an item is removed from the pending table but on some path its future is never resolved",
                    e.loc(f, node), g.fmt_path(bad) if bad else None)
        elif kind == "del":
            ok = False
            for n in cfg_nodes(e, f, node):
                for t in g.nodes:
                    if t.kind == "test" and any(isinstance(c.func, ast.Attribute) and c.func.attr == "set_running_or_notify_cancel"
                                                for c in calls_in(t)):
                        if g.on_branch(n, t, "F"):
                            ok = True
            R.check(ok, "R-DROP-RESOLVES", f"{f.short}: {norm(node)} only for an already cancelled future", f.short,
                    norm(node), "an item is deleted from the pending table without being resolved or cancelled",
                    e.loc(f, node))
        elif kind == "clear":
            # must be dominated by a loop over the same table that resolves every element
            ok = False
            for n in cfg_nodes(e, f, node):
                for l in g.nodes:
                    if l.kind == "for_iter" and _iterates_pending(e, f, l.ast.iter) and g.dominates(l, n):
                        body_res = any(res(f, c) for x in _walk_noscope(l.ast) if isinstance(x, ast.Call) for c in [x])
                        if body_res:
                            ok = True
            R.check(ok, "R-DROP-RESOLVES", f"{f.short}: {norm(node)} after every element was resolved", f.short,
                    norm(node), "the pending table is cleared without resolving its items", e.loc(f, node))
    R.floor("R-DROP-RESOLVES", 5)


# ---------------------------------------------------------------------------
# R-ITER-SNAPSHOT
# ---------------------------------------------------------------------------

SNAPSHOT_FUNCS = ("list", "tuple", "dict", "sorted", "set", "frozenset")
MUTATORS = ("pop", "popitem", "clear", "update", "setdefault", "append", "remove", "extend", "insert")


def _live_view(e, func, it, shared):
    """The shared container walked live by iterating `it` (None if a snapshot)."""
    it = e.expand(func, it)
    if isinstance(it, ast.Call) and isinstance(it.func, ast.Name) and it.func.id in SNAPSHOT_FUNCS:
        return None
    if isinstance(it, ast.Call) and isinstance(it.func, ast.Attribute) and it.func.attr in ("values", "items", "keys") and not it.args:
        o = e.objs(func, it.func.value) & shared
        return o or None
    o = e.objs(func, it) & shared
    return o or None


def r_iter_snapshot(e, R):
    """A dict shared between threads is iterated only through a snapshot
    (list(...)) unless every concurrent mutation is serialised with the
    iteration by a common lock: otherwise `dictionary changed size during
    iteration` kills the iterating thread (the manager: every future pending)."""
    a = e.anchors
    shared = {"worker table": a.processes, "pending table": a.pending}
    allshared = frozenset().union(*shared.values())
    # mutation sites: (func, node, held tokens)
    muts = []
    for f in e.prog.funcs.values():
        if f.module.name == "__user__":
            continue
        g = None
        for n in func_nodes(f):
            objs = None
            if isinstance(n, ast.Subscript) and isinstance(n.ctx, (ast.Store, ast.Del)):
                objs = e.objs(f, n.value) & allshared
            elif isinstance(n, ast.Call) and isinstance(n.func, ast.Attribute) and n.func.attr in MUTATORS:
                objs = e.objs(f, n.func.value) & allshared
            if objs:
                g = g or e.cfg(f)
                cn = cfg_nodes(e, f, n)
                h = None
                for c_ in cn:
                    hh = e.held(f)[c_] | e.entry_held().get(f.qualname, frozenset())
                    h = hh if h is None else h & hh
                muts.append((f, n, frozenset(objs), h or frozenset()))
    n_iter = 0
    for f in e.prog.funcs.values():
        if f.module.name == "__user__":
            continue
        for n in func_nodes(f):
            iters = []
            if isinstance(n, (ast.For, ast.comprehension)):
                iters.append(n.iter)
            for it in iters:
                objs = _live_view(e, f, it, allshared)
                if not objs:
                    continue
                n_iter += 1
                cn = cfg_nodes(e, f, it)
                h = None
                for c_ in cn:
                    hh = e.held(f)[c_] | e.entry_held().get(f.qualname, frozenset())
                    h = hh if h is None else h & hh
                h = h or frozenset()
                froles = a.roles_of(f.qualname)
                bad = None
                for mf, mn, mobjs, mh in muts:
                    if not (mobjs & objs):
                        continue
                    mroles = a.roles_of(mf.qualname)
                    concurrent = bool((mroles - froles) or (froles - mroles) or "USER" in (mroles & froles)) and mf is not f
                    if concurrent and not (h & mh):
                        bad = (mf, mn)
                        break
                name = [k for k, v in shared.items() if v & objs][0]
                R.check(bad is None, "R-ITER-SNAPSHOT", f"{f.short}: live iteration `{norm(it)[:50]}` over the {name} is serialised with every mutation", f.short,
                        f"for ... in {norm(it)[:70]}",
                        f"the {name} is iterated live (no list(...) snapshot) while {bad[0].short if bad else ''} may `{norm(bad[1])[:40] if bad else ''}` it "
                        "from another thread without a common lock: `RuntimeError: dictionary changed size during iteration` in the iterating thread",
                        e.loc(f, it))
    R.info["live_iterations_of_shared_tables"] = n_iter
    if not n_iter:
        R.ok("R-ITER-SNAPSHOT", f"every iteration over the shared tables goes through a snapshot ({len(muts)} mutation sites considered)", None)


# ---------------------------------------------------------------------------
# R-MGR-EXIT
# ---------------------------------------------------------------------------

def close_callq_pred(e):
    a = e.anchors
    return recv_call(e, "close", a.callq)


def r_mgr_exit(e, R):
    a = e.anchors
    f = a.manager_run
    g = e.cfg(f)
    broken = broken_pred(e)
    closeq = close_callq_pred(e)
    broken_nodes = effect_nodes(e, f, broken)
    join_nodes = effect_nodes(e, f, closeq)
    exits = [p for p, l in g.exit.pred]
    n_exits = 0
    for x in exits:
        n_exits += 1
        ok = False
        why = ""
        if any(g.dominates(b, x) and b is not x for b in broken_nodes):
            # the broken-pool routine must itself fail everything and join
            ok = True
            why = "after the broken-pool routine"
        else:
            for t in g.nodes:
                if t.kind != "test":
                    continue
                # emptiness test of the pending table
                subj = t.ast
                if e.objs(f, e.expand(f, subj)) & a.pending or \
                        (isinstance(subj, ast.Call) and isinstance(subj.func, ast.Name) and subj.func.id == "len"
                         and e.objs(f, subj.args[0]) & a.pending):
                    if g.on_branch(x, t, "F") and any(g.dominates(j, x) and g.on_branch(j, t, "F") or j is x for j in join_nodes):
                        ok = True
                        why = "on the empty-pending branch after joining the executor internals"
        R.check(ok, "R-MGR-EXIT", f"manager exit {x!r} {why}", f.short, norm(x.ast) if x.ast else "<fallthrough>",
                "the manager thread can leave its loop while work items may still be pending "
                "(exit not dominated by the broken-pool routine nor by an emptiness test of the pending table "
                "followed by the join of the executor internals)", e.loc(f, x.ast) if x.ast else None)
    for n in g.nodes:
        if n.kind == "stmt" and isinstance(n.ast, ast.Raise):
            R.fail("R-MGR-EXIT", f.short, norm(n.ast), "the manager loop raises: pending futures would never resolve",
                   e.loc(f, n.ast))
    R.floor("R-MGR-EXIT", 2)


# ---------------------------------------------------------------------------
# R-NULLED
# ---------------------------------------------------------------------------

def nulled_fields(e):
    a = e.anchors
    f = a.shutdown
    out = set()
    if not f.params:
        raise AnalysisError("shutdown has no self parameter")
    selfname = f.params[0]
    for n in func_nodes(f):
        if isinstance(n, ast.Assign) and isinstance(n.value, ast.Constant) and n.value.value is None:
            for t in n.targets:
                if isinstance(t, ast.Attribute) and isinstance(t.value, ast.Name) and t.value.id == selfname:
                    out.add(t.attr)
    return out


def _flag_gate_tests(e, func):
    """[(test node, safe label)] : tests of the shutdown flag in func."""
    a = e.anchors
    g = e.cfg(func)
    out = []
    for t in g.nodes:
        if t.kind != "test":
            continue
        x = t.ast
        if isinstance(x, ast.Attribute) and x.attr == "shutdown" and (set(e.pt.ev(func, x.value)) & a.flags_objs):
            # a flag test is a gate only if some lock serialises it with the caller's use of the fields
            if e.held(func)[t] | e.entry_held().get(func.qualname, frozenset()):
                out.append((t, "F"))
    return out


def _none_gates(e, func, field_exprs_pred):
    """[(test node, not-none label)] for None-tests whose subject is (a local
    copy of) a nulled field."""
    g = e.cfg(func)
    out = []
    for t in g.nodes:
        if t.kind != "test":
            continue
        nt = none_test(t.ast)
        if nt is None:
            continue
        subj = e.expand(func, nt[0])
        if field_exprs_pred(func, subj):
            out.append((t, nt[1], subj.attr))
    return out


def r_nulled(e, R):
    a = e.anchors
    F = nulled_fields(e)
    if len(F) < 1:
        raise AnalysisError("R-NULLED: shutdown() nulls no field (anchor moved?)")
    R.info["nulled_fields"] = sorted(F)
    ex = a.executor_objs

    def is_field(func, x):
        return isinstance(x, ast.Attribute) and x.attr in F and bool(set(e.pt.ev(func, x.value)) & ex)

    # check-then-use on two different reads: a None-test on a local snapshot of a field that shutdown() nulls does not protect a
    # *second read of the field itself* on the guarded branch -- a concurrent shutdown(wait=True) can null it in between
    for q in sorted(a.executor_funcs):
        f_ = e.prog.funcs[q]
        if not f_.params:
            continue
        g_ = e.cfg(f_)
        snaps = {}
        for n in func_nodes(f_):
            if isinstance(n, ast.Assign) and len(n.targets) == 1 and isinstance(n.targets[0], ast.Name) and is_field(f_, n.value):
                snaps.setdefault(n.targets[0].id, set()).add(n.value.attr)
        for t_ in [x for x in g_.nodes if x.kind == "test"]:
            nt = none_test(t_.ast)
            if not nt or not isinstance(nt[0], ast.Name) or nt[0].id not in snaps:
                continue
            for fld in snaps[nt[0].id]:
                for n in g_.nodes:
                    if n.kind not in ("stmt", "test", "with_enter") or not g_.on_branch(n, t_, nt[1]) or n.ast is None:
                        continue
                    rereads = [x for x in ast.walk(n.ast if not isinstance(n.ast, ast.withitem) else n.ast.context_expr)
                               if isinstance(x, ast.Attribute) and isinstance(x.ctx, ast.Load) and x.attr == fld and is_field(f_, x)]
                    for x in rereads:
                        R.fail("R-NULLED", f_.short, f"re-read of {fld} under a test of its snapshot `{nt[0].id}`",
                               f"`{norm(t_.ast)}` tests a snapshot of `{fld}`, but the guarded statement reads the attribute again (`{norm(x)}`): a concurrent "
                               "shutdown(wait=True) that completes in between has set it to None and this call raises AttributeError", e.loc(f_, x))
    # when are the fields nulled?  If every nulling store of shutdown() is executed only after the manager thread was joined,
    # or when no manager thread exists, the MANAGER role can never observe a nulled field.
    sd = a.shutdown
    sg = e.cfg(sd)
    selfn = sd.params[0]
    null_nodes = [n for n in sg.nodes if n.kind == "stmt" and isinstance(n.ast, ast.Assign) and isinstance(n.ast.value, ast.Constant)
                  and n.ast.value.value is None and any(isinstance(t, ast.Attribute) and isinstance(t.value, ast.Name) and t.value.id == selfn for t in n.ast.targets)]
    joins = {n for n in sg.nodes for c in calls_in(n) if isinstance(c.func, ast.Attribute) and c.func.attr == "join" and e.objs(sd, c.func.value) & a.manager_objs}
    thread_locals = {n.targets[0].id for n in func_nodes(sd) if isinstance(n, ast.Assign) and isinstance(n.targets[0], ast.Name)
                     and ({v for v in e.pt.ev(sd, n.value)} & a.manager_objs)}
    from .util import feasible_paths
    manager_safe = bool(null_nodes)
    witness = None
    for nn in null_nodes:
        for path in feasible_paths(e, sd, lambda x, nn=nn: x is nn):
            joined = any(pn in joins for pn, _ in path)
            no_thread = False
            for pn, lab in path:
                if pn.kind == "test":
                    nt = none_test(pn.ast)
                    if nt and isinstance(nt[0], ast.Name) and nt[0].id in thread_locals and not isinstance(pn.ast, ast.Name) and lab in ("T", "F") and lab != nt[1]:
                        no_thread = True
            if not (joined or no_thread):
                manager_safe = False
                witness = path
    R.info["fields_nulled_only_after_manager_joined"] = manager_safe
    ctor = e.reach([a.init.qualname] + [c.methods["__init__"].qualname for cq, c in e.prog.classes.items()
                                        if e.pt.is_subclass(cq, a.executor_cls) and "__init__" in c.methods])
    entries = _role_entries(e)

    # locally gated call sites / loads --------------------------------------
    def gated_in(func, astnode, field=None):
        g = e.cfg(func)
        nodes = cfg_nodes(e, func, astnode)
        if not nodes:
            return False
        gates = [(t, l) for t, l in _flag_gate_tests(e, func)]
        ngates = [(t, l) for t, l, fld in _none_gates(e, func, is_field) if field is None or fld == field]
        held = e.held(func)
        for n in nodes:
            ok = any(g.on_branch(n, t, l) for t, l in ngates)
            for t, l in gates:
                # a flag gate protects only what runs inside the lock region it was tested in
                if g.on_branch(n, t, l) and (held[t] <= held[n] or not held[t]):
                    ok = True
            if not ok:
                return False
        return True

    # SAFE functions: every synchronous call chain into them passes a gate or
    # belongs to the constructor phase
    safe = {q: True for q in e.prog.funcs}
    changed = True
    red = e.redges()
    for q in e.prog.funcs:
        callers = [(cq, k, c) for cq, k, c in red.get(q, ()) if e.prog.funcs[cq].module.name != "__user__"]
        if q in entries or not callers or any(k not in SYNC_KINDS for _, k, _ in callers):
            safe[q] = False
    while changed:
        changed = False
        for q in e.prog.funcs:
            if not safe[q]:
                continue
            for cq, k, c in red.get(q, ()):
                cf = e.prog.funcs[cq]
                if cf.module.name == "__user__" or k not in SYNC_KINDS:
                    continue
                if cq in ctor and cq != a.submit.qualname and not _reachable_outside_ctor(e, cq, ctor):
                    continue
                if safe[cq] or gated_in(cf, c):
                    continue
                safe[q] = False
                changed = True
                break
    n_loads = 0
    for f, n in attr_loads(e, F, ex):
        if f.qualname in ctor and not _reachable_outside_ctor(e, f.qualname, ctor):
            continue
        n_loads += 1
        par = parent(e, n)
        inst = f"{f.short}: load of {norm(n)}"
        # operand of a None test, or copied to a local that is None-tested before use
        if isinstance(par, ast.Compare) and none_test(par) is not None:
            R.ok("R-NULLED", inst + " (operand of a None test)", e.loc(f, n))
            continue
        if isinstance(par, ast.Assign) and par.value is n and all(isinstance(t, ast.Name) for t in par.targets):
            bad_use = _unguarded_deref(e, f, par.targets[0].id)
            if bad_use is not None and gated_in(f, n, n.attr):
                # a snapshot taken where a direct read would be accepted (behind the gate), and dereferenced only inside the critical
                # section it was taken in (a lock held at the load is still held at every dereference), is that direct read
                g_ = e.cfg(f)
                held_ = e.held(f)
                ln = cfg_nodes(e, f, n)
                locks_at_load = None
                for x in ln:
                    locks_at_load = held_[x] if locks_at_load is None else locks_at_load & held_[x]
                ok_cs = bool(locks_at_load)
                for u in func_nodes(f):
                    if isinstance(u, ast.Name) and u.id == par.targets[0].id and isinstance(u.ctx, ast.Load):
                        for cn in cfg_nodes(e, f, u):
                            if not (locks_at_load and locks_at_load <= held_[cn] and any(g_.dominates(x, cn) for x in ln)):
                                ok_cs = False
                if ok_cs and len(e.local_defs(f, par.targets[0].id)) == 1:
                    R.ok("R-NULLED", inst + " (local copy taken behind the gate and used inside the same critical section)", e.loc(f, n))
                    continue
            R.check(bad_use is None, "R-NULLED", inst + " (local copy, dereferenced only under a None test)", f.short,
                    norm(n), f"field nulled by shutdown() is copied to a local and dereferenced without a None test: "
                    f"{norm(bad_use) if bad_use is not None else ''}", e.loc(f, n))
            continue
        if safe[f.qualname]:
            R.ok("R-NULLED", inst + " (function only reachable through the submit gate / flag test)", e.loc(f, n))
            continue
        if manager_safe and _only_manager_ungated(e, f.qualname, safe, gated_in):
            R.ok("R-NULLED", inst + " (ungated only on the manager thread, and shutdown() nulls the fields only after joining it / when it does not exist)",
                 e.loc(f, n))
            continue
        if gated_in(f, n, n.attr):
            R.ok("R-NULLED", inst + " (dominated by a gate in this function)", e.loc(f, n))
            continue
        roles = sorted(a.roles_of(f.qualname))
        chain = _ungated_chain(e, f.qualname, safe, gated_in)
        R.fail("R-NULLED", f.short, norm(n),
               f"loads `{n.attr}`, which shutdown() sets to None, on a path that passes no shutdown-flag gate and no "
               f"None test (roles {roles}); after shutdown(wait=False) this dereferences None",
               e.loc(f, n), chain, instance=inst)
    if n_loads < 8:
        raise AnalysisError(f"R-NULLED: only {n_loads} loads of nulled fields found (floor 8)")


def _only_manager_ungated(e, q, safe, gated_in, _seen=None):
    """Every ungated synchronous call chain into q starts in a manager-only function."""
    seen = _seen or set()
    if q in seen:
        return True
    seen.add(q)
    if manager_only(e, q):
        return True
    callers = [(cq, k, c) for cq, k, c in e.redges().get(q, ()) if k in SYNC_KINDS and e.prog.funcs[cq].module.name != "__user__"]
    if not callers:
        return False
    for cq, k, c in callers:
        cf = e.prog.funcs[cq]
        if safe.get(cq) or gated_in(cf, c):
            continue
        if not _only_manager_ungated(e, cq, safe, gated_in, seen):
            return False
    return True


def _dominated_by_branch(g, n, t, label):
    return False


def _reachable_outside_ctor(e, q, ctor):
    """Is q called from a function outside the constructor phase?"""
    for cq, k, c in e.redges().get(q, ()):
        if e.prog.funcs[cq].module.name == "__user__":
            continue
        if cq not in ctor:
            return True
    return False


def _unguarded_deref(e, func, name):
    """A dereference of local `name` not on the not-None branch of a None test
    of it; None if all are guarded."""
    g = e.cfg(func)
    gates = []
    for t in g.nodes:
        if t.kind == "test":
            nt = none_test(t.ast)
            if nt and isinstance(nt[0], ast.Name) and nt[0].id == name:
                gates.append((t, nt[1]))
    for n in func_nodes(func):
        if isinstance(n, ast.Name) and n.id == name and isinstance(n.ctx, ast.Load):
            par = parent(e, n)
            deref = isinstance(par, ast.Attribute) or (isinstance(par, ast.Call) and par.func is n) \
                or isinstance(par, ast.withitem) or isinstance(par, ast.Subscript)
            if not deref:
                continue
            nodes = cfg_nodes(e, func, n)
            for cn in nodes:
                if not any(g.on_branch(cn, t, l) for t, l in gates):
                    return par
    return None


def _ungated_chain(e, q, safe, gated_in):
    """One ungated synchronous call chain from a role entry to q."""
    seen = set()
    chain = []
    cur = q
    while cur not in seen:
        seen.add(cur)
        nxt = None
        for cq, k, c in e.redges().get(cur, ()):
            cf = e.prog.funcs[cq]
            if cf.module.name == "__user__" or k not in SYNC_KINDS:
                continue
            if not safe[cq] and not gated_in(cf, c):
                nxt = (cq, c)
                break
        if nxt is None:
            break
        chain.append(f"{e.prog.funcs[nxt[0]].short}: {norm(nxt[1])[:90]}")
        cur = nxt[0]
    return list(reversed(chain))


# ---------------------------------------------------------------------------
# R-MGR-SELF
# ---------------------------------------------------------------------------

def r_mgr_self(e, R):
    a = e.anchors
    spawn = spawn_pred(e)
    broken = broken_pred(e)
    res = resolve_pred(e)
    count = 0
    for q in a.manager_funcs:
        f = e.prog.funcs[q]
        if not manager_only(e, q):
            continue
        g = e.cfg(f)
        sp_nodes = effect_nodes(e, f, spawn)
        if not sp_nodes:
            continue
        for t in g.nodes:
            if t.kind != "test":
                continue
            nt = none_test(t.ast)
            if nt is None:
                continue
            subj = e.expand(f, nt[0])
            if not (isinstance(subj, ast.Call) and any(v[0] == "obj" and v[2] == "ext:weakref.ref"
                                                       for v in e.pt.ev(f, subj.func))):
                continue
            alive = nt[1]
            dead = "F" if alive == "T" else "T"
            gated = [s for s in sp_nodes if g.on_branch(s, t, alive)]
            if not gated:
                continue
            count += 1
            # the dead-reference branch must make progress on its own
            def progress(n):
                return node_has_effect(e, f, n, spawn) or node_has_effect(e, f, n, broken) or node_has_effect(e, f, n, res)
            dead_ok = g.path_exists(t, progress, avoid=[t], start_labels=[dead], use_exc=False)
            R.check(dead_ok, "R-MGR-SELF",
                    f"{f.short}: respawn gated on the executor weak reference has a progress/fail-all effect on the dead branch",
                    f.short, "respawn gated on <executor weak reference>() being alive",  # role-based: local names do not matter
                    "the manager re-spawns workers only while the executor object is alive; once the executor was "
                    "garbage collected (or is being collected) and all workers idled out, pending work is never run "
                    "and never failed", e.loc(f, t.ast))
    R.info["mgr_self_instances"] = count
    if count < 1:
        # the respawn is no longer gated on the weak reference at all
        R.ok("R-MGR-SELF", "no manager spawn is control-dependent on the executor weak reference", None)


# ---------------------------------------------------------------------------
# R-POLL
# ---------------------------------------------------------------------------

U = "unknown"


class _Empty:  # abstract empty container
    pass


EMPTY = _Empty()
SNAP = "snapshot"


def _abs_eval(e, func, expr, loop, depth=0):
    """Abstract value of expr in the failure post-state (pool broken, pending
    and worker tables empty, every started process dead).  Returns True/False,
    an int, EMPTY, SNAP (container of unknown size captured before the loop)
    or U."""
    a = e.anchors
    if depth > 6:
        return U
    if isinstance(expr, ast.Constant):
        return expr.value if isinstance(expr.value, (bool, int)) else U
    if isinstance(expr, ast.BoolOp):
        vals = [_abs_eval(e, func, v, loop, depth + 1) for v in expr.values]
        tv = [_truth(v) for v in vals]
        if isinstance(expr.op, ast.And):
            if any(t is False for t in tv):
                return False
            return True if all(t is True for t in tv) else U
        if any(t is True for t in tv):
            return True
        return False if all(t is False for t in tv) else U
    if isinstance(expr, ast.UnaryOp) and isinstance(expr.op, ast.Not):
        t = _truth(_abs_eval(e, func, expr.operand, loop, depth + 1))
        return U if t is U else (not t)
    if isinstance(expr, ast.Compare) and len(expr.ops) == 1:
        l = _abs_eval(e, func, expr.left, loop, depth + 1)
        r = _abs_eval(e, func, expr.comparators[0], loop, depth + 1)
        op = expr.ops[0]
        li = l if isinstance(l, int) and not isinstance(l, bool) else None
        ri = r if isinstance(r, int) and not isinstance(r, bool) else None
        if li is not None and ri is not None:
            return {ast.Gt: li > ri, ast.GtE: li >= ri, ast.Lt: li < ri, ast.LtE: li <= ri,
                    ast.Eq: li == ri, ast.NotEq: li != ri}.get(type(op), U)
        # unknown ints are counts (>= 0)
        if li == 0 and ri is None and isinstance(op, ast.Gt):
            return False
        if ri == 0 and li is None and isinstance(op, ast.Lt):
            return False
        return U
    if isinstance(expr, ast.Attribute):
        if expr.attr == "broken" and set(e.pt.ev(func, expr.value)) & a.flags_objs:
            return True
        if expr.attr == "shutdown" and set(e.pt.ev(func, expr.value)) & a.flags_objs:
            return True
        o = e.objs(func, expr)
        if o and (o <= (a.pending | a.processes)):
            return EMPTY
        return U
    if isinstance(expr, ast.Name):
        defs = e.local_defs(func, expr.id)
        inside = [d for d in defs if _within(e, d, loop)]
        if inside and len(inside) == len(defs) - (1 if len(defs) > len(inside) else 0):
            # (re)assigned inside the loop: fresh each iteration
            vals = [_abs_eval(e, func, d, loop, depth + 1) for d in inside]
            if all(v is vals[0] or v == vals[0] for v in vals):
                return vals[0]
            return U
        if defs:
            v = [_abs_eval(e, func, d, loop, depth + 1) for d in defs]
            if any(x is EMPTY for x in v) or any(e.objs(func, d) & a.process_objs or
                                                  e.pt.elems(e.pt.ev(func, d)) & a.process_objs for d in defs):
                return SNAP
        return U
    if isinstance(expr, ast.Call):
        fn = expr.func
        name = fn.id if isinstance(fn, ast.Name) else (fn.attr if isinstance(fn, ast.Attribute) else None)
        if name in ("list", "tuple", "set", "sorted", "dict") and len(expr.args) == 1:
            return _abs_eval(e, func, expr.args[0], loop, depth + 1)
        if name in ("values", "items", "keys", "copy") and isinstance(fn, ast.Attribute):
            return _abs_eval(e, func, fn.value, loop, depth + 1)
        if name == "len" and len(expr.args) == 1:
            v = _abs_eval(e, func, expr.args[0], loop, depth + 1)
            return 0 if v is EMPTY else U
        if name == "is_alive" and isinstance(fn, ast.Attribute):
            if e.objs(func, fn.value) & a.process_objs or True:
                return False
        if name in ("all", "any", "sum") and len(expr.args) == 1 and isinstance(expr.args[0], (ast.GeneratorExp, ast.ListComp)):
            ge = expr.args[0]
            it = _abs_eval(e, func, ge.generators[0].iter, loop, depth + 1)
            elt = _abs_eval(e, func, ge.elt, loop, depth + 1)
            if it is EMPTY:
                return {"all": True, "any": False, "sum": 0}[name]
            et = _truth(elt)
            if name == "all":
                return True if et is True else U
            if name == "any":
                return False if et is False else U
            return 0 if et is False else U
        # method of a loky object with a single return expression: inline
        qs = e.callees_of(expr)
        if len(qs) == 1:
            cf = e.prog.funcs[next(iter(qs))]
            rets = [n for n in func_nodes(cf) if isinstance(n, ast.Return)]
            if len(rets) == 1 and rets[0].value is not None:
                return _abs_eval(e, cf, rets[0].value, None, depth + 1)
        return U
    return U


def _truth(v):
    if v is EMPTY:
        return False
    if v is U or v == SNAP:
        return U
    if isinstance(v, bool):
        return v
    if isinstance(v, int):
        return v != 0
    return U


def _within(e, node, loop):
    if loop is None:
        return False
    p = node
    while p is not None:
        if p is loop:
            return True
        p = e.prog.parent.get(id(p))
    return False


def _bounded(e, func, loop):
    """Counter or time bound: the guard has a conjunct comparing a local that
    the body unconditionally steps, or the body raises/returns/breaks after a
    growing local exceeds a constant."""
    test = loop.test
    conj = test.values if isinstance(test, ast.BoolOp) and isinstance(test.op, ast.And) else [test]
    stepped = set()
    for n in _walk_noscope(loop):
        if isinstance(n, ast.AugAssign) and isinstance(n.target, ast.Name) and isinstance(n.op, (ast.Add, ast.Sub, ast.Mult)):
            stepped.add(n.target.id)
    for c in conj:
        if isinstance(c, ast.Compare) and len(c.ops) == 1:
            names = {x.id for x in ast.walk(c) if isinstance(x, ast.Name)}
            if names & stepped and any(isinstance(x, ast.Constant) for x in ast.walk(c)):
                return "counter in the guard"
    # escape inside the body guarded by a stepped local
    for n in _walk_noscope(loop):
        if isinstance(n, ast.If) and isinstance(n.test, ast.Compare):
            names = {x.id for x in ast.walk(n.test) if isinstance(x, ast.Name)}
            if names & stepped and any(isinstance(s, (ast.Raise, ast.Return, ast.Break)) for s in ast.walk(n)):
                return "bounded back-off (escape after a stepped local exceeds a constant)"
    return None


def r_poll(e, R, only_funcs=None):
    loops = loops_with_sleep(e)
    for f, loop in loops:
        inst = f"{f.short}: while {norm(loop.test)[:80]}"
        if only_funcs is not None and f.qualname not in only_funcs:
            continue
        b = _bounded(e, f, loop)
        v = _truth(_abs_eval(e, f, loop.test, loop))
        if v is False:
            R.ok("R-POLL", inst + " -- guard is false in the failure post-state (broken, tables empty, workers dead)", e.loc(f, loop))
        elif b:
            R.ok("R-POLL", inst + f" -- {b}", e.loc(f, loop))
        else:
            R.fail("R-POLL", f.short, f"while {norm(loop.test)}",
                   "polling loop whose guard is not provably false once the pool is broken / all workers are gone "
                   "(it polls a snapshot taken before the loop, or has no escape): the call spins forever when a "
                   "worker in the snapshot exits during the wait", e.loc(f, loop), instance=inst)
    # a sleeping loop written as `for ... in range(n)` is bounded by construction
    for f in e.prog.funcs.values():
        if f.module.name == "__user__" or (only_funcs is not None and f.qualname not in only_funcs):
            continue
        for n in func_nodes(f):
            if isinstance(n, ast.For) and isinstance(n.iter, ast.Call) and isinstance(n.iter.func, ast.Name) and n.iter.func.id == "range" and not any(
                    isinstance(w, ast.While) for w in _walk_noscope(n) if w is not n) and any(
                    isinstance(x, ast.Call) and sleep_call(e, f, x) for x in _walk_noscope(n)):
                R.ok("R-POLL", f"{f.short}: for ... in {norm(n.iter)[:40]} with a sleep -- bounded by the range", e.loc(f, n))
    if only_funcs is None:
        R.floor("R-POLL", 5)


# ---------------------------------------------------------------------------
# R-LOCK-ORDER / R-WAIT-FOR
# ---------------------------------------------------------------------------

def _lock_name(e, tok):
    a = e.anchors
    names = []
    table = [("shutdown_lock", a.shutdown_lock), ("processes_management_lock", a.pml), ("exit_lock", a.exit_locks)]
    for nm, objs in table:
        if tok and tok <= objs:
            return nm
    return "|".join(sorted(e.pt.describe(o) for o in tok))[:120]


def r_lock_order(e, R):
    a = e.anchors
    edges = {}  # (src, dst) -> site description

    def add(src, dst, site):
        if src == dst:
            return
        edges.setdefault((src, dst), site)

    rlocks = set()
    # lock -> lock
    for f in e.prog.funcs.values():
        if f.module.name == "__user__":
            continue
        g = e.cfg(f)
        held = e.held(f)
        eh = e.entry_may_held().get(f.qualname, frozenset())
        for n in g.nodes:
            toks = []
            if n.kind == "with_enter":
                t = e.lock_token(f, n.ast.context_expr)
                if t and _is_lock(e, t):
                    toks.append(t)
            elif n.kind == "stmt":
                for c in calls_in(n):
                    ar = e._acq_rel(f, c)
                    if ar and ar[0] == "acq" and _is_lock(e, ar[1]):
                        # taking a lock this very function has just created (a local variable whose only definition is the
                        # allocation, e.g. the exit lock of a worker about to be started) cannot block: nobody else has it yet
                        if _fresh_lock(e, f, c, ar[1]):
                            continue
                        toks.append(ar[1])
            for t in toks:
                for h in held[n] | eh:
                    if not _is_lock(e, h):
                        continue
                    if h == t:
                        if not _reentrant(t) and not (t <= e.anchors.exit_locks):
                            R.fail("R-LOCK-ORDER", f.short, f"re-acquire {_lock_name(e, t)}",
                                   f"{_lock_name(e, t)} (not re-entrant) is acquired while it may already be held by the same "
                                   "thread: self-deadlock", e.loc(f, n.ast if not isinstance(n.ast, ast.withitem) else n.ast.context_expr))
                        continue
                    add("L:" + _lock_name(e, h), "L:" + _lock_name(e, t), f"{f.short}:{n.lineno} acquires {_lock_name(e, t)} holding {_lock_name(e, h)}")
    # lock -> role (blocking waits with a lock held) and role -> lock
    role_of_wait = []
    for f, c in e.all_calls():
        fn = c.func
        if not isinstance(fn, ast.Attribute):
            continue
        target = None
        if fn.attr == "join":
            o = e.objs(f, fn.value)
            if o & a.manager_objs:
                target = "MANAGER"
            elif o & a.process_objs or any(x[0] == "obj" and x[2].startswith(("opaque:", "ext:")) for x in o) and \
                    not any(x[2] == "ext:threading.Thread" for x in o if x[0] == "obj"):
                if o:
                    target = "WORKER"
            if any(x[0] == "obj" and x[2] == "ext:threading.Thread" for x in o):
                target = "FEEDER"
        elif fn.attr == "put" and (e.objs(f, fn.value) & a.callq) and not e.is_nonblocking(c):
            target = "WORKER"
        elif fn.attr == "acquire" and (e.objs(f, fn.value) & a.exit_locks) and not e.is_nonblocking(c) \
                and "WORKER" in a.roles_of(f.qualname):
            target = "MANAGER"
        if target:
            for h in e.held_full(f, c):
                if _is_lock(e, h):
                    add("L:" + _lock_name(e, h), "R:" + target, f"{f.short}:{c.lineno} {norm(c)[:50]} holding {_lock_name(e, h)}")
    for f, loop in loops_with_sleep(e):
        # polling loops wait for the role that writes the polled state
        objs = set()
        for x in ast.walk(loop.test):
            if isinstance(x, (ast.Attribute, ast.Name)):
                objs |= e.objs(f, x)
        tgt = None
        if objs & (a.pending | a.processes):
            tgt = "MANAGER"
        elif any(isinstance(x, ast.Attribute) and x.attr == "is_alive" for x in ast.walk(loop.test)):
            tgt = "WORKER"
        if tgt and tgt not in a.roles_of(f.qualname):
            g = e.cfg(f)
            hs = None
            for n in g.nodes_of(loop):
                hh = e.held(f)[n] | e.entry_held().get(f.qualname, frozenset())
                hs = hh if hs is None else hs & hh
            for h in hs or ():
                if _is_lock(e, h):
                    add("L:" + _lock_name(e, h), "R:" + tgt, f"{f.short}:{loop.lineno} polling loop holding {_lock_name(e, h)}")
    # role -> lock: blocking acquisitions anywhere in the role's code
    for role, funcs in a.roles.items():
        if role in ("TRACKER",):
            continue
        for q in funcs:
            f = e.prog.funcs[q]
            g = e.cfg(f)
            for n in g.nodes:
                toks = []
                if n.kind == "with_enter":
                    t = e.lock_token(f, n.ast.context_expr)
                    if t and _is_lock(e, t):
                        toks.append(t)
                elif n.kind == "stmt":
                    for c in calls_in(n):
                        ar = e._acq_rel(f, c)
                        if ar and ar[0] == "acq" and _is_lock(e, ar[1]) and not _fresh_lock(e, f, c, ar[1]):
                            toks.append(ar[1])
                for t in toks:
                    if role == "WORKER" and t <= a.exit_locks:
                        continue  # handshake token, see R-EXIT-HANDSHAKE
                    if role == "WORKER" and all(o[2].startswith("ext:threading.") for o in t):
                        continue  # thread locks of a worker belong to another process
                    add("R:" + role, "L:" + _lock_name(e, t), f"{f.short}:{n.lineno} ({role}) acquires {_lock_name(e, t)}")
    R.info["wait_for_graph"] = sorted(f"{s} -> {d}   [{site}]" for (s, d), site in edges.items())
    # cycles (Tarjan-free: DFS per node, graph is tiny)
    adj = {}
    for (s, d) in edges:
        adj.setdefault(s, []).append(d)
    cycles = []
    seen_cycles = set()

    def dfs(start, cur, path):
        for nx in adj.get(cur, ()):
            if nx == start:
                cyc = path[:]
                key = frozenset(cyc)
                if key not in seen_cycles:
                    seen_cycles.add(key)
                    cycles.append(cyc)
            elif nx not in path and len(path) < 8:
                dfs(start, nx, path + [nx])
    for s in sorted(adj):
        dfs(s, s, [s])
    # a cycle needs at least one lock held while waiting
    real = [c for c in cycles if any(x.startswith("L:") for x in c)]
    # cycles consisting of roles only or of user-thread re-entrancy are out of model
    real = [c for c in real if not _benign_cycle(c)]
    for c in real:
        sites = [edges[(c[i], c[(i + 1) % len(c)])] for i in range(len(c))]
        R.fail("R-LOCK-ORDER", "<wait-for graph>", " -> ".join(c + [c[0]]),
               "cyclic waiting between locks and roles: " + "; ".join(sites), None, sites)
    if not real:
        R.ok("R-LOCK-ORDER", f"wait-for graph over {len(adj)} nodes / {len(edges)} edges is acyclic", None)
    R.info["wait_for_nodes"] = len({x for k in edges for x in k})
    if len(edges) < 8:
        raise AnalysisError(f"R-LOCK-ORDER: only {len(edges)} wait-for edges found (floor 8)")


def _fresh_lock(e, f, c, tok):
    """the acquire call c takes a lock that this function has just created (receiver = a local variable, not a parameter, whose only
    definitions are allocations in f): nobody else has it yet, the acquisition cannot block."""
    rv = c.func.value if isinstance(c.func, ast.Attribute) else None
    if isinstance(rv, ast.Name) and rv.id in f.locals and rv.id not in f.params:
        defs = e.local_defs(f, rv.id)
        return bool(defs) and all(isinstance(d, ast.Call) for d in defs) and all(e.anchors.alloc_func(o) == f.qualname for o in tok)
    return False


def _reentrant(tok):
    return all("RLock" in o[2] for o in tok)


def _benign_cycle(c):
    # USER <-> locks only: several user threads contend, no cross-role wait
    roles = {x for x in c if x.startswith("R:")}
    return roles <= {"R:USER"} and len(roles) <= 1 and False


def _is_lock(e, tok):
    for o in tok:
        if o[0] != "obj":
            return False
        c = o[2]
        if c.startswith("ext:threading.") or c in ("opaque:Lock", "opaque:RLock", "opaque:BoundedSemaphore",
                                                    "opaque:Semaphore", "opaque:Condition") \
                or c.startswith("extfield:_") and c.endswith(("lock", "_notempty", "_sem")) \
                or c.startswith("loky.backend.synchronize:"):
            continue
        return False
    return bool(tok)


# ---------------------------------------------------------------------------
# R-BLOCK-MGR
# ---------------------------------------------------------------------------

def r_block_mgr(e, R):
    a = e.anchors
    wait_ids = {id(c) for _, c in a.wait_calls}
    n_sites = 0
    for q in a.manager_funcs:
        f = e.prog.funcs[q]
        if not manager_only(e, q) and q not in _kill_tree_quals(e):
            # functions shared with other roles are checked in their own rules
            if "MANAGER" not in a.roles_of(q):
                continue
        g = e.cfg(f)
        for c in [n for n in func_nodes(f) if isinstance(n, ast.Call)]:
            fn = c.func
            nodes = cfg_nodes(e, f, c)
            if id(c) in wait_ids:
                n_sites += 1
                R.ok("R-BLOCK-MGR", f"{f.short}: designated wait {norm(c)[:50]}", e.loc(f, c))
                continue
            if not isinstance(fn, ast.Attribute):
                if sleep_call(e, f, c):
                    n_sites += 1
                    loop = _enclosing_loop(e, c)
                    b = _bounded(e, f, loop) if isinstance(loop, ast.While) else None
                    outer = _enclosing_loop(e, loop) if loop is not None else None
                    if b is None and isinstance(outer, ast.While):
                        b = _bounded(e, f, outer)
                    R.check(bool(b), "R-BLOCK-MGR", f"{f.short}: back-off sleep is bounded ({b})", f.short, norm(c),
                            "unbounded sleep loop in the manager thread", e.loc(f, c))
                continue
            recv = e.objs(f, fn.value)
            if fn.attr == "recv" and nodes:
                n_sites += 1
                ok = all(any(t.kind == "test" and isinstance(t.ast, ast.Compare) and isinstance(t.ast.ops[0], ast.In)
                             and g.on_branch(n, t, "T") for t in g.nodes) for n in nodes)
                R.check(ok, "R-BLOCK-MGR", f"{f.short}: {norm(c)} dominated by the readiness test", f.short, norm(c),
                        "blocking recv() in the manager not dominated by a readiness test", e.loc(f, c))
                # readiness only promises the first byte.  A message larger than the pipe buffer is read in several chunks; if
                # its writer dies in between, end-of-file is the only thing that can end the read -- and it never comes when
                # other live processes (the parent itself, the other workers) hold the same write end.
                conns = {o for o in recv if o[0] == "obj"}
                shared = bool(conns) and _write_end_shared(e, conns)
                bounded = e.is_nonblocking(c)
                R.check(not shared or bounded, "R-BLOCK-MGR", f"{f.short}: {norm(c)} cannot be left waiting for the rest of a message whose writer died",
                        f.short, "blocking read of a multi-chunk message on a pipe whose write end is shared",
                        "the manager reads a whole result with a blocking recv(); a worker that is killed after writing the length header and part of a large "
                        "result leaves it waiting for the remaining bytes forever, because the parent and the other workers keep the write end of the same pipe "
                        "open (no EOF): the death is never detected, the pool is never flagged broken and every pending future hangs", e.loc(f, c))
            elif fn.attr == "put" and recv & a.callq:
                n_sites += 1
                if e.is_nonblocking(c):
                    R.ok("R-BLOCK-MGR", f"{f.short}: non-blocking put", e.loc(f, c))
                    continue
                ok = all(any(t.kind == "test" and any(isinstance(x.func, ast.Attribute) and x.func.attr == "full"
                                                     and e.objs(f, x.func.value) & a.callq for x in calls_in(t))
                             and g.on_branch(n, t, "F") for t in g.nodes) for n in nodes) and bool(nodes)
                R.check(ok, "R-BLOCK-MGR", f"{f.short}: blocking put on the call queue dominated by full() == False",
                        f.short, norm(c)[:80],
                        "the manager can block forever in put() on a full call queue (no worker may be left to drain it); "
                        "a blocking put must be dominated by the full() test, sentinels must be posted with put_nowait",
                        e.loc(f, c))
            elif fn.attr == "put_nowait" and recv & a.callq:
                n_sites += 1
                R.ok("R-BLOCK-MGR", f"{f.short}: {norm(c)} is non-blocking", e.loc(f, c))
            elif fn.attr == "join" and (recv & a.process_objs):
                n_sites += 1
                ok, why = _join_enabled(e, f, c, nodes)
                R.check(ok, "R-BLOCK-MGR", f"{f.short}: {norm(c)} {why}", f.short, norm(c),
                        "the manager joins a worker that was neither released (exit lock), killed, nor told to stop: "
                        "the join can block forever", e.loc(f, c))
            elif fn.attr == "join_thread":
                n_sites += 1
                closes = effect_nodes(e, f, recv_call(e, "close", recv))
                ok = all(any(g.dominates(x, n) for x in closes) for n in nodes) and bool(nodes)
                R.check(ok, "R-BLOCK-MGR", f"{f.short}: {norm(c)} after close()", f.short, norm(c),
                        "join_thread() before the queue is closed blocks forever", e.loc(f, c))
            elif fn.attr in ("get",) and recv & a.work_ids:
                n_sites += 1
                R.check(e.is_nonblocking(c), "R-BLOCK-MGR", f"{f.short}: {norm(c)} is non-blocking", f.short, norm(c),
                        "blocking get() on the work-id queue in the manager", e.loc(f, c))
            elif fn.attr == "acquire" and not e.is_nonblocking(c) and (recv & a.exit_locks) \
                    and not all(a.alloc_func(o) == f.qualname for o in recv):
                n_sites += 1
                R.fail("R-BLOCK-MGR", f.short, norm(c), "manager blocks on a worker exit lock", e.loc(f, c))
            elif fn.attr in ("result", "wait") and (recv & a.future_objs):
                n_sites += 1
                R.fail("R-BLOCK-MGR", f.short, norm(c), "manager blocks on a future", e.loc(f, c))
    if n_sites < 9:
        raise AnalysisError(f"R-BLOCK-MGR: {n_sites} blocking sites found in the manager, floor is 9")


def _write_end_shared(e, reader_objs):
    """Is the write end of the pipe read through `reader_objs` held by the workers *and* by the parent?  True when the reader
    is a field of a queue object that is both kept in a field of the executor (the parent keeps both ends) and bound to a
    parameter of the worker main (every worker holds the write end too)."""
    a = e.anchors
    for qo in a.resq:
        flds = a.fields_of({qo})
        mine = any(reader_objs & set(v) for v in flds.values()) or any(o[1].startswith(f"field:{qo[1]}.") for o in reader_objs if isinstance(o[1], str))
        if not mine:
            continue
        shipped = any({x for x in e.pt.get(("L", a.worker_main.qualname, p)) if x[0] == "obj"} & {qo} for p in a.worker_main.params)
        if shipped:
            return True
    return False


def _enclosing_loop(e, node):
    p = e.prog.parent.get(id(node)) if node is not None else None
    while p is not None and not isinstance(p, (ast.While, ast.For)):
        if isinstance(p, (ast.FunctionDef, ast.Lambda)):
            return None
        p = e.prog.parent.get(id(p))
    return p


def _kill_tree_quals(e):
    from .broken import kill_tree_roles, KILL_TREE
    fp, fw, fr = kill_tree_roles(e)
    return {KILL_TREE, fp.qualname, fw.qualname}


def _kill_helper_quals(e):
    """Helpers of the fallback implementation that send a kill: everything reachable from it that calls os.kill / taskkill."""
    from .broken import kill_tree_roles
    fp, fw, fr = kill_tree_roles(e)
    out = set()
    for q in e.reach([fw.qualname]):
        f_ = e.prog.funcs.get(q)
        if f_ is not None and q != fw.qualname and any(isinstance(x, ast.Call) and (norm(x.func) == "os.kill" or "taskkill" in norm(x) or q in e.callees_of(x))
                                                        for x in func_nodes(f_)):
            out.add(q)
    return out


def _join_enabled(e, f, c, nodes):
    a = e.anchors
    g = e.cfg(f)
    rel = effect_nodes(e, f, recv_call(e, "release", a.exit_locks))
    kill = effect_nodes(e, f, lambda fn, call: isinstance(call.func, ast.Attribute) and call.func.attr in ("kill",)
                        or isinstance(call.func, (ast.Name, ast.Attribute)) and
                        bool(e.callees_of(call) & _kill_helper_quals(e)))
    # same-function: a release / kill dominating the join
    if nodes and all(any(g.dominates(x, n) and x is not n for x in rel) for n in nodes):
        return True, "after the exit-lock release"
    if nodes and all(any(g.dominates(x, n) and x is not n for x in kill) or
                     any(g.path_exists(x, lambda y, n=n: y is n) for x in kill) and
                     not g.path_exists(g.entry, lambda y, n=n: y is n, avoid=kill | _exc_handlers(g)) for n in nodes):
        return True, "after the kill"
    # join-all loop: dominated by a call that releases every exit lock and posts sentinels
    stop = effect_nodes(e, f, recv_call(e, "put_nowait", a.callq))
    if nodes and all(any(g.dominates(x, n) for x in stop & rel) for n in nodes):
        return True, "after release-all + sentinel phase"
    # via callers: every caller dominates the call by release-all + sentinels
    callers = [(cq, cc) for cq, k, cc in e.redges().get(f.qualname, ()) if k in SYNC_KINDS]
    return False, ""


def _exc_handlers(g):
    return {n for n in g.nodes if n.kind == "except"}
