"""Graceful shutdown (C05), shared with C06/C07/C20.

R-SHUTDOWN-API, R-SHUTTING-DOWN-TABLE, R-SHUTDOWN-SEQ, R-EXIT-HANDSHAKE,
R-NO-STRONG-REF, R-ATEXIT.
"""
import ast

from ..model import func_nodes, norm, AnalysisError
from ..cfg import calls_in, _walk_noscope
from .. import guards
from .util import (none_test, node_has_effect, effect_nodes, calls_method_of, recv_call, stmt_of, parent,
                   cfg_nodes)
from .liveness import flag_writers, wake_pred, manager_only, resolve_pred
from .broken import _order, submit_gate

PE = "loky.process_executor"


def _is_weakref_deref(e, f, expr):
    expr = e.expand(f, expr)
    return isinstance(expr, ast.Call) and any(v[0] == "obj" and v[2] == "ext:weakref.ref" for v in e.pt.ev(f, expr.func))


# ---------------------------------------------------------------------------
# R-SHUTDOWN-API
# ---------------------------------------------------------------------------

def r_shutdown_api(e, R):
    a = e.anchors
    f = a.shutdown
    g = e.cfg(f)
    fw = flag_writers(e)
    sd_writers = [q for q, attrs in fw.items() if "shutdown" in attrs and "broken" not in attrs]
    flagn = effect_nodes(e, f, calls_method_of(e, sd_writers))
    R.check(bool(flagn) and all(g.dominates(n, x) for n in flagn for x in [p for p, _ in g.exit.pred]), "R-SHUTDOWN-API",
            "shutdown: the shutdown flag is set on every path", f.short, "flag_as_shutting_down",
            "shutdown() can return without flagging the executor as shut down", e.loc(f, f.node))
    # the flag writer takes the lock and forwards kill_workers
    for q in sd_writers:
        m = e.prog.funcs[q]
        mg = e.cfg(m)
        ok = True
        for n in func_nodes(m):
            if isinstance(n, ast.Assign) and isinstance(n.targets[0], ast.Attribute) and n.targets[0].attr in ("shutdown", "kill_workers"):
                for cn in mg.nodes_of(n):
                    if not e.token_in(e.held(m)[cn], a.shutdown_lock):
                        ok = False
        R.check(ok, "R-SHUTDOWN-API", f"{m.short}: flags written under the shutdown lock", m.short, "with shutdown_lock",
                "the shutdown flag is set without the shutdown lock: a concurrent submit can slip in after the flag", e.loc(m, m.node))
    # join of the manager thread: only conditional on `wait` and thread existence, under the global shutdown lock
    joins = [(n, c) for n in g.nodes for c in calls_in(n)
             if isinstance(c.func, ast.Attribute) and c.func.attr == "join" and e.objs(f, c.func.value) & a.manager_objs]
    R.check(bool(joins), "R-SHUTDOWN-API", "shutdown: joins the manager thread", f.short, "executor_manager_thread.join()",
            "shutdown(wait=True) no longer joins the manager thread", e.loc(f, f.node))
    wait_param = f.params[1] if len(f.params) > 1 else None
    for n, c in joins:
        tests = [t for t in g.nodes if t.kind == "test" and (g.on_branch(n, t, "T") or g.on_branch(n, t, "F"))]
        names = set()
        for t in tests:
            names |= {x.id for x in ast.walk(t.ast) if isinstance(x, ast.Name)}
        allowed = {wait_param}
        for nm in names:
            if any(e.objs(f, d) & a.manager_objs or {v for v in e.pt.ev(f, d)} & a.manager_objs for d in e.local_defs(f, nm)):
                allowed.add(nm)
        R.check(names <= allowed and wait_param in names, "R-SHUTDOWN-API",
                "shutdown: the join depends only on `wait` and on the thread existing", f.short, norm(c),
                f"the join of the manager thread is conditional on {sorted(names - allowed)}", e.loc(f, c))
        held = e.held(f)[n]
        gl = _global_lock(e)
        R.check(e.token_in(held, gl), "R-SHUTDOWN-API", "shutdown: join under the global shutdown lock (shared with the at-exit hook)",
                f.short, norm(c), "manager join outside the lock shared with the at-exit hook", e.loc(f, c))
    # the manager thread (and its wake-up channel) is read only after the flag was set.  Setting the flag takes the shutdown
    # lock, which a concurrent first submit() holds from its gate test until it has started the manager thread: a read made
    # before that barrier may see None for a thread an *accepted* submit is about to start, and shutdown(wait=True) would
    # return without waiting for that task.
    selfn = f.params[0]
    for n in g.nodes:
        if n.kind not in ("stmt", "test", "with_enter"):
            continue
        for x in _walk_noscope(n.ast) if n.ast is not None else ():
            if isinstance(x, ast.Attribute) and isinstance(x.ctx, ast.Load) and isinstance(x.value, ast.Name) and x.value.id == selfn:
                vals = set(e.pt.ev(f, x))
                if vals & a.manager_objs or vals & getattr(a, "wakeup_objs", set()):
                    R.check(any(g.dominates(fl, n) for fl in flagn), "R-SHUTDOWN-API",
                            f"shutdown: `{norm(x)}` is read after the shutdown flag (and its lock barrier)", f.short, norm(n.ast)[:70],
                            f"`{norm(x)}` is read before flag_as_shutting_down(): a submit() running concurrently holds the shutdown lock until it "
                            "has started the manager thread, so this read can miss that thread; shutdown(wait=True) then returns while the "
                            "accepted task is still pending and the workers are alive", e.loc(f, x))
    # the public defaults: shutdown() waits and does not kill (concurrent.futures contract: shutdown(wait=True))
    dflt = dict(zip(f.node.args.args[len(f.node.args.args) - len(f.node.args.defaults):], f.node.args.defaults))
    got = {a_.arg: (d_.value if isinstance(d_, ast.Constant) else "?") for a_, d_ in dflt.items()}
    kwp_ = f.params[2] if len(f.params) > 2 else None
    R.check(got.get(wait_param) is True and got.get(kwp_) is False, "R-SHUTDOWN-API", "shutdown(wait=True, kill_workers=False) are the defaults", f.short,
            f"defaults {got}", f"shutdown() defaults are {got}: a plain shutdown() / `with executor:` no longer waits for the submitted work, or kills the workers "
            "and fails every pending future", e.loc(f, f.node)) if wait_param else None
    # submit after shutdown raises ShutdownExecutorError
    bt, st, sg = submit_gate(e)
    if st is not None:
        sf = a.submit
        ok = False
        for n in sg.nodes:
            if n.kind == "stmt" and isinstance(n.ast, ast.Raise) and sg.on_branch(n, st[0], st[1]):
                x = n.ast.exc
                if isinstance(x, ast.Call) and any(v == ("class", f"{PE}:ShutdownExecutorError") for v in e.pt.ev(sf, x.func)):
                    ok = True
        R.check(ok, "R-SHUTDOWN-API", "submit: raises ShutdownExecutorError once the shutdown flag is set", sf.short,
                "raise ShutdownExecutorError", "submit after shutdown does not raise ShutdownExecutorError", e.loc(sf, st[0].ast))
    R.floor("R-SHUTDOWN-API", 6)


def _global_lock(e):
    """Lock held by the at-exit hook while joining manager threads."""
    a = e.anchors
    f = a.atexit_hook
    g = e.cfg(f)
    toks = set()
    for n in g.nodes:
        for c in calls_in(n):
            if isinstance(c.func, ast.Attribute) and c.func.attr == "join":
                for t in e.held(f)[n]:
                    toks |= set(t)
    if not toks:
        raise AnalysisError("at-exit hook does not join under a lock")
    return frozenset(toks)


# ---------------------------------------------------------------------------
# R-SHUTTING-DOWN-TABLE
# ---------------------------------------------------------------------------

def shutting_down_func(e):
    """Manager-only predicate function combining the global flag, the weak
    reference and the executor flags."""
    a = e.anchors
    run = a.manager_run
    g = e.cfg(run)
    cands = []
    for t in g.nodes:
        if t.kind != "test":
            continue
        for c in calls_in(t):
            for q in e.callees_of(c):
                f = e.prog.funcs[q]
                if not manager_only(e, q) or q == run.qualname:
                    continue
                rets = [n for n in func_nodes(f) if isinstance(n, ast.Return) and n.value is not None]
                from .util import body_as_expr
                val = rets[0].value if len(rets) == 1 else body_as_expr(f.node.body) if rets else None
                if val is not None and not any(c_[0] is f for c_ in cands):
                    cands.append((f, val))
    if len(cands) != 1:
        raise AnalysisError(f"is-shutting-down predicate (manager predicate tested in the loop) not unique: {[c[0].short for c in cands]}")
    f, v = cands[0]
    from .util import inline_locals
    return f, inline_locals(e, f, v)


def r_shutting_down_table(e, R):
    a = e.anchors
    f, expr = shutting_down_func(e)

    def classify(x):
        if isinstance(x, ast.Name):
            k = e.pt.scope_key(f, x.id)
            if k and k[0] == "G":
                return "G"
            if _is_weakref_deref(e, f, x):
                return "E"
        if isinstance(x, ast.Attribute) and set(e.pt.ev(f, x.value)) & a.flags_objs:
            if x.attr == "shutdown":
                return "S"
            if x.attr == "broken":
                return "B"
        if isinstance(x, ast.Call) and _is_weakref_deref(e, f, x):
            return "E"
        return None
    domains = {"G": [False, True], "E": [None, "executor"], "S": [False, True], "B": [None, "error"]}

    def spec(env):
        return env["G"] or ((env["E"] is None or env["S"]) and not env["B"])
    try:
        names, tab, bad = guards.compare(expr, domains, classify, spec)
    except KeyError as ex:
        raise AnalysisError(f"is-shutting-down guard lacks atom {ex}")
    R.info["shutting_down_table_rows"] = len(tab)
    for env, got, want in bad:
        R.fail("R-SHUTTING-DOWN-TABLE", f.short, norm(expr),
               f"is-shutting-down predicate is {got} but must be {want} for global_shutdown={env['G']}, "
               f"executor={'collected' if env['E'] is None else 'alive'}, shutdown={env['S']}, broken={bool(env['B'])} "
               "(spec: global or ((collected or shutdown) and not broken))", e.loc(f, expr),
               instance=f"row {env}")
    if not bad:
        R.ok("R-SHUTTING-DOWN-TABLE", f"{f.short}: 16-row truth table equals G or ((N or S) and not B)", e.loc(f, expr))
    # the manager loop consults it every iteration and flags + tests emptiness
    run = a.manager_run
    g = e.cfg(run)
    tests = [t for t in g.nodes if t.kind == "test" and any(f.qualname in e.callees_of(c) for c in calls_in(t))]
    R.check(bool(tests), "R-SHUTTING-DOWN-TABLE", "manager loop tests the predicate each iteration", run.short, f.short,
            "the manager loop no longer consults the shutting-down predicate", e.loc(run, run.node))


# ---------------------------------------------------------------------------
# R-SHUTDOWN-SEQ
# ---------------------------------------------------------------------------

def stop_workers_func(e):
    a = e.anchors
    out = []
    for q in a.manager_funcs:
        f = e.prog.funcs[q]
        if manager_only(e, q) and any(isinstance(n, ast.Call) and e.receiver_objs(f, n, ("put_nowait", "put")) & a.callq
                                      and n.args and isinstance(n.args[0], ast.Constant) and n.args[0].value is None
                                      for n in func_nodes(f)):
            out.append(f)
    if len(out) != 1:
        raise AnalysisError(f"sentinel-posting routine not unique: {[f.short for f in out]}")
    return out[0]


def join_internals_func(e):
    a = e.anchors
    out = []
    for q in a.manager_funcs:
        f = e.prog.funcs[q]
        if manager_only(e, q) and any(isinstance(n, ast.Call) and e.receiver_objs(f, n, ("close",)) & a.callq
                                      for n in func_nodes(f)):
            out.append(f)
    if len(out) != 1:
        raise AnalysisError(f"join-internals routine not unique: {[f.short for f in out]}")
    return out[0]


def r_shutdown_seq(e, R):
    a = e.anchors
    f = stop_workers_func(e)
    g = e.cfg(f)
    held = e.held(f)
    # (1) release the exit lock of every entry of the worker table, under the management lock, counting the same iteration
    rel = [(n, c) for n in g.nodes for c in calls_in(n) if e.receiver_objs(f, c, ("release",)) & a.exit_locks]
    R.check(bool(rel), "R-SHUTDOWN-SEQ", f"{f.short}: releases the workers' exit locks", f.short, "p._worker_exit_lock.release()",
            "workers are no longer released from the exit handshake at shutdown: each waits 30 s for its exit lock", e.loc(f, f.node))
    counters = set()
    for n, c in rel:
        loop = _enclosing(e, c, ast.For)
        ok_loop = loop is not None and _iter_all_processes(e, f, loop.iter)
        R.check(ok_loop, "R-SHUTDOWN-SEQ", f"{f.short}: exit locks released for every worker of the table", f.short, norm(c),
                "the exit-lock release does not range over every registered worker", e.loc(f, c))
        R.check(e.token_in(held[n], a.pml), "R-SHUTDOWN-SEQ", f"{f.short}: exit locks released under the management lock", f.short,
                norm(c), "exit locks are released without the processes management lock (races with spawn / timeout exits)", e.loc(f, c))
        if loop is not None:
            for x in _walk_noscope(loop):
                if isinstance(x, ast.AugAssign) and isinstance(x.target, ast.Name) and isinstance(x.op, ast.Add) \
                        and isinstance(x.value, ast.Constant) and x.value.value == 1 and _same_block(e, x, stmt_of(e, f, c)):
                    counters.add(x.target.id)
            # the same count as `for n, p in enumerate(<all workers>, 1)` with n initialised to 0 for the empty table
            it_ = e.expand(f, loop.iter)
            if isinstance(it_, ast.Call) and isinstance(it_.func, ast.Name) and it_.func.id == "enumerate" and len(it_.args) == 2 \
                    and isinstance(it_.args[1], ast.Constant) and it_.args[1].value == 1 and isinstance(loop.target, ast.Tuple) \
                    and isinstance(loop.target.elts[0], ast.Name) and not any(
                        isinstance(x, (ast.Break, ast.Continue)) for x in _walk_noscope(loop)):
                cn = loop.target.elts[0].id
                if any(isinstance(d, ast.Constant) and d.value == 0 for d in e.local_defs(f, cn)):
                    counters.add(cn)
    R.check(bool(counters), "R-SHUTDOWN-SEQ", f"{f.short}: the number of workers to stop is counted in the release loop", f.short,
            "n_children_to_stop += 1", "the number of sentinels to post is not the number of released workers", e.loc(f, f.node))
    # (2) sentinel loop: non-blocking post, one count per successful post, bounded by the counter
    posts = [(n, c) for n in g.nodes for c in calls_in(n) if e.receiver_objs(f, c, ("put_nowait", "put")) & a.callq]
    for n, c in posts:
        R.check(e.is_nonblocking(c) or c.func.attr == "put_nowait", "R-SHUTDOWN-SEQ", f"{f.short}: sentinels are posted without blocking",
                f.short, norm(c), "a blocking put of the sentinel can hang the manager on a full queue", e.loc(f, c))
        wl = _enclosing(e, c, ast.While)
        ok = False
        sent_counter = None
        st = stmt_of(e, f, c)
        blk = _block_of(e, st)
        if blk is not None and st in blk:
            i = blk.index(st)
            if i + 1 < len(blk) and isinstance(blk[i + 1], ast.AugAssign) and isinstance(blk[i + 1].target, ast.Name) \
                    and isinstance(blk[i + 1].op, ast.Add):
                sent_counter = blk[i + 1].target.id
        if wl is not None and sent_counter:
            # both counters are compared in the guard (how, is decided by the table below: any spelling of the comparison will do)
            for cmp_ in ast.walk(wl.test):
                if isinstance(cmp_, ast.Compare) and len(cmp_.ops) == 1:
                    nm_ = {x.id for x in [cmp_.left, cmp_.comparators[0]] if isinstance(x, ast.Name)}
                    if sent_counter in nm_ and nm_ & counters:
                        ok = True
        if ok and wl is not None:
            # decision table of the whole guard: it must hold exactly while sentinels are owed and somebody is alive
            alive_fn = None

            def classify(x, sent_counter=sent_counter):
                if isinstance(x, ast.Name) and x.id == sent_counter:
                    return "S"
                if isinstance(x, ast.Name) and x.id in counters:
                    return "N"
                if isinstance(x, ast.Call) and e.callees_of(x):
                    cf = e.prog.funcs[next(iter(e.callees_of(x)))]
                    if any(isinstance(y, ast.Attribute) and y.attr == "is_alive" for y in ast.walk(cf.node)):
                        return "A"
                return None
            try:
                nm, tab, bad = guards.compare(wl.test, {"S": [0, 1, 2, 3], "N": [0, 1, 2, 3], "A": [0, 1, 2, 3]}, classify,
                                              lambda env: env["S"] < env["N"] and env["A"] > 0,
                                              constraint=lambda env: env["S"] <= env["N"])
            except (guards.Inconclusive, KeyError) as ex:
                raise AnalysisError(f"sentinel loop guard: {ex}")
            for env, got, want in bad[:1]:
                R.fail("R-SHUTDOWN-SEQ", f.short, f"while {norm(wl.test)}",
                       f"the sentinel loop guard is {got} with {env['S']} sentinel(s) sent, {env['N']} worker(s) to stop and {env['A']} alive "
                       f"(must be {want}): the loop stops although a live worker has not been sent its sentinel (the final join blocks forever), "
                       "or keeps spinning when nobody is left", e.loc(f, wl.test), instance=f"{f.short}: sentinel loop guard table")
            if not bad:
                R.ok("R-SHUTDOWN-SEQ", f"{f.short}: sentinel loop guard == (sent < to_stop and alive > 0) on {len(tab)} rows", e.loc(f, wl.test))
        # both counters start at 0 and the sent counter advances by exactly one per posted sentinel (the guard table above is about their
        # relation, not their origin)
        if ok and sent_counter:
            for cn_ in sorted(counters | {sent_counter}):
                inits = [d for d in e.local_defs(f, cn_) if isinstance(d, ast.Constant)]
                R.check(bool(inits) and all(d.value == 0 and not isinstance(d.value, bool) for d in inits), "R-SHUTDOWN-SEQ", f"{f.short}: the counter `{cn_}` starts at 0", f.short,
                        f"{cn_} = {norm(inits[0]) if inits else '?'}", f"the counter `{cn_}` does not start at 0: one sentinel too few is posted (a worker never leaves and the final join "
                        "blocks) or one too many (it stays in a queue that may be reused)", e.loc(f, f.node))
            steps_ = [x for x in func_nodes(f) if isinstance(x, ast.AugAssign) and isinstance(x.target, ast.Name) and x.target.id == sent_counter]
            R.check(bool(steps_) and all(isinstance(x.op, ast.Add) and isinstance(x.value, ast.Constant) and x.value.value == 1 for x in steps_), "R-SHUTDOWN-SEQ",
                    f"{f.short}: `{sent_counter}` advances by one per posted sentinel", f.short, f"{sent_counter} += 1", "the count of posted sentinels does not advance by one per put",
                    e.loc(f, f.node))
        R.check(ok, "R-SHUTDOWN-SEQ", f"{f.short}: posts sentinels until as many as released workers were sent", f.short,
                f"while {norm(wl.test) if wl is not None else '?'}",
                "the number of sentinels posted is not bounded by / does not reach the number of workers to stop "
                "(a worker without sentinel never leaves; an extra sentinel poisons a reused queue)", e.loc(f, c))
    R.check(bool(posts), "R-SHUTDOWN-SEQ", f"{f.short}: posts sentinels", f.short, "put_nowait(None)", "no sentinel posted", e.loc(f, f.node))
    # (3) join-internals order
    j = join_internals_func(e)
    jg = e.cfg(j)
    stop = effect_nodes(e, j, calls_method_of(e, [f.qualname]))
    closeq = effect_nodes(e, j, recv_call(e, "close", a.callq))
    jt = effect_nodes(e, j, recv_call(e, "join_thread", a.callq))
    closer = effect_nodes(e, j, recv_call(e, "close", a.resq))
    closew = effect_nodes(e, j, calls_method_of(e, [a.wake_close_method.qualname]))
    joinp = {n for n in jg.nodes for c in calls_in(n)
             if isinstance(c.func, ast.Attribute) and c.func.attr == "join" and e.objs(j, c.func.value) & a.process_objs}
    _order(e, R, "R-SHUTDOWN-SEQ", j, [
        ("stop workers (release + sentinels)", stop),
        ("close the call queue", closeq),
        ("join the feeder thread", jt),
        ("close the result queue", closer),
        ("close the wake-up pipe", closew),
        ("join every remaining worker", joinp),
    ], "join of the executor internals out of order")
    # every exit of join-internals passes through each step
    for name, S in (("close call queue", closeq), ("close result queue", closer), ("close wake-up", closew)):
        esc = jg.escape_path(jg.entry, lambda n, S=S: n in S, use_exc=False)
        R.check(esc is None and bool(S), "R-SHUTDOWN-SEQ", f"{j.short}: `{name}` on every path", j.short, name,
                f"join of the executor internals can return without `{name}`", e.loc(j, j.node))
    # join-all: loop popping the table until empty, under the management lock
    for n in joinp:
        c = [c for c in calls_in(n) if isinstance(c.func, ast.Attribute) and c.func.attr == "join"][0]
        wl = _enclosing(e, c, ast.While)
        pops = [x for x in _walk_noscope(wl) if isinstance(x, ast.Call) and e.receiver_objs(j, x, ("popitem", "pop")) & a.processes] if wl else []
        R.check(bool(pops), "R-SHUTDOWN-SEQ", f"{j.short}: every worker left in the table is popped and joined", j.short, norm(c),
                "not every remaining worker is joined (reaped)", e.loc(j, c))
    R.floor("R-SHUTDOWN-SEQ", 20)


def _enclosing(e, node, kind):
    p = e.prog.parent.get(id(node))
    while p is not None and not isinstance(p, (ast.FunctionDef, ast.Lambda)):
        if isinstance(p, kind):
            return p
        p = e.prog.parent.get(id(p))
    return None


def _block_of(e, st):
    p = e.prog.parent.get(id(st))
    if p is None:
        return None
    for fld in ("body", "orelse", "finalbody"):
        b = getattr(p, fld, None)
        if isinstance(b, list) and st in b:
            return b
    return None


def _same_block(e, a_, b_):
    return _block_of(e, a_) is not None and _block_of(e, a_) is _block_of(e, b_)


def _iter_all_processes(e, f, it):
    a = e.anchors
    it = e.expand(f, it)
    while isinstance(it, ast.Call) and isinstance(it.func, ast.Name) and (it.func.id in ("list", "tuple") and len(it.args) == 1
                                                                            or it.func.id == "enumerate" and it.args):
        it = e.expand(f, it.args[0])
    return isinstance(it, ast.Call) and isinstance(it.func, ast.Attribute) and it.func.attr in ("values", "items") \
        and bool(e.objs(f, it.func.value) & a.processes)


# ---------------------------------------------------------------------------
# R-EXIT-HANDSHAKE
# ---------------------------------------------------------------------------

def pid_branch_func(e):
    """Manager function that pops a worker from the table by a received pid."""
    a = e.anchors
    out = []
    for q in a.manager_funcs:
        f = e.prog.funcs[q]
        if not manager_only(e, q):
            continue
        for n in func_nodes(f):
            if isinstance(n, ast.Call) and isinstance(n.func, ast.Attribute) and n.func.attr == "pop" \
                    and e.objs(f, n.func.value) & a.processes:
                out.append((f, n))
    if len(out) != 1:
        raise AnalysisError(f"pid branch (pop from the worker table) not unique: {[f.short for f, _ in out]}")
    return out[0]


def r_exit_handshake(e, R):
    a = e.anchors
    f, popc = pid_branch_func(e)
    g = e.cfg(f)
    held = e.held(f)
    popn = cfg_nodes(e, f, popc)
    R.check(all(e.token_in(held[n], a.pml) for n in popn), "R-EXIT-HANDSHAKE", f"{f.short}: worker removed from the table under the management lock",
            f.short, norm(popc), "the announced worker is removed from the table without the processes management lock", e.loc(f, popc))
    pidp = f.params[1] if len(f.params) > 1 else None
    R.check(bool(popc.args) and isinstance(popc.args[0], ast.Name) and popc.args[0].id == pidp and
            (len(popc.args) == 1 or (isinstance(popc.args[1], ast.Constant) and popc.args[1].value is None)), "R-EXIT-HANDSHAKE",
            f"{f.short}: the worker removed from the table is the one whose pid was announced (absent -> None)", f.short, norm(popc),
            "the table is not popped under the announced pid (arguments swapped / another key): the manager releases and joins something that is not a "
            "worker (AttributeError kills the manager thread) while the announced worker waits for its exit lock", e.loc(f, popc))
    st = stmt_of(e, f, popc)
    var = st.targets[0].id if isinstance(st, ast.Assign) and isinstance(st.targets[0], ast.Name) else None
    rel = [n for n in g.nodes for c in calls_in(n) if e.receiver_objs(f, c, ("release",)) & a.exit_locks
           and isinstance(c.func.value, ast.Attribute) and isinstance(c.func.value.value, ast.Name) and c.func.value.value.id == var]
    joins = [n for n in g.nodes for c in calls_in(n) if isinstance(c.func, ast.Attribute) and c.func.attr == "join"
             and isinstance(c.func.value, ast.Name) and c.func.value.id == var]
    R.check(bool(rel) and all(any(g.dominates(p, r) for p in popn) for r in rel), "R-EXIT-HANDSHAKE",
            f"{f.short}: the popped worker's exit lock is released after the removal", f.short, f"{var}._worker_exit_lock.release()",
            "the exit lock of the announced worker is not released (the worker waits 30 s) or is released before it left the table "
            "(its sentinel could be seen while still registered: clean exit reported as a crash)", e.loc(f, popc))
    R.check(bool(joins) and all(any(g.dominates(r, j) for r in rel) for j in joins), "R-EXIT-HANDSHAKE",
            f"{f.short}: the worker is joined after its exit lock was released", f.short, f"{var}.join()",
            "the announced worker is not joined after the release (zombie) or joined before it (deadlock)", e.loc(f, popc))
    # the pid branch never flags the pool broken and never kills
    from .liveness import broken_pred
    from .broken import kill_pred
    bn = effect_nodes(e, f, broken_pred(e)) | effect_nodes(e, f, kill_pred(e))
    R.check(not bn, "R-EXIT-HANDSHAKE", f"{f.short}: an exit announcement never flags the pool broken", f.short, "no FLAG(broken)/KILL effect",
            "processing a clean-exit announcement can flag the pool broken or kill workers", e.loc(f, f.node))
    R.floor("R-EXIT-HANDSHAKE", 4)


# ---------------------------------------------------------------------------
# R-NO-STRONG-REF
# ---------------------------------------------------------------------------

def r_no_strong_ref(e, R):
    a = e.anchors
    init = e.anchors.method(a.manager_cls, "__init__")
    # the executor parameter: the one whose points-to set contains executor objects
    params = [p for p in init.params[1:] if set(e.pt.get(("L", init.qualname, p))) & a.executor_objs]
    if len(params) != 1:
        raise AnalysisError("manager constructor: executor parameter not identified")
    ex = params[0]
    bad = []
    for n in func_nodes(init):
        if isinstance(n, ast.Name) and n.id == ex and isinstance(n.ctx, ast.Load):
            par = parent(e, n)
            if isinstance(par, ast.Attribute) and par.value is n:
                continue
            if isinstance(par, ast.Call) and n in par.args and any(v == ("ext", "weakref.ref") for v in e.pt.ev(init, par.func)):
                continue
            bad.append(par)
    # closures / defaults of nested functions
    for q, f2 in e.prog.funcs.items():
        if f2.parent is init or (f2.parent is not None and f2.parent.parent is init):
            for n in ast.walk(f2.node):
                if isinstance(n, ast.Name) and n.id == ex and ex not in f2.locals:
                    bad.append(n)
    R.check(not bad, "R-NO-STRONG-REF", "manager constructor: the executor is only dereferenced or weakly referenced", init.short,
            norm(bad[0]) if bad else "", "the manager thread keeps a strong reference to its executor (it can never be collected, "
            "so the GC-triggered shutdown never happens)", e.loc(init, bad[0]) if bad else None)
    # heap reachability from the manager object (not through weak references)
    seen = set(a.manager_objs)
    work = [(o, [pt_name(e, o)]) for o in a.manager_objs]
    hit = None
    while work and hit is None:
        o, path = work.pop()
        for attr in e.pt.fields.get(o, ()):
            if o[0] == "obj" and o[2] == "ext:weakref.ref":
                continue
            for v in e.pt.get(("F", o, attr)):
                if v in a.executor_objs:
                    hit = path + [attr]
                    break
                if v[0] in ("obj", "cont", "tuple") and v not in seen:
                    seen.add(v)
                    work.append((v, path + [attr]))
            if hit:
                break
    R.check(hit is None, "R-NO-STRONG-REF", f"no object reachable from the manager ({len(seen)} objects) points back to the executor",
            init.short, ".".join(hit) if hit else "", "an object captured by the manager thread references the executor strongly",
            e.loc(init, init.node))
    # no local of the manager loop is bound to the dereferenced executor across the blocking wait
    run = a.manager_run
    loc_bad = [nm for nm in run.locals if set(e.pt.get(("L", run.qualname, nm))) & a.executor_objs]
    R.check(not loc_bad, "R-NO-STRONG-REF", "manager loop: no local holds the executor across the blocking wait", run.short,
            ", ".join(loc_bad), "a local of the manager loop keeps the executor alive while waiting", e.loc(run, run.node))
    R.floor("R-NO-STRONG-REF", 3)


def pt_name(e, o):
    return e.pt.describe(o)[:40]


# ---------------------------------------------------------------------------
# R-ATEXIT
# ---------------------------------------------------------------------------

def r_atexit(e, R):
    a = e.anchors
    f = a.atexit_hook
    g = e.cfg(f)
    wake = wake_pred(e)
    wn = effect_nodes(e, f, wake)
    jn = {n for n in g.nodes for c in calls_in(n) if isinstance(c.func, ast.Attribute) and c.func.attr == "join"
          and e.objs(f, c.func.value) & a.manager_objs}
    R.check(bool(wn) and bool(jn), "R-ATEXIT", f"{f.short}: wakes and joins the registered managers", f.short, "wakeup / join",
            "the at-exit hook no longer wakes and joins the manager threads", e.loc(f, f.node))
    # both loops range over the same materialised registry
    regs = set()
    for n in list(wn) + list(jn):
        loop = None
        for c in calls_in(n):
            loop = _enclosing(e, c, ast.For) or loop
        if loop is None and n.ast is not None:
            loop = _enclosing(e, n.ast, ast.For)
        regs.add(norm(e.expand(f, loop.iter)) if loop is not None else "?")
        R.check(loop is not None, "R-ATEXIT", f"{f.short}: {n!r} is inside a loop over the registry", f.short, norm(n.ast) if n.ast else "",
                "wake-up/join of managers is not done for every registered manager", e.loc(f, n.ast))
    R.check(len(regs) == 1 and "?" not in regs, "R-ATEXIT", f"{f.short}: wake-up loop and join loop range over the same registry snapshot",
            f.short, " / ".join(sorted(regs)), "the managers that are woken are not the ones that are joined", e.loc(f, f.node))
    # all wake-ups precede all joins
    ok = not any(g.path_exists(j, lambda n: n in wn, use_exc=False) for j in jn)
    R.check(ok, "R-ATEXIT", f"{f.short}: every manager is woken before any is joined", f.short, "wake loop before join loop",
            "a manager is joined before all managers were woken", e.loc(f, f.node))
    # registration: registry entry written after the thread start, hook registered when the first manager starts
    reg_sites = []
    for cid, s in e.pt.calls.items():
        if any(q == f.qualname and k == "atexit" for q, k in s):
            reg_sites.append(e.pt.call_node[cid])
    R.check(len(reg_sites) >= 1, "R-ATEXIT", "the hook is registered with the interpreter's at-exit machinery", f.short, "register",
            "the at-exit hook is never registered", None)
    for rf, rc in reg_sites:
        rg = e.cfg(rf)
        starts = [n for n in rg.nodes for c in calls_in(n) if isinstance(c.func, ast.Attribute) and c.func.attr == "start"
                  and e.objs(rf, c.func.value) & a.manager_objs]
        R.check(bool(starts), "R-ATEXIT", f"{rf.short}: registers the hook where the manager thread is started", rf.short, norm(rc)[:60],
                "the hook registration is no longer tied to starting a manager thread", e.loc(rf, rc))
        # the registry store follows the start
        stores = [n for n in rg.nodes if n.kind == "stmt" and isinstance(n.ast, ast.Assign)
                  and isinstance(n.ast.targets[0], ast.Subscript)
                  and e.pt.ev(rf, n.ast.targets[0].value) & {v for v in e.pt.ev(f, e.expand(f, _registry_expr(e, f)))} ]
        R.check(bool(stores) and all(any(rg.dominates(s, x) for s in starts) for x in stores), "R-ATEXIT",
                f"{rf.short}: the (lock, wake-up) pair is registered after the thread start", rf.short, "registry[thread] = (lock, wakeup)",
                "a started manager thread is not registered for the at-exit wake-up/join", e.loc(rf, rc))
    R.floor("R-ATEXIT", 7)


def _registry_expr(e, f):
    for n in func_nodes(f):
        if isinstance(n, ast.Call) and isinstance(n.func, ast.Attribute) and n.func.attr == "items":
            return n.func.value
    raise AnalysisError("at-exit hook does not iterate a registry")
