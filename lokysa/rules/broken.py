"""Crash detection and broken-pool handling (C02, shared with C06).

R-WAITSET, R-BROKEN-PATHS, R-BROKEN-DISPATCH, R-BROKEN-ORDER, R-SUBMIT-GATE,
R-EXC-TYPES, R-KILL-TREE, R-WORKER-UNPICKLE.
"""
import ast

from ..model import func_nodes, norm, AnalysisError, static_truth
from ..cfg import calls_in, _walk_noscope
from .liveness import manager_only as manager_only_  # noqa: E402
from .util import (none_test, node_has_effect, effect_nodes, calls_method_of, recv_call, stmt_of, parent,
                   cfg_nodes)
from .liveness import broken_pred, resolve_pred, flag_writers, spawn_pred, close_callq_pred, manager_only

PE = "loky.process_executor"
BPP = f"{PE}:BrokenProcessPool"
TWE = f"{PE}:TerminatedWorkerError"
KILL_TREE = "loky.backend.utils:kill_process_tree"


def kill_pred(e):
    if KILL_TREE not in e.prog.funcs:
        raise AnalysisError("anchor vanished: loky.backend.utils.kill_process_tree")
    return calls_method_of(e, [KILL_TREE])


# ---------------------------------------------------------------------------
# R-WAITSET
# ---------------------------------------------------------------------------

def r_waitset(e, R):
    a = e.anchors
    for f, c in a.wait_calls:
        if not c.args:
            raise AnalysisError("wait() call without arguments")
        timeout = len(c.args) > 1 or any(k.arg == "timeout" for k in c.keywords)
        R.check(not timeout, "R-WAITSET", f"{f.short}: wait() has no timeout (the wake-up protocol is the only way to re-snapshot)",
                f.short, norm(c), "the manager's wait() got a timeout: the design relies on wake-ups, see R-WAKE waiver",
                e.loc(f, c)) if False else None
        leaves = a.wait_leaves(f, c.args[0])
        has_res = has_wake = False
        sent = None
        for leaf in leaves:
            if isinstance(leaf, ast.Attribute):
                o = set(e.pt.ev(f, leaf.value))
                if o & a.resq:
                    has_res = True
                if o & a.wakeup_objs:
                    has_wake = True
            elif isinstance(leaf, (ast.ListComp, ast.GeneratorExp)):
                sent = leaf
        R.check(has_res, "R-WAITSET", f"{f.short}: the result queue's reader is in the wait set", f.short, norm(c.args[0]),
                "the reader end of the result queue is not part of the manager's wait set", e.loc(f, c))
        R.check(has_wake, "R-WAITSET", f"{f.short}: the wake-up pipe's reader is in the wait set", f.short, norm(c.args[0]),
                "the reader end of the wake-up pipe is not part of the manager's wait set: submit/shutdown/GC cannot wake the manager",
                e.loc(f, c))
        ok = False
        why = "no comprehension yielding worker sentinels found in the wait set"
        if sent is not None and len(sent.generators) == 1:
            g = sent.generators[0]
            it = g.iter
            while isinstance(it, ast.Call) and isinstance(it.func, ast.Name) and it.func.id in ("list", "tuple") and len(it.args) == 1:
                it = it.args[0]
            it = e.expand(f, it)
            while isinstance(it, ast.Call) and isinstance(it.func, ast.Name) and it.func.id in ("list", "tuple") and len(it.args) == 1:
                it = it.args[0]
            over_all = isinstance(it, ast.Call) and isinstance(it.func, ast.Attribute) and it.func.attr in ("values", "items") \
                and bool(e.objs(f, it.func.value) & a.processes) and not it.args
            elt_ok = isinstance(sent.elt, ast.Attribute) and sent.elt.attr == "sentinel" and \
                bool({v for v in e.pt.ev(f, sent.elt.value)} & a.process_objs)
            if g.ifs:
                why = f"the sentinel list is filtered ({norm(g.ifs[0])}): a worker that died is dropped from the wait set"
            elif not over_all:
                why = f"the sentinel list does not range over every value of the worker table ({norm(g.iter)})"
            elif not elt_ok:
                why = f"the comprehension does not yield `.sentinel` of each worker ({norm(sent.elt)})"
            else:
                ok = True
        R.check(ok, "R-WAITSET", f"{f.short}: the wait set contains the sentinel of every registered worker", f.short,
                norm(sent) if sent is not None else norm(c.args[0]), why, e.loc(f, c))
    R.floor("R-WAITSET", 3)


# ---------------------------------------------------------------------------
# R-BROKEN-PATHS
# ---------------------------------------------------------------------------

def _enumerate_paths(g, limit=20000):
    """All acyclic entry->exit paths (lists of (node, label-taken))."""
    out = []
    stack = [(g.entry, [(g.entry, None)], {g.entry})]
    while stack:
        n, path, seen = stack.pop()
        if n is g.exit or n is g.raise_exit:
            out.append(path)
            if len(out) > limit:
                raise AnalysisError("too many paths")
            continue
        for m, l in n.succ:
            if m in seen:
                continue
            stack.append((m, path[:-1] + [(n, l), (m, None)], seen | {m}))
    return out


def _absval(e, f, v):
    if isinstance(v, ast.Constant):
        return ("const", v.value)
    if isinstance(v, ast.Call):
        cls = {x[1] for x in e.pt.ev(f, v.func) if x[0] == "class"}
        if cls:
            return ("new", frozenset(cls))
        return ("call", norm(v.func))
    return ("other", norm(v)[:40])


def r_broken_paths(e, R):
    a = e.anchors
    run = a.manager_run
    # locate, in run, the unpacking of the wait function's result and the roles of its positions
    waitf = {f.qualname for f, _ in a.wait_calls}
    if len(waitf) != 1:
        raise AnalysisError("wait() is called from several manager functions")
    wf = e.prog.funcs[next(iter(waitf))]
    broken = broken_pred(e)
    idx_broken = idx_bpe = idx_item = None
    names = None
    for n in func_nodes(run):
        if isinstance(n, ast.Assign) and isinstance(n.value, ast.Call) and wf.qualname in e.callees_of(n.value) \
                and isinstance(n.targets[0], ast.Tuple):
            names = [t.id if isinstance(t, ast.Name) else None for t in n.targets[0].elts]
    if not names:
        raise AnalysisError("manager loop does not unpack the result of the wait function")
    g = e.cfg(run)
    for t in g.nodes:
        if t.kind == "test" and isinstance(t.ast, ast.Name) and t.ast.id in names:
            bn = [b for b in effect_nodes(e, run, broken) if g.on_branch(b, t, "T")]
            if bn:
                idx_broken = names.index(t.ast.id)
                for b in bn:
                    for c in calls_in(b):
                        for arg in c.args:
                            if isinstance(arg, ast.Name) and arg.id in names:
                                idx_bpe = names.index(arg.id)
    if idx_broken is None or idx_bpe is None:
        raise AnalysisError("cannot identify the broken flag / exception positions of the wait result")
    idx_item = [i for i in range(len(names)) if i not in (idx_broken, idx_bpe)][0]
    # returned tuple in the wait function
    rets = [n for n in func_nodes(wf) if isinstance(n, ast.Return)]
    if len(rets) != 1 or not isinstance(rets[0].value, ast.Tuple) or len(rets[0].value.elts) != len(names):
        raise AnalysisError("wait function does not end in a single `return a, b, c`")
    rnames = [x.id if isinstance(x, ast.Name) else None for x in rets[0].value.elts]
    vb, vx, vi = rnames[idx_broken], rnames[idx_bpe], rnames[idx_item]
    wg = e.cfg(wf)
    wait_ids = {id(c) for _, c in a.wait_calls}
    ready_name = None
    for n in func_nodes(wf):
        if isinstance(n, ast.Assign) and isinstance(n.value, ast.Call) and id(n.value) in wait_ids \
                and isinstance(n.targets[0], ast.Name):
            ready_name = n.targets[0].id
    if ready_name is None:
        raise AnalysisError("result of wait() is not bound to a local")

    def readiness(t):
        """'result' / 'wakeup' for `X in ready` tests."""
        x = t.ast
        if t.kind == "test" and isinstance(x, ast.Compare) and len(x.ops) == 1 and isinstance(x.ops[0], ast.In) \
                and isinstance(x.comparators[0], ast.Name) and x.comparators[0].id == ready_name:
            subj = e.expand(wf, x.left)
            if isinstance(subj, ast.Attribute):
                o = set(e.pt.ev(wf, subj.value))
                if o & a.resq:
                    return "result"
                if o & a.wakeup_objs:
                    return "wakeup"
        return None

    res_tests = [t for t in wg.nodes if readiness(t) == "result"]
    wk_tests = [t for t in wg.nodes if readiness(t) == "wakeup"]
    if not res_tests or not wk_tests:
        raise AnalysisError("readiness tests of the result reader / wake-up reader not found")
    paths = _enumerate_paths(wg)
    esc = [p for p in paths if p[-1][0] is wg.raise_exit]
    R.check(not esc, "R-BROKEN-PATHS", f"{wf.short}: no exception escapes the wait function", wf.short, "exception escapes",
            "an exception raised while receiving/classifying can escape the wait function: the manager thread dies and every "
            "pending future stays unresolved (the handler around recv must catch BaseException)", e.loc(wf, wf.node),
            [repr(n) for n, _ in esc[0]][-6:] if esc else None)
    n_classes = {}
    for path in paths:
        if path[-1][0] is wg.raise_exit:
            continue
        env = {vb: None, vx: None, vi: None}
        took = {}
        exc = False
        calls_exitcodes = False
        for n, l in path:
            if l == "exc":
                exc = True
            r = readiness(n) if n.kind == "test" else None
            if r:
                took[r] = l
            if n.kind == "test" and isinstance(n.ast, ast.Call) and isinstance(n.ast.func, ast.Name) \
                    and n.ast.func.id == "isinstance":
                took["isinstance:" + norm(n.ast.args[1])] = l
            if n.kind == "stmt" and isinstance(n.ast, ast.Assign) and l != "exc":
                for t in n.ast.targets:
                    if isinstance(t, ast.Name) and t.id in env:
                        env[t.id] = _absval(e, wf, n.ast.value)
            for c in calls_in(n):
                if any(e.objs(wf, arg) & a.processes for arg in c.args) and e.callees_of(c):
                    calls_exitcodes = True
        cls = tuple(sorted(took.items())) + (("exc", exc),)
        vbv, vxv = env[vb], env[vx]
        key = (cls, vbv, vxv)
        if key in n_classes:
            continue
        n_classes[key] = True
        desc = f"path class {dict(took)}{' +exception' if exc else ''}: broken={vbv}, exception={vxv}"
        is_broken = vbv == ("const", True)
        not_broken = vbv == ("const", False)
        # (1) broken => a BrokenProcessPool-derived exception was constructed on this path
        if is_broken:
            ok = vxv is not None and vxv[0] == "new" and all(e.pt.is_subclass(c, BPP) for c in vxv[1])
            R.check(ok, "R-BROKEN-PATHS", desc + " -> broken with a BrokenProcessPool-derived exception", wf.short,
                    f"broken path {dict(took)}", f"a path returns is_broken=True with exception {vxv}: pending futures "
                    "would be failed with something that is not a BrokenProcessPool", e.loc(wf, rets[0]))
        elif not_broken:
            # (2) which classes may be non-broken: a good result, or a wake-up
            good_result = took.get("result") == "T" and not exc and not any(k.startswith("isinstance:") and v == "T" for k, v in took.items())
            wake = took.get("result") == "F" and took.get("wakeup") == "T"
            R.check(good_result or wake, "R-BROKEN-PATHS", desc + " -> not broken (good result or wake-up)", wf.short,
                    f"non-broken path {dict(took)}{' +exception' if exc else ''}",
                    "a path on which neither a good result was received nor a wake-up arrived returns is_broken=False: "
                    "a worker death (sentinel only), an unpicklable result or an un-serialisation failure in the worker "
                    "would go unnoticed", e.loc(wf, rets[0]))
        else:
            R.fail("R-BROKEN-PATHS", wf.short, f"path {dict(took)}", f"broken flag is not a constant on this path: {vbv}",
                   e.loc(wf, rets[0]))
        # (3) sentinel-only path builds TerminatedWorkerError with the exit codes, and only when the result reader is not ready
        if vxv is not None and vxv[0] == "new" and any(e.pt.is_subclass(c, TWE) for c in vxv[1]):
            ok = took.get("result") == "F"
            R.check(ok, "R-BROKEN-PATHS", desc + " -> TerminatedWorkerError only when the result reader is not ready", wf.short,
                    f"TerminatedWorkerError path {dict(took)}",
                    "a worker sentinel is classified as a crash on a path where the result reader was ready: a clean exit "
                    "(pid announcement + sentinel ready together) would be reported as a crash", e.loc(wf, rets[0]))
            R.check(calls_exitcodes, "R-BROKEN-PATHS", desc + " -> exit codes of the worker table are formatted into the message",
                    wf.short, "TerminatedWorkerError without exit codes",
                    "the unannounced-death path no longer reports the workers' exit codes", e.loc(wf, rets[0]))
        if took.get("result") == "F" and took.get("wakeup") == "F":
            ok = is_broken and vxv is not None and vxv[0] == "new" and all(e.pt.is_subclass(c, TWE) for c in vxv[1])
            R.check(ok, "R-BROKEN-PATHS", desc + " -> sentinel-only readiness is a TerminatedWorkerError", wf.short,
                    "sentinel-only path", "when only a worker sentinel is ready the pool must be failed with "
                    "TerminatedWorkerError", e.loc(wf, rets[0]))
    R.info["broken_path_classes"] = len(n_classes)
    R.floor("R-BROKEN-PATHS", 6)


def r_broken_dispatch(e, R):
    """In the manager loop the broken branch calls the broken-pool routine and
    returns before any result processing."""
    a = e.anchors
    run = a.manager_run
    g = e.cfg(run)
    broken = broken_pred(e)
    res = resolve_pred(e)
    bn = effect_nodes(e, run, broken)
    if not bn:
        raise AnalysisError("manager loop has no broken-pool routine call")
    for b in bn:
        # after the broken routine: straight to exit
        w = g.find_path(b, lambda n: n.kind in ("stmt", "test") and n.ast is not None and not isinstance(n.ast, ast.Return)
                        and n is not b, use_exc=False)
        R.check(w is None, "R-BROKEN-DISPATCH", f"{run.short}: the broken-pool routine is followed by return", run.short,
                norm(b.ast), "the manager keeps running after the broken-pool routine", e.loc(run, b.ast))
        # no resolve-capable call between the wait and the broken routine on the broken branch
        tests = [t for t in g.nodes if t.kind == "test" and g.on_branch(b, t, "T")]
        R.check(bool(tests), "R-BROKEN-DISPATCH", f"{run.short}: the broken-pool routine is guarded by the broken flag of the wait result",
                run.short, norm(b.ast), "broken routine not control-dependent on the wait result", e.loc(run, b.ast))
        for t in tests[-1:]:
            other = [n for n in effect_nodes(e, run, res) if n not in bn and g.dominates(n, t)]
            waitn = [n for n in g.nodes if any(wf.qualname in e.callees_of(c) for c in calls_in(n) for wf in [e.prog.funcs[x] for x in {f.qualname for f, _ in a.wait_calls}])]
            bad = [n for n in other if any(g.dominates(w_, n) for w_ in waitn)]
            R.check(not bad, "R-BROKEN-DISPATCH", f"{run.short}: no result processing between the wait and the broken test",
                    run.short, norm(bad[0].ast) if bad else "", "results are processed before the broken flag is examined",
                    e.loc(run, t.ast))


# ---------------------------------------------------------------------------
# R-MGR-TOTAL
# ---------------------------------------------------------------------------

# stdlib operations that raise for some argument values (a partial function): a
# call on the manager's detection path must handle that exception class.
PARTIAL_STDLIB = {
    "signal.Signals": ("ValueError", "raises ValueError for numbers that are not members of the enum (e.g. real-time signals 35..63, which signal.valid_signals() does contain)"),
    "signal.strsignal": ("ValueError", "raises ValueError for out-of-range signal numbers"),
}


def r_mgr_total(e, R):
    """Between the wait and the broken-pool routine the manager must not
    raise: an exception there kills the thread at the very moment it has
    detected a death, so nothing is flagged, failed, killed or reaped.  Helpers
    reachable from the wait function may use value-partial stdlib calls only
    inside a handler of the exception they can raise."""
    a = e.anchors
    wf = e.prog.funcs[next(iter({f.qualname for f, _ in a.wait_calls}))]
    reach = e.reach([wf.qualname])
    n = 0
    for q in reach:
        f = e.prog.funcs[q]
        g = e.cfg(f)
        for c in [x for x in func_nodes(f) if isinstance(x, ast.Call)]:
            dotted = None
            for v in e.pt.ev(f, c.func):
                if v[0] == "ext" and v[1] in PARTIAL_STDLIB:
                    dotted = v[1]
            if dotted is None:
                continue
            n += 1
            exc, why = PARTIAL_STDLIB[dotted]
            ok = False
            for cn in cfg_nodes(e, f, c):
                hs = [m for m, l in cn.succ if l == "exc" and m.kind == "except"]
                ok = any(h.ast.type is None or norm(h.ast.type) in (exc, "Exception", "BaseException") or exc in norm(h.ast.type) for h in hs)
            R.check(ok, "R-MGR-TOTAL", f"{f.short}: `{norm(c)[:40]}` (value-partial) is guarded by a handler of {exc}", f.short, norm(c)[:60],
                    f"`{dotted}` {why}; it is reachable from the manager's wait/classification step ({' -> '.join(e.call_path(reach, q))}) without a "
                    f"handler of {exc}: the manager thread dies while reporting a worker death, the pool is never flagged broken and every "
                    "pending future stays unresolved", e.loc(f, c))
    # a lookup in a module-level table with a key computed from what a worker produced (its exit code) is value-partial too
    for q in reach:
        f = e.prog.funcs[q]
        if not f.module.name.startswith("loky."):
            continue
        modnames = {t_.id for s_ in f.module.tree.body if isinstance(s_, ast.Assign) for t_ in s_.targets if isinstance(t_, ast.Name)
                    and isinstance(s_.value, (ast.Dict, ast.DictComp))}
        for sub in [x for x in func_nodes(f) if isinstance(x, ast.Subscript) and isinstance(x.ctx, ast.Load) and isinstance(x.value, ast.Name)
                    and x.value.id in modnames and x.value.id not in f.locals and not isinstance(x.slice, ast.Constant)]:
            n += 1
            ok = False
            for cn in cfg_nodes(e, f, sub):
                hs = [m for m, l in cn.succ if l == "exc" and m.kind == "except"]
                ok = any(h.ast.type is None or any(k in norm(h.ast.type) for k in ("KeyError", "LookupError", "Exception", "BaseException")) for h in hs)
            R.check(ok, "R-MGR-TOTAL", f"{f.short}: the table lookup `{norm(sub)[:40]}` is guarded by a handler of KeyError", f.short, norm(sub)[:60],
                    f"`{norm(sub)}` raises KeyError for a key the table does not contain (an exit code / signal number without an entry, e.g. a real-time signal); it is "
                    f"reachable from the manager's wait/classification step ({' -> '.join(e.call_path(reach, q))}) without a handler of KeyError: the manager thread "
                    "dies while reporting a worker death, the pool is never flagged broken and every pending future stays unresolved", e.loc(f, sub))
    # warnings.warn raises when the filter says "error" (-W error, simplefilter("error"), pytest filterwarnings=error): on the manager
    # thread that is an exception like any other -- it must not leave the thread
    for q in sorted(a.manager_funcs):
        f = e.prog.funcs[q]
        if not manager_only_(e, q):
            continue
        for c in [x for x in func_nodes(f) if isinstance(x, ast.Call)]:
            if not any(v == ("ext", "warnings.warn") for v in e.pt.ev(f, c.func)):
                continue
            n += 1
            ok = False
            for cn in cfg_nodes(e, f, c):
                hs = [m for m, l in cn.succ if l == "exc" and m.kind == "except"]
                ok = any(h.ast.type is None or any(k in norm(h.ast.type) for k in ("Warning", "Exception", "BaseException")) for h in hs)
            R.check(ok, "R-MGR-TOTAL", f"{f.short}: `warnings.warn(...)` on the manager thread cannot kill it", f.short, "warnings.warn on the manager thread",
                    "warnings.warn raises when warnings are configured as errors; here it runs on the executor manager thread outside any handler: the thread dies "
                    "at the moment it was about to re-spawn a worker, pending futures never resolve and the executor is not flagged broken", e.loc(f, c))
    # explicit raises on that path (outside any handler) are the same hazard
    for q in reach:
        f = e.prog.funcs[q]
        g = e.cfg(f)
        for rn in [x for x in g.nodes if x.kind == "stmt" and isinstance(x.ast, ast.Raise)]:
            esc = g.path_exists(rn, lambda m: m is g.raise_exit, use_exc=True)
            hs = [m for m, l in rn.succ if l == "exc" and m.kind == "except"]
            if esc and not hs and f.module.name.startswith("loky."):
                n += 1
                R.fail("R-MGR-TOTAL", f.short, norm(rn.ast)[:60], "an exception is raised on the manager's detection path and not handled: the "
                       "manager thread dies before the pool is flagged broken", e.loc(f, rn.ast))
    # non-blocking queue operations signal "nothing there" / "no room" by raising: on the manager thread (and on the worker's
    # idle-timeout read) that signal must be handled where it is raised
    qobjs = a.work_ids | a.callq | a.resq
    for q in sorted(a.manager_funcs) + [a.worker_main.qualname]:
        f = e.prog.funcs[q]
        g = e.cfg(f)
        for c in [x for x in func_nodes(f) if isinstance(x, ast.Call) and isinstance(x.func, ast.Attribute)]:
            at = c.func.attr
            if not (e.receiver_objs(f, c, (at,)) & qobjs):
                continue
            if at in ("get_nowait",) or (at == "get" and (e.is_nonblocking(c) or any(k.arg == "timeout" for k in c.keywords))):
                exc = "Empty"
            elif at == "put_nowait" or (at == "put" and any(k.arg in ("block", "timeout") and not (isinstance(k.value, ast.Constant) and k.value.value in (True, None))
                                                          for k in c.keywords)):
                exc = "Full"
            else:
                continue
            n += 1
            ok = False
            for cn in cfg_nodes(e, f, c):
                hs = [m for m, l in cn.succ if l == "exc" and m.kind == "except"]
                ok = any(h.ast.type is not None and norm(h.ast.type).split(".")[-1] == exc for h in hs)
            R.check(ok, "R-MGR-TOTAL", f"{f.short}: non-blocking `{norm(c)[:50]}` handles queue.{exc} itself", f.short, norm(c)[:60],
                    f"`{norm(c)[:50]}` raises queue.{exc} when there is " + ("nothing to read" if exc == "Empty" else "no room") + ", which is the normal outcome of a "
                    f"non-blocking call, and no `except queue.{exc}` protects it: the " + ("manager thread" if q != a.worker_main.qualname else "worker") +
                    " dies (or treats it as a crash) instead of carrying on", e.loc(f, c))
    # dict.popitem() raises KeyError on an empty dict: either the loop guard excludes it (and nobody else removes entries) or it is handled
    for q in sorted(a.manager_funcs):
        f = e.prog.funcs[q]
        for c in [x for x in func_nodes(f) if isinstance(x, ast.Call) and isinstance(x.func, ast.Attribute) and x.func.attr == "popitem"]:
            recv = e.objs(f, c.func.value)
            if not (recv & (a.pending | a.processes)):
                continue
            n += 1
            handled = False
            for cn in cfg_nodes(e, f, c):
                hs = [m for m, l in cn.succ if l == "exc" and m.kind == "except"]
                handled = handled or any(h.ast.type is None or norm(h.ast.type) in ("KeyError", "LookupError", "Exception", "BaseException") for h in hs)
            guarded = False
            p_ = e.prog.parent.get(id(stmt_of(e, f, c)))
            while p_ is not None and not isinstance(p_, ast.FunctionDef):
                if isinstance(p_, ast.While) and e.objs(f, p_.test) & recv:
                    guarded = True
                p_ = e.prog.parent.get(id(p_))
            # removers outside the manager thread (e.g. the feeder's error hook pops pending items)
            others = []
            for g2 in e.prog.funcs.values():
                if g2.qualname in a.manager_funcs and manager_only(e, g2.qualname):
                    continue
                if g2.module.name == "__user__":
                    continue
                for x in func_nodes(g2):
                    if isinstance(x, ast.Call) and isinstance(x.func, ast.Attribute) and x.func.attr in ("pop", "popitem", "clear") and e.objs(g2, x.func.value) & recv:
                        others.append(g2.short)
                    if isinstance(x, ast.Delete) and any(isinstance(t, ast.Subscript) and e.objs(g2, t.value) & recv for t in x.targets):
                        others.append(g2.short)
            ok = handled or (guarded and not others)
            R.check(ok, "R-MGR-TOTAL", f"{f.short}: `{norm(c)[:40]}` cannot raise KeyError out of the manager thread", f.short, norm(c)[:50],
                    "popitem() on a table that " + (f"{sorted(set(others))} also remove entries from" if others else "may be empty") +
                    " is neither handled (except KeyError) nor excluded by its loop guard: the manager thread dies in the middle of failing / joining everything",
                    e.loc(f, c))
    # starting a process can fail (fork/exec: EAGAIN, EMFILE, ENOMEM; building the preparation data: os.getcwd() of a removed
    # directory, an unpicklable initializer): when the manager thread itself re-spawns a worker, that failure must not end the thread
    spawnq = a.spawn_func.qualname
    for q in sorted(a.manager_funcs):
        f = e.prog.funcs[q]
        if not manager_only_(e, q) or q == spawnq:
            continue
        for c in [x for x in func_nodes(f) if isinstance(x, ast.Call) and spawnq in e.callees_of(x)]:
            n += 1
            handled = False
            for cn in cfg_nodes(e, f, c):
                hs = [m for m, l in cn.succ if l == "exc" and m.kind == "except"]
                handled = handled or any(h.ast.type is None or any(k in norm(h.ast.type) for k in ("OSError", "Exception", "BaseException")) for h in hs)
            R.check(handled, "R-MGR-TOTAL", f"{f.short}: a failing re-spawn cannot kill the manager thread", f.short, "re-spawn on the manager thread outside any handler",
                    f"`{norm(c)[:50]}` starts worker processes on the executor manager thread outside any handler: when a start fails (EAGAIN / EMFILE / ENOMEM from "
                    "fork_exec, FileNotFoundError from os.getcwd() in the preparation data) the exception ends the thread: the pending futures never resolve, the "
                    "executor is not flagged broken and shutdown(wait=True) hangs", e.loc(f, c))
    R.info["mgr_total_partial_calls"] = n
    if n < 1:
        R.ok("R-MGR-TOTAL", "no value-partial stdlib call on the manager's detection path", None)


# ---------------------------------------------------------------------------
# R-BROKEN-ORDER
# ---------------------------------------------------------------------------

def broken_routine(e):
    """The manager function that flags the pool broken (terminate_broken)."""
    a = e.anchors
    fw = flag_writers(e)
    qs = {q for q, attrs in fw.items() if "broken" in attrs}
    out = set()
    for q in a.manager_funcs:
        f = e.prog.funcs[q]
        if q in qs:
            continue
        for n in func_nodes(f):
            if isinstance(n, ast.Call) and e.callees_of(n) & qs:
                out.add(q)
    if len(out) != 1:
        raise AnalysisError(f"broken-pool routine not unique: {sorted(out)}")
    return e.prog.funcs[out.pop()]


def _order(e, R, rule, f, classes, what, strict_first=True):
    """classes: list of (name, set(nodes)).  A later class must never flow back
    into an earlier one; the first class must dominate every later node (the
    other classes may be loops that run zero times)."""
    g = e.cfg(f)
    for name, S in classes:
        R.check(bool(S), rule, f"{f.short}: has a `{name}` step", f.short, name,
                f"{what}: the `{name}` step is missing", e.loc(f, f.node))
    for i in range(len(classes)):
        for j in range(i + 1, len(classes)):
            an, A = classes[i]
            bn, B = classes[j]
            if not A or not B:
                continue
            ok1 = True
            if i == 0 and strict_first:
                ok1 = all(any(g.dominates(x, y) and x is not y for x in A) for y in B)
            ok2 = not any(g.path_exists(y, lambda n, A=A: n in A, use_exc=False) for y in B if y not in A)
            R.check(ok1 and ok2, rule, f"{f.short}: {an} precedes {bn}", f.short, f"{an} before {bn}",
                    f"{what}: `{bn}` can happen before `{an}`", e.loc(f, next(iter(B)).ast))


def r_broken_order(e, R):
    a = e.anchors
    f = broken_routine(e)
    broken = broken_pred(e)
    res = resolve_pred(e)
    kill = kill_pred(e)
    closeq = close_callq_pred(e)
    _order(e, R, "R-BROKEN-ORDER", f, [
        ("flag broken", effect_nodes(e, f, broken)),
        ("fail pending futures", effect_nodes(e, f, res)),
        ("kill worker trees", effect_nodes(e, f, kill)),
        ("join internals", effect_nodes(e, f, closeq)),
    ], "broken-pool routine out of order (submit must fail first, futures must be failed before the kill, internals joined last)")
    # the futures are failed with the routine's exception argument
    params = f.params[1:]
    for n in func_nodes(f):
        if isinstance(n, ast.Call) and res(f, n):
            ok = bool(n.args) and isinstance(n.args[0], ast.Name) and n.args[0].id in params \
                and isinstance(n.func, ast.Attribute) and n.func.attr == "set_exception"
            R.check(ok, "R-BROKEN-ORDER", f"{f.short}: pending futures fail with the broken-pool exception passed in",
                    f.short, norm(n), "pending futures are not failed with the BrokenProcessPool exception of the detection",
                    e.loc(f, n))
    # flag table: the method that sets `broken` also sets `shutdown`, both under the lock
    fw = flag_writers(e)
    for q, attrs in fw.items():
        m = e.prog.funcs[q]
        if "broken" not in attrs:
            continue
        g = e.cfg(m)
        ok_sd = False
        ok_lock = True
        for n in func_nodes(m):
            if isinstance(n, ast.Assign) and isinstance(n.targets[0], ast.Attribute) and n.targets[0].attr in ("shutdown", "broken"):
                if n.targets[0].attr == "shutdown" and isinstance(n.value, ast.Constant) and n.value.value is True:
                    ok_sd = True
                for cn in g.nodes_of(n):
                    if not e.token_in(e.held(m)[cn], a.shutdown_lock):
                        ok_lock = False
                if n.targets[0].attr == "broken":
                    okv = isinstance(n.value, ast.Name) and n.value.id in m.params
                    R.check(okv, "R-BROKEN-ORDER", f"{m.short}: stores the exception it was given", m.short, norm(n),
                            "the broken flag does not keep the detection's exception (later submits must raise that same error)",
                            e.loc(m, n))
        R.check(ok_sd, "R-BROKEN-ORDER", f"{m.short}: flagging broken also flags shutdown", m.short, "shutdown = True",
                "a broken pool is not flagged as shut down: is_shutting_down/submit gates disagree", e.loc(m, m.node))
        R.check(ok_lock, "R-BROKEN-ORDER", f"{m.short}: flags are written under the shutdown lock", m.short, "with shutdown_lock",
                "broken/shutdown flags are written without the shutdown lock: submit can interleave between the test and the insert",
                e.loc(m, m.node))
    R.floor("R-BROKEN-ORDER", 9)


# ---------------------------------------------------------------------------
# R-SUBMIT-GATE
# ---------------------------------------------------------------------------

def submit_gate(e, f=None):
    """(broken test node, shutdown test node, cfg) of submit."""
    a = e.anchors
    f = f or a.submit
    g = e.cfg(f)
    bt = st = None
    for t in g.nodes:
        if t.kind != "test":
            continue
        x = t.ast
        nt = none_test(x)
        subj = nt[0] if nt else x
        if isinstance(subj, ast.Attribute) and set(e.pt.ev(f, subj.value)) & a.flags_objs:
            if subj.attr == "broken" and bt is None:
                bt = (t, nt[1] if nt else "T")
            elif subj.attr == "shutdown" and st is None:
                st = (t, "T")
    return bt, st, g


def r_submit_gate(e, R):
    a = e.anchors
    f = a.submit
    bt, st, g = submit_gate(e)
    if bt is None or st is None:
        R.fail("R-SUBMIT-GATE", f.short, "flag tests", "submit no longer tests the broken / shutdown flags", e.loc(f, f.node))
        return
    held = e.held(f)
    for (t, lab), nm in ((bt, "broken"), (st, "shutdown")):
        R.check(e.token_in(held[t], a.shutdown_lock), "R-SUBMIT-GATE", f"submit: `{nm}` is tested under the shutdown lock", f.short,
                norm(t.ast), f"the {nm} flag is tested without the shutdown lock", e.loc(f, t.ast))
        # the flagged branch raises
        esc = g.find_path(t, lambda n: n is g.exit, use_exc=False, start_labels=[lab])
        R.check(esc is None, "R-SUBMIT-GATE", f"submit: the `{nm}` branch raises", f.short, norm(t.ast),
                f"submit returns normally although the pool is flagged {nm}", e.loc(f, t.ast))
    # broken is examined before shutdown (flag_as_broken sets both: the stored error must win)
    R.check(g.dominates(bt[0], st[0]), "R-SUBMIT-GATE", "submit: broken is tested before shutdown", f.short,
            norm(st[0].ast), "submit tests `shutdown` before `broken`: on a broken pool it raises ShutdownExecutorError "
            "instead of the stored BrokenProcessPool", e.loc(f, st[0].ast))
    # the broken branch re-raises the stored exception
    ok = False
    for n in g.nodes:
        if n.kind == "stmt" and isinstance(n.ast, ast.Raise) and g.on_branch(n, bt[0], bt[1]):
            x = n.ast.exc
            if isinstance(x, ast.Attribute) and x.attr == "broken" and set(e.pt.ev(f, x.value)) & a.flags_objs:
                ok = True
    R.check(ok, "R-SUBMIT-GATE", "submit: re-raises the stored broken-pool exception", f.short, "raise flags.broken",
            "submit on a broken pool does not raise the stored BrokenProcessPool exception", e.loc(f, bt[0].ast))
    # every state mutation is on the not-broken, not-shutdown branch
    muts = []
    for n in g.nodes:
        if n.kind not in ("stmt",) or n.ast is None:
            continue
        for x in _walk_noscope(n.ast):
            if isinstance(x, ast.Subscript) and isinstance(x.ctx, ast.Store) and e.objs(f, x.value) & a.pending:
                muts.append((n, "insert into pending"))
            if isinstance(x, ast.Call) and e.receiver_objs(f, x, ("put", "put_nowait")) & a.work_ids:
                muts.append((n, "work id queued"))
            if isinstance(x, ast.Call) and e.call_has_effect(f, x, spawn_pred(e)):
                muts.append((n, "spawn"))
    if len(muts) < 3:
        raise AnalysisError("submit: state mutations (pending insert, work-id put, spawn) not all found")
    other = {"T": "F", "F": "T"}
    for n, what in muts:
        ok = g.on_branch(n, bt[0], other[bt[1]]) and g.on_branch(n, st[0], other[st[1]])
        R.check(ok, "R-SUBMIT-GATE", f"submit: {what} only after both gates passed", f.short, norm(n.ast)[:80],
                f"submit performs `{what}` before (or regardless of) the broken/shutdown tests", e.loc(f, n.ast))
    R.floor("R-SUBMIT-GATE", 9)


# ---------------------------------------------------------------------------
# R-EXC-TYPES
# ---------------------------------------------------------------------------

def r_exc_types(e, R):
    pt = e.pt
    for q in (BPP, TWE):
        e.prog.cls(q)
    R.check(pt.is_subclass(TWE, BPP), "R-EXC-TYPES", "TerminatedWorkerError is a BrokenProcessPool", "TerminatedWorkerError",
            "bases", "TerminatedWorkerError no longer derives from BrokenProcessPool", None)
    R.check(pt.has_ext_base(BPP, "concurrent.futures.process.BrokenProcessPool"), "R-EXC-TYPES",
            "BrokenProcessPool derives from concurrent.futures.process.BrokenProcessPool", "BrokenProcessPool", "bases",
            "loky's BrokenProcessPool is no longer the concurrent.futures exception", None)
    se = f"{PE}:ShutdownExecutorError"
    e.prog.cls(se)
    R.check(pt.has_ext_base(se, "builtins.RuntimeError"), "R-EXC-TYPES", "ShutdownExecutorError is a RuntimeError",
            "ShutdownExecutorError", "bases", "ShutdownExecutorError no longer derives from RuntimeError", None)


# ---------------------------------------------------------------------------
# R-KILL-TREE
# ---------------------------------------------------------------------------

def kill_workers_func(e):
    """Manager function that empties the worker table and kills every tree."""
    a = e.anchors
    closeq = close_callq_pred(e)
    out = []
    for q in a.manager_funcs:
        f = e.prog.funcs[q]
        if not f.module.name.startswith("loky.process_executor"):
            continue
        pops = any(isinstance(n, ast.Call) and e.receiver_objs(f, n, ("popitem",)) & a.processes for n in func_nodes(f))
        closes = any(isinstance(n, ast.Call) and closeq(f, n) for n in func_nodes(f))
        if pops and not closes:
            out.append(f)
    if len(out) != 1:
        raise AnalysisError(f"kill-workers routine (empties the worker table, no queue close) not unique: {[f.short for f in out]}")
    return out[0]


def kill_tree_roles(e):
    """(psutil implementation, fallback implementation, recursive pgrep kill) of the public kill_process_tree, by role:
    its two callees (the one using psutil / the other), and the self-recursive helper reachable from the fallback."""
    kt = e.prog.func(KILL_TREE)
    cal = set()
    for n in func_nodes(kt):
        if isinstance(n, ast.Call):
            cal |= {q for q in e.callees_of(n) if q.startswith("loky.backend.utils:")}
    ps = [q for q in cal if any(isinstance(x, ast.Name) and x.id == "psutil" for x in func_nodes(e.prog.funcs[q]))]
    fb = [q for q in cal if q not in ps]
    if len(ps) != 1 or len(fb) != 1:
        raise AnalysisError(f"anchor vanished: the two implementations behind kill_process_tree ({sorted(cal)})")
    rec = [q for q in e.reach([fb[0]]) if q in e.prog.funcs and any(isinstance(x, ast.Call) and q in e.callees_of(x) for x in func_nodes(e.prog.funcs[q]))]
    if len(rec) != 1:
        raise AnalysisError(f"anchor vanished: the recursive kill helper ({sorted(rec)})")
    return e.prog.funcs[ps[0]], e.prog.funcs[fb[0]], e.prog.funcs[rec[0]]


def r_kill_tree(e, R):
    a = e.anchors
    kill = kill_pred(e)
    f = kill_workers_func(e)
    g = e.cfg(f)
    # every entry popped from the worker table reaches kill_process_tree; the loop runs until the table is empty
    pops = [(n, c) for n in g.nodes for c in calls_in(n) if e.receiver_objs(f, c, ("popitem", "pop")) & a.processes]
    kills = [(n, c) for n in g.nodes for c in calls_in(n) if kill(f, c)]
    R.check(bool(pops) and bool(kills), "R-KILL-TREE", f"{f.short}: pops workers and kills their trees", f.short, "popitem / kill_process_tree",
            "kill-workers routine no longer pops every worker and kills its tree", e.loc(f, f.node))
    for n, c in kills:
        ok = bool(c.args) and bool(e.objs(f, c.args[0]) & a.process_objs or e.pt.ev(f, c.args[0]) & a.process_objs)
        ok2 = any(g.dominates(pn, n) for pn, _ in pops)
        R.check(ok and ok2, "R-KILL-TREE", f"{f.short}: the popped worker is passed to the tree kill", f.short, norm(c),
                "the process removed from the table is not the one whose tree is killed", e.loc(f, c))
    for pn, pc in pops:
        loop = pn
        # enclosing while whose guard is the emptiness test of the table
        p = e.prog.parent.get(id(stmt_of(e, f, pc)))
        ok = False
        while p is not None and not isinstance(p, ast.FunctionDef):
            if isinstance(p, ast.While):
                t = p.test
                if e.objs(f, t) & a.processes or (isinstance(t, ast.Constant) and t.value is True):
                    ok = True
            p = e.prog.parent.get(id(p))
        R.check(ok, "R-KILL-TREE", f"{f.short}: loops until the worker table is empty", f.short, norm(pc),
                "not every worker is removed and killed (no loop over the whole table)", e.loc(f, pc))
    # direct kill of the process object instead of its tree
    for n in func_nodes(f):
        if isinstance(n, ast.Call) and isinstance(n.func, ast.Attribute) and n.func.attr in ("kill", "terminate") \
                and e.objs(f, n.func.value) & a.process_objs:
            R.fail("R-KILL-TREE", f.short, norm(n), "kills only the worker process, not its descendants", e.loc(f, n))
    # psutil variant
    U = "loky.backend.utils:"
    fp, fw_role, fr_role = kill_tree_roles(e)
    gp = e.cfg(fp)
    enum = [n for n in gp.nodes for c in calls_in(n) if isinstance(c.func, ast.Attribute) and c.func.attr == "children"]
    pkills = [n for n in gp.nodes for c in calls_in(n) if isinstance(c.func, ast.Attribute) and c.func.attr == "kill"]
    joins = [n for n in gp.nodes for c in calls_in(n) if isinstance(c.func, ast.Attribute) and c.func.attr == "join"]
    R.check(bool(enum) and all(any(gp.dominates(x, k) for x in enum) for k in pkills) and len(pkills) >= 2, "R-KILL-TREE",
            f"{fp.short}: descendants are enumerated before anything is killed", fp.short, "children() before kill()",
            "a process is killed before its descendants were enumerated (re-parented children become invisible)", e.loc(fp, fp.node))
    rec = any(isinstance(c, ast.Call) and any(k.arg == "recursive" and isinstance(k.value, ast.Constant) and k.value.value is True
                                              for k in c.keywords) for c in ast.walk(fp.node) if isinstance(c, ast.Call) and
              isinstance(c.func, ast.Attribute) and c.func.attr == "children")
    R.check(rec, "R-KILL-TREE", f"{fp.short}: children(recursive=True)", fp.short, "children(recursive=True)",
            "only direct children are enumerated: deeper descendants survive", e.loc(fp, fp.node))
    # descendants (loop) killed before the parent
    loopk = [k for k in pkills if _in_loop(e, k.ast)]
    parentk = [k for k in pkills if not _in_loop(e, k.ast)]
    R.check(bool(loopk) and bool(parentk) and all(not gp.path_exists(pk, lambda n: n in loopk, use_exc=True) for pk in parentk),
            "R-KILL-TREE", f"{fp.short}: descendants are killed before the worker itself", fp.short, "descendants first",
            "the worker is killed before its descendants", e.loc(fp, fp.node))
    esc = gp.escape_path(parentk[0], lambda n: n in joins, use_exc=False) if parentk else True
    R.check(esc is None, "R-KILL-TREE", f"{fp.short}: the killed worker is joined (reaped) on every path", fp.short, "process.join()",
            "a killed worker is not reaped", e.loc(fp, fp.node))
    # pgrep variant
    fr = fr_role
    gr = e.cfg(fr)
    enum = [n for n in gr.nodes for c in calls_in(n) if isinstance(c.func, ast.Attribute) and c.func.attr == "check_output"]
    killers = {q for n in func_nodes(fr) if isinstance(n, ast.Call) for q in e.callees_of(n)
               if q != fr.qualname and any(isinstance(x, ast.Call) and norm(x.func) == "os.kill" for x in func_nodes(e.prog.funcs[q]))}
    own_kill = any(isinstance(x, ast.Call) and norm(x.func) == "os.kill" for x in func_nodes(fr))
    if own_kill and not killers:
        killers = {fr.qualname}     # the signal is sent by the recursive function itself (helper written in place)
    if not killers:
        # no callee sends a signal any more: fall back on the helper called with the function's own pid parameter
        killers = {q for n in func_nodes(fr) if isinstance(n, ast.Call) and n.args and isinstance(n.args[0], ast.Name) and n.args[0].id == fr.params[0]
                   for q in e.callees_of(n) if q != fr.qualname}
    if len(killers) != 1:
        raise AnalysisError(f"{fr.short}: the helper sending the kill signal is not unique: {sorted(killers)}")
    KILLQ = killers.pop()
    if KILLQ == fr.qualname:
        selfk = [n for n in gr.nodes for c in calls_in(n) if norm(c.func) == "os.kill"]
    else:
        selfk = [n for n in gr.nodes for c in calls_in(n) if e.callees_of(c) & {KILLQ}]
    recs = [n for n in gr.nodes for c in calls_in(n) if e.callees_of(c) & {fr.qualname}]
    R.check(bool(enum) and bool(selfk) and bool(recs) and all(any(gr.dominates(x, k) for x in enum) for k in selfk)
            and not any(gr.path_exists(k, lambda n: n in recs or n in enum) for k in selfk),
            "R-KILL-TREE", f"{fr.short}: children are listed and killed recursively before the process itself", fr.short,
            "pgrep / recursion before _kill(pid)",
            "the process is killed before its children were listed and killed: once the parent is dead its children are "
            "re-parented and invisible to pgrep -P", e.loc(fr, fr.node))
    fw = fw_role
    gw = e.cfg(fw)
    joins = [n for n in gw.nodes for c in calls_in(n) if isinstance(c.func, ast.Attribute) and c.func.attr == "join"]
    esc = gw.escape_path(gw.entry, lambda n: n in joins, use_exc=False)
    R.check(esc is None and bool(joins), "R-KILL-TREE", f"{fw.short}: the worker is joined on every path", fw.short, "process.join()",
            "a killed worker is not reaped in the pgrep variant", e.loc(fw, fw.node))
    kt = e.prog.func(KILL_TREE)
    cal = set()
    for n in func_nodes(kt):
        if isinstance(n, ast.Call):
            cal |= e.callees_of(n)
    R.check({fp.qualname, fw.qualname} <= cal, "R-KILL-TREE", "kill_process_tree dispatches to both variants", kt.short, "dispatch",
            "kill_process_tree no longer reaches both implementations", e.loc(kt, kt.node))
    # ---- polarity and totality of the two implementations (scenario obligations, see rules/scenario.py)
    from . import scenario as SC
    kg = e.cfg(kt)
    callsq = lambda f_, quals: (lambda n: any(e.callees_of(c) & set(quals) for c in calls_in(n)))
    ps = SC.name("psutil")
    up = SC.name(kt.params[1]) if len(kt.params) > 1 else None
    if up is None:
        raise AnalysisError("kill_process_tree: use_psutil parameter not found")
    SC.must(e, R, "R-KILL-TREE", kt, "psutil is importable and allowed", [(ps, "some"), (up, "T")], callsq(kt, [fp.qualname]), "uses the psutil implementation",
            "the preferred implementation is never used")
    SC.must(e, R, "R-KILL-TREE", kt, "psutil is not installed", [(ps, "none")], callsq(kt, [fw.qualname]), "falls back to the pgrep/taskkill implementation",
            "without psutil nothing is killed")
    SC.never(e, R, "R-KILL-TREE", kt, "psutil is not installed", [(ps, "none")], callsq(kt, [fp.qualname]), "the psutil implementation",
             "AttributeError on None: the workers of a forced shutdown / broken pool are never killed")
    # a process of the tree that is already gone must not abort the kill of the others
    for n in gp.nodes:
        for c in calls_in(n):
            if isinstance(c.func, ast.Attribute) and c.func.attr in ("kill", "children") and not (e.objs(fp, c.func.value) & a.process_objs):
                st = stmt_of(e, fp, c)
                trs = []
                p_ = e.prog.parent.get(id(st))
                ch = st
                while p_ is not None and p_ is not fp.node:
                    if isinstance(p_, ast.Try) and any(ch is b for b in p_.body):
                        trs.append(p_)
                    ch = p_
                    p_ = e.prog.parent.get(id(p_))
                hts = {("bare" if h.type is None else norm(h.type)) for t_ in trs[:1] for h in t_.handlers}
                okh = bool(hts & {"bare", "psutil.NoSuchProcess", "psutil.Error", "Exception", "BaseException"})
                # one try per kill: the try protecting a kill inside the loop must itself be inside the loop
                own = not _in_loop(e, c) or (bool(trs) and _in_loop(e, trs[0]))
                R.check(okh and own, "R-KILL-TREE", f"{fp.short}: `{norm(c.func)}` tolerates a process that is already gone, without abandoning the others", fp.short,
                        f"{norm(c)[:50]} / except {sorted(hts)}", f"`{norm(c)[:50]}` is protected by {sorted(hts) or 'no handler'}"
                        + ("" if own else " around the whole loop") + ": a descendant (or the worker) that exited in the meantime raises "
                        "NoSuchProcess, the remaining processes are not killed and the worker is joined alive", e.loc(fp, c))
    # _kill: the signal is sent to the pid it was given; only ESRCH is swallowed
    fk = e.prog.funcs[KILLQ]
    gk = e.cfg(fk)
    oskill = lambda n: any(norm(c.func) == "os.kill" and c.args and isinstance(c.args[0], ast.Name) and c.args[0].id == fk.params[0] for c in calls_in(n))
    esc = gk.escape_path(gk.entry, oskill, use_exc=False)
    R.check(esc is None and any(oskill(n) for n in gk.nodes), "R-KILL-TREE", f"{fk.short}: sends the kill signal to the given pid on every path", fk.short, "os.kill(pid, sig)",
            "the pgrep implementation lists the tree but never kills anything", e.loc(fk, fk.node))

    def esrch(is_esrch):
        def ev(x):
            if isinstance(x, ast.Compare) and len(x.ops) == 1 and isinstance(x.ops[0], (ast.Eq, ast.NotEq)):
                sides = [norm(x.left), norm(x.comparators[0])]
                if any(s_.endswith(".errno") for s_ in sides) and any(s_.endswith("ESRCH") for s_ in sides):
                    return is_esrch == isinstance(x.ops[0], ast.Eq)
            return None
        return ev
    def _handlers_around(g_, pred):
        """except nodes of the try statements whose body contains a call satisfying pred."""
        return [n for n in g_.nodes if n.kind == "except" and any(isinstance(x, ast.Call) and pred(x) for s_ in parent(e, n.ast).body for x in ast.walk(s_))]
    hk = _handlers_around(gk, lambda x: norm(x.func) == "os.kill")
    reraise = lambda n: n.kind == "stmt" and isinstance(n.ast, ast.Raise)
    R.check(bool(hk) and all(h.ast.type is not None and norm(h.ast.type) in ("OSError", "ProcessLookupError", "Exception", "BaseException") for h in hk), "R-KILL-TREE",
            f"{fk.short}: the handler around os.kill catches OSError (ESRCH is an OSError)", fk.short, f"except {[norm(h.ast.type) for h in hk]}",
            "a process that already exited raises ProcessLookupError out of the tree kill: the rest of the tree is not killed", e.loc(fk, fk.node))
    for h in hk:
        ok1 = SC.Facts([], [esrch(True)]).find(gk, h, reraise, use_exc=False) is None
        ok2 = SC.Facts([], [esrch(False)]).escape(gk, h, reraise, use_exc=False) is None and any(reraise(n) for n in gk.nodes)
        R.check(ok1, "R-KILL-TREE", f"{fk.short}: 'no such process' is not an error", fk.short, "errno == ESRCH", "a process that already exited aborts the kill of the rest of the tree",
                e.loc(fk, h.ast))
        R.check(ok2, "R-KILL-TREE", f"{fk.short}: any other error is raised (so that the caller falls back to killing the worker itself)", fk.short, "errno != ESRCH: raise",
                "a failed kill (EPERM ...) is silently ignored: the process survives and the caller believes the tree is dead", e.loc(fk, h.ast))
    # pgrep exits 1 when there are no children: not an error; anything else is
    def noch(is_one):
        def ev(x):
            if isinstance(x, ast.Compare) and len(x.ops) == 1 and isinstance(x.ops[0], (ast.Eq, ast.NotEq)):
                sides = [x.left, x.comparators[0]]
                if any(norm(s_).endswith(".returncode") for s_ in sides) and any(isinstance(s_, ast.Constant) and s_.value == 1 for s_ in sides):
                    return is_one == isinstance(x.ops[0], ast.Eq)
            return None
        return ev
    hr = _handlers_around(gr, lambda x: isinstance(x.func, ast.Attribute) and x.func.attr == "check_output")
    R.check(bool(hr) and all(h.ast.type is not None and norm(h.ast.type).split(".")[-1] in ("CalledProcessError", "SubprocessError", "Exception", "BaseException") for h in hr),
            "R-KILL-TREE", f"{fr.short}: the handler around pgrep catches CalledProcessError (exit status 1 = no children)", fr.short,
            f"except {[norm(h.ast.type) for h in hr]}", "pgrep's 'no children' exit status raises out of the tree kill for every leaf process", e.loc(fr, fr.node))
    for h in hr:
        ok1 = SC.Facts([], [noch(True)]).find(gr, h, reraise, use_exc=False) is None and \
            gr.find_path(h, lambda n: n in selfk, use_exc=False, edge_ok=SC.Facts([], [noch(True)]).edge_ok()) is not None
        ok2 = SC.Facts([], [noch(False)]).escape(gr, h, reraise, use_exc=False) is None and any(reraise(n) for n in gr.nodes)
        R.check(ok1, "R-KILL-TREE", f"{fr.short}: a childless process (pgrep exit status 1) is still killed", fr.short, "returncode == 1", "leaf processes of the tree are never killed",
                e.loc(fr, h.ast))
        R.check(ok2, "R-KILL-TREE", f"{fr.short}: a failing pgrep is reported to the caller", fr.short, "returncode != 1: raise",
                "when the children cannot be listed they are silently skipped", e.loc(fr, h.ast))
    # every listed child is visited
    fors = [n for n in func_nodes(fr) if isinstance(n, ast.For)]
    okf = any(isinstance(fo.iter, ast.Call) and isinstance(fo.iter.func, ast.Attribute) and fo.iter.func.attr in ("splitlines", "split") and
              any(isinstance(c, ast.Call) and e.callees_of(c) & {fr.qualname} for c in ast.walk(fo)) and
              not any(isinstance(x, (ast.Break, ast.Return)) for x in ast.walk(fo)) for fo in fors)
    R.check(okf, "R-KILL-TREE", f"{fr.short}: recurses into every listed child", fr.short, "for cpid in children: recurse", "only some children are killed", e.loc(fr, fr.node))
    # the fallback of the fallback: when listing/killing descendants fails, the worker itself is still killed
    hw = [n for n in gw.nodes if n.kind == "except"]
    pk = lambda n: any(isinstance(c.func, ast.Attribute) and c.func.attr in ("kill", "terminate") and c.func.value.id == fw.params[0] for c in calls_in(n)
                       if isinstance(c.func, ast.Attribute) and isinstance(c.func.value, ast.Name))
    R.check(bool(hw) and all((h.ast.type is None or norm(h.ast.type) in ("Exception", "BaseException")) and
                             gw.escape_path(h, pk, use_exc=False) is None and any(pk(n) for n in gw.nodes) for h in hw), "R-KILL-TREE",
            f"{fw.short}: if the descendants cannot be listed or killed, the worker itself is still killed (any Exception)", fw.short, "except Exception: process.kill()",
            "a failure of pgrep/taskkill leaves the worker alive and process.join() blocks forever", e.loc(fw, fw.node))
    arm = [n for n in gw.nodes for c in calls_in(n) if e.callees_of(c) & {fr.qualname}]
    R.check(bool(arm) and gw.escape_path(gw.entry, lambda n: n in arm, use_exc=False,
                                         edge_ok=lambda n, m, l: not (n.kind == "test" and static_truth(n.ast) is not None and (l == "T") != static_truth(n.ast))) is None,
            "R-KILL-TREE", f"{fw.short}: on this platform the recursive pgrep kill is used", fw.short, "_posix_recursive_kill(process.pid)",
            "the POSIX arm of the fallback no longer kills the tree", e.loc(fw, fw.node))
    R.floor("R-KILL-TREE", 20)


def _in_loop(e, node):
    p = e.prog.parent.get(id(node))
    while p is not None and not isinstance(p, (ast.FunctionDef, ast.Lambda)):
        if isinstance(p, (ast.For, ast.While)):
            return True
        p = e.prog.parent.get(id(p))
    return False


# ---------------------------------------------------------------------------
# R-WORKER-UNPICKLE
# ---------------------------------------------------------------------------

def r_worker_unpickle(e, R):
    """An exception out of call_queue.get other than Empty sends a remote
    traceback object and exits non-zero; the manager maps that type to broken."""
    a = e.anchors
    f = a.worker_main
    g = e.cfg(f)
    gets = [n for n in g.nodes for c in calls_in(n) if e.receiver_objs(f, c, ("get",)) & a.callq]
    if not gets:
        raise AnalysisError("worker: call_queue.get not found")
    getn = gets[0]
    handlers = [m for m, l in getn.succ if l == "exc" and m.kind == "except"]
    catchall = [h for h in handlers if h.ast.type is None or norm(h.ast.type) == "BaseException"]
    R.check(bool(catchall), "R-WORKER-UNPICKLE", "worker: a BaseException handler guards the task read", f.short, "except BaseException",
            "a failure to un-serialise a task is not caught in the worker (it would die silently or with a partial state)",
            e.loc(f, getn.ast))
    for h in catchall:
        puts = [n for n in g.nodes for c in calls_in(n) if e.receiver_objs(f, c, ("put",)) & a.resq
                and g.dominates(h, n) and c.args
                and any(o[0] == "obj" and o[2] in e.prog.classes for o in e.objs(f, c.args[0]))]
        exits = [n for n in g.nodes if n.tag == "noreturn" and g.dominates(h, n)]
        nonzero = [n for n in exits if n.ast.value.args and isinstance(n.ast.value.args[0], ast.Constant)
                   and n.ast.value.args[0].value not in (0, None)]
        R.check(bool(puts), "R-WORKER-UNPICKLE", "worker: sends a remote-traceback object to the parent", f.short, "result_queue.put(_RemoteTraceback(...))",
                "the worker no longer reports un-serialisation failures to the parent", e.loc(f, h.ast))
        R.check(bool(nonzero) and g.escape_path(h, lambda n: n in nonzero, use_exc=True, until_pred=lambda n: n is g.exit) is None,
                "R-WORKER-UNPICKLE", "worker: exits non-zero after an un-serialisation failure", f.short, "sys.exit(1)",
                "after failing to read a task the worker keeps running or exits with status 0", e.loc(f, h.ast))
        # the class sent is the one the manager's isinstance test maps to broken
        sent = set()
        for n in puts:
            for c in calls_in(n):
                if c.args:
                    sent |= {o[2] for o in e.objs(f, c.args[0]) if o[0] == "obj" and o[2] in e.prog.classes}
        wf = e.prog.funcs[next(iter({x.qualname for x, _ in a.wait_calls}))]
        tested = set()
        for n in func_nodes(wf):
            if isinstance(n, ast.Call) and isinstance(n.func, ast.Name) and n.func.id == "isinstance" and len(n.args) == 2:
                tested |= {x[1] for x in e.pt.ev(wf, n.args[1]) if x[0] == "class"}
        R.check(bool(sent) and sent <= tested, "R-WORKER-UNPICKLE", "manager: the type sent by the worker is the one mapped to BrokenProcessPool",
                wf.short, f"isinstance(result_item, {sorted(x.split(':')[1] for x in sent)})",
                "the manager does not recognise the worker's un-serialisation report", e.loc(wf, wf.node))
    R.floor("R-WORKER-UNPICKLE", 4)
