"""Result routing and at-most-once dispatch (C03).  R-ID, R-ONCE."""
import ast

from ..model import func_nodes, norm, AnalysisError
from ..cfg import calls_in, _walk_noscope
from .util import (none_test, effect_nodes, calls_method_of, recv_call, stmt_of, parent, cfg_nodes, attr_stores, nonempty_test)
from .liveness import resolve_pred, manager_only
from .timeouts import _item_name, _is_call_of_item

PE = "loky.process_executor"
ROLE_NAMES = ("fn", "args", "kwargs", "work_id", "result", "exception")


def _terminal(x):
    if isinstance(x, ast.Name):
        return x.id
    if isinstance(x, ast.Attribute):
        return x.attr
    return None


def ctor_fields(e, init):
    """{parameter: attribute} for `self.attr = param` stores of a constructor."""
    out = {}
    if init is None:
        return out
    selfn = init.params[0]
    for n in func_nodes(init):
        if isinstance(n, ast.Assign) and isinstance(n.value, ast.Name) and n.value.id in init.params:
            for t in n.targets:
                if isinstance(t, ast.Attribute) and isinstance(t.value, ast.Name) and t.value.id == selfn:
                    out[n.value.id] = t.attr
    return out


def bind_args(call, func, skip_self=True):
    """{parameter: argument expr} of a call to func (positional + keyword)."""
    params = func.params[1:] if skip_self else func.params
    out = {}
    for i, a_ in enumerate(call.args):
        if isinstance(a_, ast.Starred):
            break
        if i < len(params):
            out[params[i]] = a_
    for k in call.keywords:
        if k.arg is not None:
            out[k.arg] = k.value
    return out


def r_id(e, R):
    a = e.anchors
    sub = a.submit
    g = e.cfg(sub)
    held = e.held(sub)
    ins = [(n, x) for n in g.nodes if n.kind == "stmt" and n.ast is not None for x in _walk_noscope(n.ast)
           if isinstance(x, ast.Subscript) and isinstance(x.ctx, ast.Store) and e.objs(sub, x.value) & a.pending]
    puts = [(n, c) for n in g.nodes for c in calls_in(n) if e.receiver_objs(sub, c, ("put", "put_nowait")) & a.work_ids]
    if len(ins) != 1 or len(puts) != 1:
        raise AnalysisError("submit: expected one insertion into pending and one put on the work-id queue")
    key = ins[0][1].slice
    ok = norm(key) == norm(puts[0][1].args[0])
    R.check(ok, "R-ID", "submit: the pending key and the queued work id are the same term", sub.short,
            f"{norm(ins[0][1])} / {norm(puts[0][1])}", "the id stored in the pending table is not the id queued for dispatch", e.loc(sub, key))
    # publication order: the manager looks the item up as soon as it dequeues the id
    R.check(g.dominates(ins[0][0], puts[0][0]), "R-ID", "submit: the work item is in the pending table before its id is queued", sub.short,
            "pending[id] = w before work_ids.put(id)", "the id is queued before the item is registered: the manager can dequeue it first and "
            "fail on the lookup (KeyError kills the manager thread)", e.loc(sub, puts[0][1]))
    # (the id may be read once into a local under the lock: `work_id = self._queue_count`)
    key_alias = key.id if isinstance(key, ast.Name) and len(e.local_defs(sub, key.id)) == 1 and isinstance(e.local_defs(sub, key.id)[0], ast.Attribute) else None
    if key_alias is not None:
        key = e.local_defs(sub, key_alias)[0]
    cattr = key.attr if isinstance(key, ast.Attribute) else None
    if cattr is None:
        R.fail("R-ID", sub.short, norm(key), "work ids are not taken from an executor counter", e.loc(sub, key))
        return
    stores = attr_stores(e, (cattr,), a.executor_objs)
    incs = []
    for f, x, st in stores:
        plus_one = isinstance(st, ast.Assign) and isinstance(st.value, ast.BinOp) and isinstance(st.value.op, ast.Add) and isinstance(st.value.right, ast.Constant) \
            and st.value.right.value == 1 and key_alias is not None and isinstance(st.value.left, ast.Name) and st.value.left.id == key_alias and f is sub
        if isinstance(st, ast.AugAssign) or plus_one:
            okinc = plus_one or (isinstance(st.op, ast.Add) and isinstance(st.value, ast.Constant) and st.value.value == 1 and f is sub)
            R.check(okinc, "R-ID", f"{f.short}: the id counter only ever grows by one, in submit", f.short, norm(st),
                    "the work-id counter is modified other than by `+= 1` in submit: ids can repeat", e.loc(f, st))
            if f is sub:
                incs.append(st)
        else:
            okinit = isinstance(st.value, ast.Constant) and f.qualname in e.reach([a.init.qualname])
            R.check(okinit, "R-ID", f"{f.short}: the id counter is only initialised in the constructor", f.short, norm(st),
                    "the work-id counter is reset or overwritten: ids of live work items can be reused", e.loc(f, st))
    R.check(len(incs) == 1, "R-ID", "submit: exactly one increment of the id counter", sub.short, f"{cattr} += 1",
            "the counter is not incremented exactly once per submission", e.loc(sub, key))
    for st in incs:
        for n in g.nodes_of(st):
            R.check(e.token_in(held[n], a.shutdown_lock), "R-ID", "submit: the counter is incremented under the shutdown lock", sub.short, norm(st),
                    "two threads can obtain the same work id", e.loc(sub, st))
            R.check(g.dominates(ins[0][0], n) and g.dominates(puts[0][0], n), "R-ID", "submit: id used (pending key, queue) before the increment",
                    sub.short, norm(st), "the id stored/queued is computed after the increment on some path", e.loc(sub, st))
    # ... and the id is consumed together with its registration: nothing that can raise runs between the insert / put and the
    # increment (otherwise submit() can exit with the id registered and queued but not consumed, and the next submission reuses it)
    inc_nodes = [n for st in incs for n in g.nodes_of(st)]
    pub = {ins[0][0], puts[0][0]}
    between = g.find_path(ins[0][0], lambda n: n not in pub and n not in inc_nodes and bool(calls_in(n)), avoid=inc_nodes, use_exc=False) if inc_nodes else None
    R.check(between is None, "R-ID", "submit: the id is consumed (counter incremented) before anything else can fail", sub.short,
            "pending[id] = w; put(id); counter += 1", "a call that can raise runs between the registration of the work id and the increment of the counter: "
            "when it raises (a failed worker spawn, an interrupt), submit() exits with the id registered and queued but not consumed; the next submission "
            "reuses the id, overwrites the pending entry and a result is routed to the wrong future", e.loc(sub, incs[0]) if incs else None,
            g.fmt_path(between) if between else None)
    for n, _ in ins + puts:
        R.check(e.token_in(held[n], a.shutdown_lock), "R-ID", f"submit: {norm(n.ast)[:50]} under the shutdown lock", sub.short, norm(n.ast)[:80],
                "the pending insert / id put is outside the lock", e.loc(sub, n.ast))
    # ---- roles of the work item's attributes, from what submit passes to its constructor
    wi_init = e.prog.classes[a.workitem_cls].methods.get("__init__")
    if wi_init is None:
        raise AnalysisError("work item class has no constructor")
    wi_fields = ctor_fields(e, wi_init)
    src_role = {sub.params[1] if len(sub.params) > 1 else None: "fn", sub.vararg: "args", sub.kwarg: "kwargs"}
    wi_role = {}  # attribute of the work item -> role
    wi_calls = [c for c in func_nodes(sub) if isinstance(c, ast.Call) and any(v == ("class", a.workitem_cls) for v in e.pt.ev(sub, c.func))]
    if len(wi_calls) != 1:
        raise AnalysisError("submit: expected exactly one work item construction")
    for p_, arg in bind_args(wi_calls[0], wi_init).items():
        attr = wi_fields.get(p_)
        if attr is None:
            continue
        if isinstance(arg, ast.Name) and arg.id in src_role:
            wi_role[attr] = src_role[arg.id]
        elif set(e.pt.ev(sub, arg)) & a.future_objs:
            wi_role[attr] = "future"
    R.check(set(wi_role.values()) == {"fn", "args", "kwargs", "future"}, "R-ID",
            "submit: the work item holds the future and submit's own (fn, *args, **kwargs)", sub.short, norm(wi_calls[0]),
            f"the work item does not store submit's own callable/arguments one-to-one (got {wi_role})", e.loc(sub, wi_calls[0]))
    R.check(wi_role.get(a.future_attr) == "future", "R-ID", "work item: the future attribute holds the submission's future", sub.short, a.future_attr,
            "the work item's future is not the one returned by submit", e.loc(sub, wi_calls[0]))
    # the work item stored under the id is the one just built and the future returned is its future
    wv = ins[0][0].ast.value if isinstance(ins[0][0].ast, ast.Assign) else None
    okw = isinstance(wv, ast.Name) and any(d is wi_calls[0] for d in e.local_defs(sub, wv.id))
    R.check(okw, "R-ID", "submit: the item stored under the id is the one built from this submission", sub.short, norm(ins[0][0].ast),
            "the pending table entry is not this submission's work item", e.loc(sub, ins[0][0].ast))
    rets = [n for n in func_nodes(sub) if isinstance(n, ast.Return) and n.value is not None]
    fut_arg = [arg for p_, arg in bind_args(wi_calls[0], wi_init).items() if wi_fields.get(p_) == a.future_attr]
    okf = bool(rets) and bool(fut_arg) and all(norm(r.value) == norm(fut_arg[0]) for r in rets)
    R.check(okf, "R-ID", "submit: returns the future stored in the work item", sub.short, "return f", "submit returns a different future "
            "than the one the manager will resolve", e.loc(sub, rets[0]) if rets else None)
    # ---- dispatch in the manager
    disp = None
    for q in a.manager_funcs:
        f = e.prog.funcs[q]
        if manager_only(e, q) and any(isinstance(n, ast.Call) and e.receiver_objs(f, n, ("get", "get_nowait")) & a.work_ids for n in func_nodes(f)):
            disp = f
    if disp is None:
        raise AnalysisError("manager dispatch function (reads the work-id queue) not found")
    getc = [c for c in func_nodes(disp) if isinstance(c, ast.Call) and e.receiver_objs(disp, c, ("get", "get_nowait")) & a.work_ids][0]
    gst = stmt_of(e, disp, getc)
    idv = gst.targets[0].id if isinstance(gst, ast.Assign) and isinstance(gst.targets[0], ast.Name) else None
    if idv is None:
        raise AnalysisError("manager dispatch: dequeued id is not bound to a local")
    itemv = None
    for n in func_nodes(disp):
        if isinstance(n, ast.Assign) and isinstance(n.value, ast.Subscript) and e.objs(disp, n.value.value) & a.pending:
            ok = isinstance(n.value.slice, ast.Name) and n.value.slice.id == idv
            R.check(ok, "R-ID", f"{disp.short}: the work item is looked up under the dequeued id", disp.short, norm(n),
                    "the item dispatched is not the one registered under the dequeued id", e.loc(disp, n))
            itemv = n.targets[0].id if isinstance(n.targets[0], ast.Name) else None
    calls = [c for c in func_nodes(disp) if isinstance(c, ast.Call) and e.receiver_objs(disp, c, ("put", "put_nowait")) & a.callq]
    if len(calls) != 1:
        raise AnalysisError("manager dispatch: expected exactly one put on the call queue")
    ci = e.expand(disp, calls[0].args[0]) if calls[0].args else None
    ci_cls = {v[1] for v in e.pt.ev(disp, ci.func) if v[0] == "class"} if isinstance(ci, ast.Call) else set()
    if len(ci_cls) != 1:
        raise AnalysisError("manager dispatch: call item class not identified")
    ciq = ci_cls.pop()
    ci_init = e.prog.classes[ciq].methods["__init__"]
    ci_fields = ctor_fields(e, ci_init)
    ci_role = {}  # attribute of the call item -> role of what it receives
    for p_, arg in bind_args(ci, ci_init).items():
        attr = ci_fields.get(p_)
        if attr is None:
            continue
        if isinstance(arg, ast.Name) and arg.id == idv:
            ci_role[attr] = "id"
        elif isinstance(arg, ast.Attribute) and isinstance(arg.value, ast.Name) and arg.value.id == itemv:
            ci_role[attr] = wi_role.get(arg.attr, "?" + arg.attr)
        else:
            ci_role[attr] = "?" + norm(arg)[:20]
    R.check(sorted(ci_role.values()) == ["args", "fn", "id", "kwargs"], "R-ID",
            f"{disp.short}: the call item receives the dequeued id and fn/args/kwargs of the item looked up under it", disp.short, norm(ci)[:90],
            f"the call item is not built one-to-one from the dequeued id and its work item (got {ci_role})", e.loc(disp, ci))
    # ---- the call item computes fn(*args, **kwargs) of its own fields
    call_m = e.prog.classes[ciq].methods.get("__call__")
    okc = False
    if call_m is not None:
        for n in func_nodes(call_m):
            if isinstance(n, ast.Return) and isinstance(n.value, ast.Call):
                c = n.value
                if isinstance(c.func, ast.Attribute) and len(c.args) == 1 and isinstance(c.args[0], ast.Starred) and len(c.keywords) == 1 \
                        and c.keywords[0].arg is None:
                    used = (ci_role.get(_terminal(c.func)), ci_role.get(_terminal(c.args[0].value)), ci_role.get(_terminal(c.keywords[0].value)))
                    okc = used == ("fn", "args", "kwargs")
    R.check(okc, "R-ID", "call item: __call__ returns fn(*args, **kwargs) of the fields it was built with", ciq.split(":")[1],
            "return self.fn(*self.args, **self.kwargs)", "the call item does not compute fn(*args, **kwargs) of its own submission "
            "(callable/arguments swapped or dropped)", e.loc(call_m, call_m.node) if call_m else None)
    id_attr = [k for k, v in ci_role.items() if v == "id"]
    id_attr = id_attr[0] if id_attr else None
    # ---- worker: outcomes are reported under the id of the item that ran, value/error not swapped
    w = a.worker_main
    wg = e.cfg(w)
    gets = [n for n in wg.nodes for c in calls_in(n) if e.receiver_objs(w, c, ("get",)) & a.callq]
    item = _item_name(e, w, gets[0])
    calln = [n for n in wg.nodes if n.kind == "stmt" and any(_is_call_of_item(e, w, c, gets[0]) for c in calls_in(n))]
    rvar = calln[0].ast.targets[0].id if calln and isinstance(calln[0].ast, ast.Assign) and isinstance(calln[0].ast.targets[0], ast.Name) else None
    # result item class: what the worker puts on the result queue carrying the id
    ri_q = None
    for q in e.reach([w.qualname]):
        hf = e.prog.funcs[q]
        for c in [x for x in func_nodes(hf) if isinstance(x, ast.Call)]:
            fn_ = c.func
            if isinstance(fn_, ast.Name) and len(e.local_defs(hf, fn_.id)) == 1:
                fn_ = e.local_defs(hf, fn_.id)[0]              # `put = result_queue.put` bound once to a local
            if isinstance(fn_, ast.Attribute) and fn_.attr == "put" and c.args:
                cl = {o[2] for o in e.objs(hf, c.args[0]) if o[0] == "obj" and o[2] in e.prog.classes and "__init__" in e.prog.classes[o[2]].methods
                      and len(e.prog.classes[o[2]].methods["__init__"].params) >= 4}
                if cl:
                    ri_q = sorted(cl)[0]
    if ri_q is None:
        raise AnalysisError("result item class not identified")
    ri_init = e.prog.classes[ri_q].methods["__init__"]
    ri_fields = ctor_fields(e, ri_init)
    ri_role = {}  # attribute of the result item -> set of roles received

    def classify_worker_value(f, x, env):
        """role of an expression in worker context: id / value / error / none"""
        if isinstance(x, ast.Constant) and x.value is None:
            return "none"
        if isinstance(x, ast.Attribute) and isinstance(x.value, ast.Name) and x.value.id == item and f is w:
            return "id" if x.attr == id_attr else "?" + x.attr
        if isinstance(x, ast.Call) and x.args and isinstance(x.args[0], ast.Name) and any(
                isinstance(h, ast.ExceptHandler) and h.name == x.args[0].id for h in func_nodes(f)):
            return "error"          # the wrapper built in place around the caught exception
        if isinstance(x, ast.Name):
            if x.id in env:
                return env[x.id]
            if f is w and x.id == rvar:
                return "value"
            for d in e.local_defs(f, x.id):
                if isinstance(d, ast.Call) and d.args and isinstance(d.args[0], ast.Name):
                    hs = [h for h in func_nodes(f) if isinstance(h, ast.ExceptHandler) and h.name == d.args[0].id]
                    if hs:
                        return "error"
        return "?" + norm(x)[:20]

    def record(f, c, env):
        b = bind_args(c, ri_init)
        for p_, arg in b.items():
            attr = ri_fields.get(p_)
            if attr:
                ri_role.setdefault(attr, set()).add(classify_worker_value(f, arg, env))

    n_sends = 0
    for c in [x for x in func_nodes(w) if isinstance(x, ast.Call)]:
        if any(v == ("class", ri_q) for v in e.pt.ev(w, c.func)):
            record(w, c, {})
            n_sends += 1
        for q in e.callees_of(c):
            hf = e.prog.funcs[q]
            inner = [x for x in func_nodes(hf) if isinstance(x, ast.Call) and any(v == ("class", ri_q) for v in e.pt.ev(hf, x.func))]
            if inner:
                env = {}
                hb = bind_args(c, hf, skip_self=False)
                for p_ in hf.params:
                    env[p_] = classify_worker_value(w, hb[p_], {}) if p_ in hb else "none"
                for x in inner:
                    record(hf, x, env)
                n_sends += 1
    idattrs = [k for k, v in ri_role.items() if v == {"id"}]
    valattrs = [k for k, v in ri_role.items() if "value" in v]
    errattrs = [k for k, v in ri_role.items() if "error" in v]
    R.check(len(idattrs) == 1, "R-ID", "worker: every outcome is reported under the id of the item that ran", w.short, f"roles {ri_role}",
            f"an outcome is reported under something else than the running item's id ({ri_role})", e.loc(w, w.node))
    R.check(len(valattrs) == 1 and len(errattrs) == 1 and valattrs != errattrs and ri_role[valattrs[0]] <= {"value", "none"}
            and ri_role[errattrs[0]] <= {"error", "none"}, "R-ID", "worker: return values and exceptions travel in distinct fields, never swapped",
            w.short, f"roles {ri_role}", f"value and exception fields of the result item are mixed ({ri_role})", e.loc(w, w.node))
    R.check(n_sends >= 2, "R-ID", "worker: both outcomes (value / exception) are sent", w.short, "sends", "an outcome kind is never sent", e.loc(w, w.node))
    # ---- manager: pops under the id field and resolves with the matching field of the same result item
    res = resolve_pred(e)
    found = False
    for q in a.manager_funcs:
        f = e.prog.funcs[q]
        if not manager_only(e, q):
            continue
        for c in [x for x in func_nodes(f) if isinstance(x, ast.Call)]:
            if e.receiver_objs(f, c, ("pop",)) & a.pending and c.args and isinstance(c.args[0], ast.Attribute) and isinstance(c.args[0].value, ast.Name):
                found = True
                riv = c.args[0].value.id
                R.check(idattrs and c.args[0].attr == idattrs[0], "R-ID", f"{f.short}: the pending entry is popped under the result's id field", f.short,
                        norm(c), "the manager looks the future up under a field that is not the work id", e.loc(f, c))
                st = stmt_of(e, f, c)
                wv_ = st.targets[0].id if isinstance(st, ast.Assign) and isinstance(st.targets[0], ast.Name) else None
                g2 = e.cfg(f)
                for r in [x for x in func_nodes(f) if isinstance(x, ast.Call) and res(f, x)]:
                    same_item = isinstance(r.func.value, ast.Attribute) and isinstance(r.func.value.value, ast.Name) and r.func.value.value.id == wv_
                    arg = r.args[0] if r.args else None
                    want = valattrs if r.func.attr == "set_result" else errattrs
                    okr = same_item and isinstance(arg, ast.Attribute) and want and arg.attr == want[0] and isinstance(arg.value, ast.Name) and arg.value.id == riv
                    R.check(bool(okr), "R-ID", f"{f.short}: {r.func.attr} gets the {'value' if r.func.attr == 'set_result' else 'error'} field of the result "
                            "whose id was used for the lookup", f.short, norm(r), "a future is resolved with a field of another result, or with the wrong field",
                            e.loc(f, r))
                    if r.func.attr == "set_result":
                        okb = False
                        for n in cfg_nodes(e, f, r):
                            for t in g2.nodes:
                                if t.kind != "test":
                                    continue
                                x, flip = (t.ast.operand, True) if isinstance(t.ast, ast.UnaryOp) and isinstance(t.ast.op, ast.Not) else (t.ast, False)
                                nt = none_test(x)
                                if nt and isinstance(nt[0], ast.Attribute) and errattrs and nt[0].attr == errattrs[0]:
                                    none_lab = "F" if (nt[1] == "T") != flip else "T"
                                    if g2.on_branch(n, t, none_lab):
                                        okb = True
                        R.check(okb, "R-ID", f"{f.short}: set_result only when the result item carries no exception", f.short, norm(r),
                                "a failed task can be resolved with a value", e.loc(f, r))
    R.check(found, "R-ID", "manager: results are routed by popping the pending table", "manager", "pending.pop(result.work_id)",
            "the manager no longer routes results through the pending table", None)
    R.floor("R-ID", 20)


def r_once(e, R):
    a = e.anchors
    # every put of a call item (non-sentinel) on the call queue
    puts = []
    for f, c in e.all_calls():
        if e.receiver_objs(f, c, ("put", "put_nowait")) & a.callq and c.args and not (isinstance(c.args[0], ast.Constant) and c.args[0].value is None):
            puts.append((f, c))
    R.check(len(puts) == 1, "R-ONCE", "exactly one site puts call items on the call queue", "", "; ".join(f"{f.short}: {norm(c)[:40]}" for f, c in puts),
            "several sites dispatch call items: a task can be dispatched more than once", None)
    for f, c in puts:
        g = e.cfg(f)
        R.check(manager_only(e, f.qualname), "R-ONCE", f"{f.short}: dispatch happens on the manager thread only", f.short, norm(c)[:60],
                "call items are dispatched outside the manager thread", e.loc(f, c))
        ok = False
        for n in cfg_nodes(e, f, c):
            for t in g.nodes:
                if t.kind == "test" and any(isinstance(x.func, ast.Attribute) and x.func.attr == "set_running_or_notify_cancel" for x in calls_in(t)):
                    if g.on_branch(n, t, "T"):
                        ok = True
        R.check(ok, "R-ONCE", f"{f.short}: dispatch only if set_running_or_notify_cancel() returned True", f.short, norm(c)[:60],
                "a cancelled future's task can be dispatched (cancel() returned True but the body runs)", e.loc(f, c))
        # a cancelled item is removed from the pending table (otherwise the table never empties and the manager never exits)
        for t in g.nodes:
            if t.kind == "test" and any(isinstance(x.func, ast.Attribute) and x.func.attr == "set_running_or_notify_cancel" for x in calls_in(t)):
                rem = [m for m in g.nodes if m.kind == "stmt" and ((isinstance(m.ast, ast.Delete) and any(
                    isinstance(tt, ast.Subscript) and e.objs(f, tt.value) & a.pending for tt in m.ast.targets)) or any(
                    e.receiver_objs(f, x, ("pop",)) & a.pending for x in calls_in(m))) and g.on_branch(m, t, "F")]
                gets_ = {y for x in func_nodes(f) if isinstance(x, ast.Call) and e.receiver_objs(f, x, ("get", "get_nowait")) & a.work_ids for y in cfg_nodes(e, f, x)}
                esc = g.find_path(t, lambda m: m is g.exit or m in gets_, avoid=rem, use_exc=False, start_labels=["F"])
                R.check(bool(rem) and esc is None, "R-ONCE", f"{f.short}: a cancelled item is removed from the pending table", f.short,
                        "del pending[work_id] on the cancelled branch", "a cancelled work item stays in the pending table forever: the table never "
                        "empties, so shutdown(wait=True) and interpreter exit hang waiting for the manager", e.loc(f, t.ast))
        # the id comes from a consuming get
        gets = [x for x in func_nodes(f) if isinstance(x, ast.Call) and e.receiver_objs(f, x, ("get", "get_nowait")) & a.work_ids]
        R.check(bool(gets) and all(any(g.dominates(gn, n) for x in gets for gn in cfg_nodes(e, f, x)) for n in cfg_nodes(e, f, c)),
                "R-ONCE", f"{f.short}: each dispatch consumes one id from the work-id queue", f.short, norm(c)[:60],
                "dispatch is not fed by a consuming get of the work-id queue", e.loc(f, c))
        # one dispatch per dequeued id: no path from the put back to itself without a new get
        for n in cfg_nodes(e, f, c):
            gn = {y for x in gets for y in cfg_nodes(e, f, x)}
            again = g.find_path(n, lambda m: m is n, avoid=gn, use_exc=False)
            R.check(again is None, "R-ONCE", f"{f.short}: at most one dispatch per dequeued id", f.short, norm(c)[:60],
                    "the same id can be dispatched twice without being dequeued again", e.loc(f, c))
    # only submit feeds the work-id queue
    for f, c, recvs in e.method_calls(("put", "put_nowait"), lambda o: o in a.work_ids):
        R.check(f is a.submit, "R-ONCE", f"{f.short}: only submit queues work ids", f.short, norm(c), "a work id is re-queued outside submit "
                "(e.g. on respawn): its task body can run twice", e.loc(f, c))
    # the worker runs each item once: no path from the task call back to itself without a new read
    w = a.worker_main
    wg = e.cfg(w)
    gets = [n for n in wg.nodes for c in calls_in(n) if e.receiver_objs(w, c, ("get",)) & a.callq]
    calln = [n for n in wg.nodes if n.kind == "stmt" and any(_is_call_of_item(e, w, c, gets[0]) for c in calls_in(n))]
    R.check(len(calln) == 1, "R-ONCE", "worker: exactly one site runs the task", w.short, "call_item()", "the task body is invoked at several sites", e.loc(w, w.node))
    for n in calln:
        again = wg.find_path(n, lambda m: m in calln, avoid=gets, use_exc=True)
        R.check(again is None, "R-ONCE", "worker: a task is never re-run without reading a new item", w.short, norm(n.ast),
                "retry loop around the task call: a task body can execute more than once", e.loc(w, n.ast))
    # the call queue get is consuming and blocking (one item per read)
    R.floor("R-ONCE", 8)


# ---------------------------------------------------------------------------
# R-MAP-SHAPE (C03): the chunking pipeline of map() preserves multiplicity and order
# ---------------------------------------------------------------------------

def _single(xs, what):
    if len(xs) != 1:
        raise AnalysisError(f"map pipeline: {what} not recognised ({len(xs)} candidates)")
    return xs[0]


def r_map_shape(e, R):
    """map(fn, *its, chunksize=k) == builtin map for every k and every length rests on three small pure functions.  Their
    *shape* decides multiplicity and order; the idioms accepted for each are enumerated, anything else is refused
    (ANALYSIS-ERROR) rather than guessed, a recognised idiom that loses / duplicates / reorders elements is a violation."""
    a = e.anchors
    cls = e.prog.classes[a.executor_cls]
    mp_ = cls.methods.get("map")
    if mp_ is None:
        raise AnalysisError("executor has no map() override")
    # the pipeline: super().map(partial(<chunk runner>, fn), <chunker>(chunksize, *iterables), timeout=...) -> <chain>(results)
    sup = _single([c for c in func_nodes(mp_) if isinstance(c, ast.Call) and isinstance(c.func, ast.Attribute) and c.func.attr == "map"
                   and isinstance(c.func.value, ast.Call) and norm(c.func.value.func) == "super"], "super().map call")
    if len(sup.args) != 2:
        raise AnalysisError("map pipeline: super().map is not called with (function, one iterable of chunks)")
    part, chunks = sup.args
    okp = isinstance(part, ast.Call) and norm(part.func).endswith("partial") and len(part.args) == 2 and isinstance(part.args[1], ast.Name) and part.args[1].id == mp_.params[1]
    runner = {v[1] for v in e.pt.ev(mp_, part.args[0]) if v[0] == "func"} if okp else set()
    R.check(okp and len(runner) == 1, "R-MAP-SHAPE", "map: every chunk is run by partial(<chunk runner>, fn) with the caller's fn", mp_.short, norm(part)[:60],
            "the chunks are not processed with the function passed to map()", e.loc(mp_, part))
    chunker = {q for q in e.callees_of(chunks)} if isinstance(chunks, ast.Call) else set()
    okc = isinstance(chunks, ast.Call) and len(chunker) == 1 and len(chunks.args) == 2 and isinstance(chunks.args[1], ast.Starred) and \
        isinstance(chunks.args[1].value, ast.Name) and chunks.args[1].value.id == (mp_.vararg or "")
    R.check(okc, "R-MAP-SHAPE", "map: the chunks are cut from all the caller's iterables", mp_.short, norm(chunks)[:60], "map() ignores some of its iterables", e.loc(mp_, chunks))
    tmo = [k for k in sup.keywords if k.arg == "timeout"]
    R.check(len(tmo) == 1, "R-MAP-SHAPE", "map: the timeout is forwarded", mp_.short, norm(sup)[:60], "map(timeout=...) is ignored", e.loc(mp_, sup))
    rets = [r for r in func_nodes(mp_) if isinstance(r, ast.Return)]
    okr = len(rets) == 1 and isinstance(rets[0].value, ast.Call) and len(rets[0].value.args) == 1 and len(e.callees_of(rets[0].value)) == 1
    chain = next(iter(e.callees_of(rets[0].value))) if okr else None
    if okr:
        arg = rets[0].value.args[0]
        okr = isinstance(arg, ast.Name) and any(isinstance(d, ast.Call) and d is sup for d in e.local_defs(mp_, arg.id))
    R.check(okr, "R-MAP-SHAPE", "map: returns the flattened results of the chunk calls", mp_.short, norm(rets[0].value)[:60] if rets else "", "map() does not return the chained chunk results",
            e.loc(mp_, mp_.node))
    if not (okp and len(runner) == 1 and okc and chain):
        return
    # --- the iterables are consumed through ONE zip iterator (builtin map draws one item from each iterable per call);
    # slicing each iterable on its own draws chunksize items from the first, then from the next: iterables that share state
    # (the same iterator passed twice, generators over one source) are paired differently from builtin map
    cf0 = e.prog.funcs[next(iter(chunker))]
    zips0 = [n for n in func_nodes(cf0) if isinstance(n, ast.Call) and norm(n.func) == "zip" and len(n.args) == 1 and isinstance(n.args[0], ast.Starred)
             and isinstance(n.args[0].value, ast.Name) and n.args[0].value.id == (cf0.vararg or "")]
    if not zips0:
        isl0 = [c for c in func_nodes(cf0) if isinstance(c, ast.Call) and norm(c.func).endswith("islice")]
        per_iter = [c for c in isl0 if c.args and isinstance(c.args[0], ast.Name) and c.args[0].id != (cf0.vararg or "")]
        if per_iter:
            R.fail("R-MAP-SHAPE", cf0.short, norm(per_iter[0])[:70], "the chunker slices each iterable separately instead of slicing one zip(*iterables) iterator: "
                   "items are drawn chunksize at a time from each iterable in turn, not one from each per call as builtin map does; iterables that share "
                   "state are paired differently (and the result depends on chunksize)", e.loc(cf0, per_iter[0]))
            return
    # --- chunk runner: one fn(*args) per element of the chunk, in order, nothing filtered
    rf = e.prog.funcs[next(iter(runner))]
    fnp, chp = rf.params[0], rf.params[1]
    rr = _single([r for r in func_nodes(rf) if isinstance(r, ast.Return)], "return of the chunk runner")
    v = rr.value
    if isinstance(v, ast.ListComp) and len(v.generators) == 1:
        gen = v.generators[0]
        ok = isinstance(gen.iter, ast.Name) and gen.iter.id == chp and not gen.ifs and isinstance(gen.target, ast.Name) and isinstance(v.elt, ast.Call) \
            and isinstance(v.elt.func, ast.Name) and v.elt.func.id == fnp and len(v.elt.args) == 1 and isinstance(v.elt.args[0], ast.Starred) \
            and isinstance(v.elt.args[0].value, ast.Name) and v.elt.args[0].value.id == gen.target.id and not v.elt.keywords
        R.check(ok, "R-MAP-SHAPE", f"{rf.short}: [fn(*args) for args in chunk] -- one call per element, in order, none filtered", rf.short, norm(v)[:70],
                "the chunk runner skips, reorders or mis-applies elements of its chunk: map() returns fewer / other results than builtin map", e.loc(rf, v))
    elif isinstance(v, ast.Call) and norm(v.func) == "list" and len(v.args) == 1 and isinstance(v.args[0], ast.Call) and norm(v.args[0].func).endswith("starmap"):
        sm = v.args[0]
        ok = len(sm.args) == 2 and isinstance(sm.args[0], ast.Name) and sm.args[0].id == fnp and isinstance(sm.args[1], ast.Name) and sm.args[1].id == chp
        R.check(ok, "R-MAP-SHAPE", f"{rf.short}: list(starmap(fn, chunk))", rf.short, norm(v)[:70], "the chunk runner does not apply fn to every element of its chunk", e.loc(rf, v))
    else:
        raise AnalysisError(f"map pipeline: the chunk runner returns `{norm(v)[:60]}`, a shape this rule does not know")
    # --- chunker: consecutive islices of ONE zip iterator, stop at the first empty chunk, yield the chunk itself
    cf = e.prog.funcs[next(iter(chunker))]
    ksz = cf.params[0]
    zips = [n for n in func_nodes(cf) if isinstance(n, ast.Assign) and isinstance(n.value, ast.Call) and norm(n.value.func) == "zip" and len(n.value.args) == 1
            and isinstance(n.value.args[0], ast.Starred) and isinstance(n.value.args[0].value, ast.Name) and n.value.args[0].value.id == (cf.vararg or "")]
    if len(zips) != 1 or not isinstance(zips[0].targets[0], ast.Name):
        raise AnalysisError("map pipeline: the chunker does not start with `it = zip(*iterables)`")
    itv = zips[0].targets[0].id
    g = e.cfg(cf)
    loops = [n for n in func_nodes(cf) if isinstance(n, ast.While)]
    # the two-argument iter idiom: `for chunk in iter(lambda: tuple(islice(it, chunksize)), ()): yield chunk` -- consecutive cuts of the one
    # iterator until the first empty one, each yielded unchanged
    fors = [n for n in func_nodes(cf) if isinstance(n, ast.For)]
    def _callable_body(x):
        """the expression a zero-argument callable returns: a lambda, or a nested function whose body is one return"""
        if isinstance(x, ast.Lambda) and not x.args.args:
            return x.body
        if isinstance(x, ast.Name):
            defs_ = [n for n in ast.walk(cf.node) if isinstance(n, ast.FunctionDef) and n is not cf.node and n.name == x.id]
            if len(defs_) == 1 and not defs_[0].args.args:
                b_ = [s_ for s_ in defs_[0].body if not (isinstance(s_, ast.Expr) and isinstance(s_.value, ast.Constant))]
                if len(b_) == 1 and isinstance(b_[0], ast.Return):
                    return b_[0].value
        return None
    if not loops and len(fors) == 1 and isinstance(fors[0].iter, ast.Call) and norm(fors[0].iter.func) == "iter" and len(fors[0].iter.args) == 2 \
            and _callable_body(fors[0].iter.args[0]) is not None and isinstance(fors[0].iter.args[1], ast.Tuple) and not fors[0].iter.args[1].elts:
        lb = _callable_body(fors[0].iter.args[0])
        isl_ = lb.args[0] if isinstance(lb, ast.Call) and norm(lb.func) == "tuple" and len(lb.args) == 1 else None
        okcut = isinstance(isl_, ast.Call) and norm(isl_.func).endswith("islice") and len(isl_.args) == 2 and isinstance(isl_.args[0], ast.Name) and isl_.args[0].id == itv \
            and isinstance(isl_.args[1], ast.Name) and isl_.args[1].id == ksz
        oky = isinstance(fors[0].target, ast.Name) and len(fors[0].body) == 1 and isinstance(fors[0].body[0], ast.Expr) and isinstance(fors[0].body[0].value, ast.Yield) \
            and isinstance(fors[0].body[0].value.value, ast.Name) and fors[0].body[0].value.value.id == fors[0].target.id and not fors[0].orelse
        if not (okcut and oky) or any(zips[0] is x for x in ast.walk(fors[0])):
            raise AnalysisError("map pipeline: the chunker uses the two-argument iter() idiom in a shape this rule does not know")
        R.ok("R-MAP-SHAPE", f"{cf.short}: ONE zip iterator is created, outside the loop (two-argument iter idiom)", e.loc(cf, zips[0]))
        R.ok("R-MAP-SHAPE", f"{cf.short}: each chunk is tuple(islice(it, chunksize)) of the shared iterator (the callable of iter())", e.loc(cf, fors[0]))
        R.ok("R-MAP-SHAPE", f"{cf.short}: yields every cut chunk, unchanged (for chunk in iter(...): yield chunk)", e.loc(cf, fors[0]))
        R.ok("R-MAP-SHAPE", f"{cf.short}: a non-empty chunk is always yielded; the first empty one (the sentinel `()`) ends the generator", e.loc(cf, fors[0]))
        loops = None
    if loops is not None and len(loops) != 1:
        raise AnalysisError("map pipeline: the loop of the chunker is not recognised")
    if loops is not None:
        _chunker_while(e, R, cf, g, zips, loops, itv, ksz)
    _chain_shape(e, R, chain)


def _chunker_while(e, R, cf, g, zips, loops, itv, ksz):
    R.check(len(loops) == 1 and not any(zips[0] is x for x in ast.walk(loops[0])), "R-MAP-SHAPE", f"{cf.short}: ONE zip iterator is created, outside the loop", cf.short, norm(zips[0]),
            "the iterables are re-zipped per chunk: every chunk restarts from the first element", e.loc(cf, zips[0]))
    cuts = [n for n in func_nodes(cf) if isinstance(n, ast.Assign) and isinstance(n.targets[0], ast.Name) and any(isinstance(c, ast.Call) and norm(c.func).endswith("islice")
                                                                                                                 for c in ast.walk(n.value))]
    cut = _single(cuts, "islice cut of the chunker")
    isl = [c for c in ast.walk(cut.value) if isinstance(c, ast.Call) and norm(c.func).endswith("islice")][0]
    okcut = len(isl.args) == 2 and isinstance(isl.args[0], ast.Name) and isl.args[0].id == itv and isinstance(isl.args[1], ast.Name) and isl.args[1].id == ksz \
        and isinstance(cut.value, ast.Call) and norm(cut.value.func) in ("tuple", "list") and cut.value.args[0] is isl
    R.check(okcut, "R-MAP-SHAPE", f"{cf.short}: each chunk is tuple(islice(it, chunksize)) of the shared iterator", cf.short, norm(cut.value)[:70],
            "chunks are not consecutive slices of chunksize elements of the zipped iterables (elements skipped, chunk size off by one, ...)", e.loc(cf, cut))
    cv = cut.targets[0].id
    ylds = [n for n in func_nodes(cf) if isinstance(n, ast.Yield)]
    R.check(len(ylds) == 1 and isinstance(ylds[0].value, ast.Name) and ylds[0].value.id == cv, "R-MAP-SHAPE", f"{cf.short}: yields every cut chunk, unchanged", cf.short,
            norm(ylds[0])[:50] if ylds else "", "a chunk is dropped or altered between the cut and the yield", e.loc(cf, cf.node))
    # an empty chunk (and only an empty chunk) ends the generator; a non-empty one is always yielded
    from . import scenario as SC
    yn = lambda n: any(isinstance(x, ast.Yield) for x in ast.walk(n.ast)) if n.ast is not None and n.kind == "stmt" else False
    cutn = [n for n in g.nodes if n.kind == "stmt" and n.ast is cut]
    rtn = lambda n: n.kind == "stmt" and isinstance(n.ast, ast.Return)
    for cn in cutn:
        esc = SC.Facts([(SC.name(cv), "T")]).find(g, cn, lambda n: n is g.exit or rtn(n) or (n in cutn), avoid=yn, use_exc=False)
        FF = SC.Facts([(SC.name(cv), "F")])
        bad = FF.find(g, cn, yn, use_exc=False, avoid=lambda n: n in cutn)
        loopback = FF.find(g, cn, lambda n: n in cutn, use_exc=False)
        R.check(esc is None and bad is None and loopback is None, "R-MAP-SHAPE", f"{cf.short}: a non-empty chunk is always yielded; the first empty one ends the generator", cf.short,
                f"if not {cv}: return; yield {cv}", "the chunker stops before the iterables are exhausted (results missing), yields empty chunks forever, or never terminates",
                e.loc(cf, cut))


def _chain_shape(e, R, chain):
    # --- chain: every element of every list, in order
    ch = e.prog.funcs[chain]
    outer = _single([n for n in func_nodes(ch) if isinstance(n, ast.For) and isinstance(n.iter, ast.Name) and n.iter.id == ch.params[0]], "outer loop of the chain")
    ev_ = outer.target.id if isinstance(outer.target, ast.Name) else None
    body_calls = [c for s_ in outer.body for c in ast.walk(s_) if isinstance(c, ast.Call) and isinstance(c.func, ast.Attribute) and isinstance(c.func.value, ast.Name)
                  and c.func.value.id == ev_]
    revs = [c for c in body_calls if c.func.attr == "reverse"]
    pops = [c for c in body_calls if c.func.attr == "pop"]
    yfrom = [n for s_ in outer.body for n in ast.walk(s_) if isinstance(n, ast.YieldFrom) and isinstance(n.value, ast.Name) and n.value.id == ev_]
    inner_for = [n for s_ in outer.body for n in ast.walk(s_) if isinstance(n, ast.For) and isinstance(n.iter, ast.Name) and n.iter.id == ev_]
    if pops:
        front = all(len(c.args) == 1 and isinstance(c.args[0], ast.Constant) and c.args[0].value == 0 for c in pops)
        back = all(not c.args for c in pops)
        if not (front or back):
            raise AnalysisError("map pipeline: the chain pops from an index this rule does not know")
        whiles = [n for s_ in outer.body for n in ast.walk(s_) if isinstance(n, ast.While)]
        wt = nonempty_test(whiles[0].test) if len(whiles) == 1 else None
        drained = wt is not None and wt[1] == "T" and isinstance(wt[0], ast.Name) and wt[0].id == ev_ and all(any(c is x for x in ast.walk(whiles[0])) for c in pops) \
            and all(isinstance(e.prog.parent.get(id(c)), ast.Yield) for c in pops)
        ordered = (front and not revs) or (back and len(revs) == 1 and not any(revs[0] is x for w_ in whiles for x in ast.walk(w_)))
        R.check(drained and ordered, "R-MAP-SHAPE", f"{ch.short}: yields every element of every chunk result, in order", ch.short,
                ("reverse(); " if revs else "") + f"while {ev_}: yield {ev_}.pop({'0' if front else ''})",
                "the results of a chunk come back reversed / incomplete: map() with chunksize > 1 differs from builtin map", e.loc(ch, outer))
    elif yfrom and not revs:
        R.ok("R-MAP-SHAPE", f"{ch.short}: yield from each chunk result", e.loc(ch, outer))
    elif inner_for and not revs:
        ok = all(any(isinstance(y, ast.Yield) and isinstance(y.value, ast.Name) and isinstance(f_.target, ast.Name) and y.value.id == f_.target.id for y in ast.walk(f_))
                 and not any(isinstance(x, (ast.Break, ast.Continue, ast.If)) for x in ast.walk(f_)) for f_ in inner_for)
        R.check(ok, "R-MAP-SHAPE", f"{ch.short}: yields every element of every chunk result, in order", ch.short, "for x in element: yield x", "elements are skipped", e.loc(ch, outer))
    else:
        raise AnalysisError("map pipeline: the chain function has a shape this rule does not know")
    R.check(not any(isinstance(x, (ast.Break, ast.Return)) for s_ in outer.body for x in ast.walk(s_)), "R-MAP-SHAPE", f"{ch.short}: no chunk result is skipped", ch.short,
            "no break/return in the outer loop", "the chain stops early", e.loc(ch, outer))
    R.floor("R-MAP-SHAPE", 9)
