"""Forced shutdown (C06), the reusable singleton (C09) and resize (C10).

R-KILL-PATH, R-SINGLETON, R-RESIZE.
"""
import ast

from ..model import func_nodes, norm, AnalysisError
from ..cfg import calls_in, _walk_noscope
from .. import guards
from .util import (none_test, node_has_effect, effect_nodes, calls_method_of, recv_call, stmt_of, parent,
                   cfg_nodes, inline_locals)
from .liveness import flag_writers, resolve_pred, manager_only, spawn_pred, wake_pred
from .broken import kill_pred, kill_workers_func, _order
from .shutdown import stop_workers_func

PE = "loky.process_executor"
REX = "loky.reusable_executor"
FACTORY = f"{REX}:_ReusablePoolExecutor.get_reusable_executor"
PUBLIC = f"{REX}:get_reusable_executor"


def factory(e):
    """The classmethod behind the public get_reusable_executor (the function
    the public entry point forwards to)."""
    pub = e.prog.func(PUBLIC)
    qs = set()
    for n in func_nodes(pub):
        if isinstance(n, ast.Call):
            qs |= {q for q in e.callees_of(n) if q.startswith(REX)}
    qs.discard(PUBLIC)
    if len(qs) != 1:
        raise AnalysisError(f"public get_reusable_executor does not forward to a single factory: {sorted(qs)}")
    return e.prog.funcs[qs.pop()]


# ---------------------------------------------------------------------------
# R-KILL-PATH (C06)
# ---------------------------------------------------------------------------

def r_kill_path(e, R):
    a = e.anchors
    fw = flag_writers(e)
    res = resolve_pred(e)
    kill = kill_pred(e)
    # (1) parameter flow kill_workers: factory -> shutdown -> flag writer -> flag
    fac = factory(e)
    sd = a.shutdown
    sd_calls = [c for c in func_nodes(fac) if isinstance(c, ast.Call) and e.callees_of(c) & {sd.qualname}]
    R.check(bool(sd_calls), "R-KILL-PATH", f"{fac.short}: shuts the previous instance down", fac.short, "executor.shutdown(...)",
            "the factory no longer shuts the previous executor down", e.loc(fac, fac.node))
    kwp = sd.params[2] if len(sd.params) > 2 else None
    for c in sd_calls:
        b = {k.arg: k.value for k in c.keywords}
        for i, x in enumerate(c.args):
            if i + 1 < len(sd.params):
                b[sd.params[i + 1]] = x
        ok = kwp in b and isinstance(b[kwp], ast.Name) and b[kwp].id in fac.params
        R.check(ok, "R-KILL-PATH", f"{fac.short}: forwards its kill_workers argument to shutdown", fac.short, norm(c),
                "get_reusable_executor(kill_workers=True) does not reach shutdown(kill_workers=True): a stuck pool is waited for instead of killed",
                e.loc(fac, c))
        if ok:
            # ... the caller's value, not one the factory has overwritten on the way
            rebinds = [n for n in func_nodes(fac) if isinstance(n, ast.Name) and n.id == b[kwp].id and isinstance(n.ctx, (ast.Store, ast.Del))]
            R.check(not rebinds, "R-KILL-PATH", f"{fac.short}: the kill_workers argument reaches shutdown as the caller gave it", fac.short,
                    f"{b[kwp].id} rebound: {[norm(stmt_of(e, fac, n))[:40] for n in rebinds]}" if rebinds else b[kwp].id,
                    f"the factory overwrites its `{b[kwp].id}` argument before handing it to shutdown(): get_reusable_executor(kill_workers=True) on an instance that "
                    "is already flagged shut down (shutdown(wait=False) with tasks still running) or that the factory considers not worth killing waits for every "
                    "running and queued task instead of killing the workers and failing the futures", e.loc(fac, rebinds[0]) if rebinds else None)
    wr = [q for q, attrs in fw.items() if "kill_workers" in attrs]
    if not wr:
        R.fail("R-KILL-PATH", "flags", "kill_workers", "no flag writer stores kill_workers", None)
        return
    calls = [c for c in func_nodes(sd) if isinstance(c, ast.Call) and e.callees_of(c) & set(wr)]
    ok = any(any(isinstance(x, ast.Name) and x.id == kwp for x in list(c.args) + [k.value for k in c.keywords]) for c in calls)
    R.check(ok, "R-KILL-PATH", "shutdown: passes kill_workers to the flag writer", sd.short, "flag_as_shutting_down(kill_workers)",
            "shutdown(kill_workers=True) does not set the kill flag", e.loc(sd, sd.node))
    for q in wr:
        m = e.prog.funcs[q]
        g = e.cfg(m)
        stores = [n for n in g.nodes if n.kind == "stmt" and isinstance(n.ast, ast.Assign) and isinstance(n.ast.targets[0], ast.Attribute)
                  and n.ast.targets[0].attr == "kill_workers"]
        # the flag after the call, as a function of the argument v and the flag before o, by evaluating the stores and the tests that
        # control them over v in {None, False, True} x o in {False, True}:
        #   v is None  -> unchanged (the manager re-flags without argument: that must not clear the flag)
        #   v is True  -> True      (in whatever state the call finds the executor)
        #   v is False -> unchanged (a plain shutdown() after shutdown(kill_workers=True) -- the exit of a `with` block, a generic clean-up,
        #                            another thread -- must not turn the forced shutdown back into a graceful one)
        kparams = [p_ for p_ in m.params[1:]]

        def classify(x, m=m):
            if isinstance(x, ast.Name) and x.id in kparams:
                return "V"
            if isinstance(x, ast.Attribute) and x.attr == "kill_workers" and isinstance(x.value, ast.Name) and x.value.id == m.params[0]:
                return "O"
            return None
        for n in stores:
            ctl = [(t_, "T" if g.on_branch(n, t_, "T") else "F") for t_ in g.nodes if t_.kind == "test" and (g.on_branch(n, t_, "T") or g.on_branch(n, t_, "F"))]
            others = []
            rows = []
            for v in (None, False, True):
                for o in (False, True):
                    env = {"V": v, "O": o}
                    try:
                        taken = True
                        for t_, lab in ctl:
                            try:
                                tv = bool(guards.eval_guard(t_.ast, env, classify))
                            except guards.Inconclusive:
                                if t_ not in others:
                                    others.append(t_)
                                continue
                            if tv != (lab == "T"):
                                taken = False
                        new = bool(guards.eval_guard(n.ast.value, env, classify)) if taken else o
                    except guards.Inconclusive as ex:
                        raise AnalysisError(f"{m.short}: the value stored in the kill flag is not a term over the argument and the flag: {ex}")
                    rows.append((v, o, new))
            bad_none = [r for r in rows if r[0] is None and r[2] != r[1]]
            bad_true = [r for r in rows if r[0] is True and r[2] is not True]
            bad_false = [r for r in rows if r[0] is False and r[2] != r[1]]
            R.check(not bad_true, "R-KILL-PATH", f"{m.short}: stores the kill_workers argument", m.short, norm(n.ast), "kill flag not taken from the argument", e.loc(m, n.ast))
            R.check(not bad_none, "R-KILL-PATH", f"{m.short}: a call without argument leaves the kill flag untouched", m.short, norm(n.ast),
                    "the manager's own flag_as_shutting_down() call resets kill_workers: a forced shutdown silently becomes a graceful one",
                    e.loc(m, n.ast))
            R.check(not bad_false, "R-KILL-PATH", f"{m.short}: a pending forced shutdown is not cancelled by a later plain shutdown", m.short,
                    f"kill flag after {m.short.split('.')[-1]}(kill_workers=False) while it was True",
                    "the kill flag is overwritten with False by any later shutdown() with the default kill_workers=False (the exit of a `with` block, a generic "
                    "clean-up, another thread) that lands before the manager thread has read it: shutdown(kill_workers=True) silently becomes a graceful "
                    "shutdown, it lasts as long as the running tasks and no future fails with ShutdownExecutorError", e.loc(m, n.ast))
            # ... and nothing else decides whether the flag is taken: a forced shutdown requested after a graceful one
            # (a watchdog escalating while another thread is blocked in shutdown(wait=True)) must still arm the kill flag
            R.check(not others, "R-KILL-PATH", f"{m.short}: whether the kill flag is taken depends on the argument only", m.short,
                    "control dependence of " + norm(n.ast), "the kill flag is stored only when `" + "`, `".join(norm(t_.ast) for t_ in others) +
                    "` has a particular value: a forced shutdown requested in another state (e.g. after a graceful shutdown began) is "
                    "silently ignored and the caller waits for the running tasks", e.loc(m, others[0].ast if others else n.ast))
        sds = [n for n in g.nodes if n.kind == "stmt" and isinstance(n.ast, ast.Assign) and isinstance(n.ast.targets[0], ast.Attribute)
               and n.ast.targets[0].attr == "shutdown"]
        for n in sds:
            ctl = [t for t in g.nodes if t.kind == "test" and (g.on_branch(n, t, "T") or g.on_branch(n, t, "F"))]
            R.check(not ctl and isinstance(n.ast.value, ast.Constant) and n.ast.value.value is True, "R-KILL-PATH",
                    f"{m.short}: the shutdown flag is set unconditionally", m.short, norm(n.ast), "the shutdown flag is set only in some states",
                    e.loc(m, n.ast))
    # (2) the manager's shutting-down routine
    f = None
    for q in a.manager_funcs:
        mf = e.prog.funcs[q]
        if manager_only(e, q) and any(isinstance(n, ast.Attribute) and n.attr == "kill_workers" and isinstance(n.ctx, ast.Load)
                                      and set(e.pt.ev(mf, n.value)) & a.flags_objs for n in func_nodes(mf)):
            f = mf
    if f is None:
        R.fail("R-KILL-PATH", "manager", "kill_workers flag", "the manager never reads the kill_workers flag", None)
        return
    g = e.cfg(f)
    tests = [t for t in g.nodes if t.kind == "test" and isinstance(t.ast, ast.Attribute) and t.ast.attr == "kill_workers"]
    kw = kill_workers_func(e)
    killn = effect_nodes(e, f, calls_method_of(e, [kw.qualname]))
    resn = effect_nodes(e, f, res)
    R.check(bool(tests) and bool(killn) and all(any(g.on_branch(k, t, "T") for t in tests) for k in killn), "R-KILL-PATH",
            f"{f.short}: workers are killed exactly when the kill flag is set", f.short, "if kill_workers: kill_workers()",
            "the forced-shutdown kill is missing or not controlled by the kill flag", e.loc(f, f.node))
    R.check(bool(resn) and all(any(g.on_branch(r, t, "T") for t in tests) for r in resn), "R-KILL-PATH",
            f"{f.short}: pending futures are failed only on the forced path", f.short, "set_exception under the kill flag",
            "pending futures are failed on a graceful shutdown (or never on a forced one)", e.loc(f, f.node))
    if killn and resn:
        back = any(g.path_exists(k, lambda n: n in resn, use_exc=False) for k in killn)
        R.check(not back, "R-KILL-PATH", f"{f.short}: futures are failed before the workers are killed", f.short, "fail then kill",
                "workers are killed before the pending futures are failed: a result arriving in between resolves nothing / a sentinel "
                "of a killed worker is seen with work pending", e.loc(f, f.node))
    # failed with ShutdownExecutorError
    for n in func_nodes(f):
        if isinstance(n, ast.Call) and res(f, n):
            arg = n.args[0] if n.args else None
            cls = {v[1] for v in e.pt.ev(f, arg.func) if v[0] == "class"} if isinstance(arg, ast.Call) else set()
            R.check(cls == {f"{PE}:ShutdownExecutorError"}, "R-KILL-PATH", f"{f.short}: unfinished futures fail with ShutdownExecutorError",
                    f.short, norm(n)[:80], f"unfinished futures fail with {sorted(cls)} instead of ShutdownExecutorError", e.loc(f, n))
    # the flag is (re)asserted first so that submit is refused from now on
    sdw = [q for q, attrs in fw.items() if "shutdown" in attrs and "broken" not in attrs]
    fl = effect_nodes(e, f, calls_method_of(e, sdw))
    R.check(bool(fl) and all(any(g.dominates(x, t) for x in fl) for t in tests), "R-KILL-PATH",
            f"{f.short}: the shutdown flag is asserted before pending work is failed", f.short, "flag_as_shutting_down()",
            "pending work is failed while submit is still accepted", e.loc(f, f.node))
    # (3) the manager loop calls this routine when shutting down, every iteration
    run = a.manager_run
    rg = e.cfg(run)
    cn = effect_nodes(e, run, calls_method_of(e, [f.qualname]))
    R.check(bool(cn), "R-KILL-PATH", "manager loop: runs the shutting-down routine", run.short, f.short, "the manager loop never runs the forced-shutdown routine",
            e.loc(run, run.node))
    R.floor("R-KILL-PATH", 10)


# ---------------------------------------------------------------------------
# R-SINGLETON (C09)
# ---------------------------------------------------------------------------

def r_singleton(e, R):
    a = e.anchors
    fac = factory(e)
    pub = e.prog.func(PUBLIC)
    g = e.cfg(fac)
    mod = fac.module.name
    # the executor lock: subject of the with enclosing the factory body
    withs = [n for n in g.nodes if n.kind == "with_enter"]
    if not withs:
        R.fail("R-SINGLETON", fac.short, "with _executor_lock", "the factory body is not under a lock", e.loc(fac, fac.node))
        return
    lock = e.lock_token(fac, withs[0].ast.context_expr)
    # singleton globals: module globals declared `global` in functions of the module
    globs = set()
    for f in e.prog.funcs.values():
        if f.module.name == mod and f.kind != "module":
            globs |= f.globals_decl
    R.info["singleton_globals"] = sorted(globs)
    if len(globs) < 3:
        raise AnalysisError(f"singleton globals not found ({sorted(globs)})")
    for f in e.prog.funcs.values():
        if f.module.name != mod or f.kind == "module":
            continue
        fg = e.cfg(f)
        for n in fg.nodes:
            if n.ast is None or n.kind in ("join", "with_exit", "except", "for_iter"):
                continue
            root = n.ast.context_expr if n.kind == "with_enter" else n.ast
            names = {x.id for x in _walk_noscope(root) if isinstance(x, ast.Name) and x.id in globs
                     and (x.id in f.globals_decl or x.id not in f.locals)}
            if isinstance(root, ast.Global):
                continue
            for nm in sorted(names):
                held = e.held(f)[n] | e.entry_held().get(f.qualname, frozenset())
                R.check(any(t == lock for t in held), "R-SINGLETON", f"{f.short}: `{nm}` accessed under the executor lock ({norm(root)[:40]})",
                        f.short, f"{nm} in {norm(root)[:60]}", f"the singleton global `{nm}` is read or written without the executor lock: two "
                        "threads can build two executors or return a half-replaced one", e.loc(f, root))
    # id allocation: only += 1
    for f in e.prog.funcs.values():
        if f.module.name != mod:
            continue
        for n in func_nodes(f):
            if isinstance(n, ast.AugAssign) and isinstance(n.target, ast.Name) and n.target.id in globs:
                ok = isinstance(n.op, ast.Add) and isinstance(n.value, ast.Constant) and n.value.value == 1
                R.check(ok, "R-SINGLETON", f"{f.short}: executor ids only grow by one", f.short, norm(n), "executor ids are not strictly increasing", e.loc(f, n))
                rets = [r for r in func_nodes(f) if isinstance(r, ast.Return)]
                pre = [s for s in func_nodes(f) if isinstance(s, ast.Assign) and isinstance(s.value, ast.Name) and s.value.id == n.target.id]
                okr = bool(pre) and all(isinstance(r.value, ast.Name) and r.value.id == pre[0].targets[0].id for r in rets)
                R.check(okr, "R-SINGLETON", f"{f.short}: returns the pre-increment id", f.short, "return executor_id", "the id returned is not unique", e.loc(f, n))
    counters = {n.target.id for f in e.prog.funcs.values() if f.module.name == mod for n in func_nodes(f)
                if isinstance(n, ast.AugAssign) and isinstance(n.target, ast.Name) and n.target.id in globs}
    for f in e.prog.funcs.values():
        if f.module.name != mod or f.kind == "module":
            continue
        for n in func_nodes(f):
            if isinstance(n, ast.Assign) and any(isinstance(t, ast.Name) and t.id in globs and t.id in f.globals_decl for t in n.targets):
                cnt = [t.id for t in n.targets if isinstance(t, ast.Name) and t.id in globs and t.id in f.globals_decl]
                R.check(not (set(cnt) & counters), "R-SINGLETON", f"{f.short}: the id counter is never overwritten", f.short, norm(n),
                        "the executor-id counter is assigned (not incremented): ids repeat or go backwards", e.loc(f, n))
    R.check(len(counters) == 1, "R-SINGLETON", "there is one executor-id counter, advanced by `+= 1`", mod, str(sorted(counters)),
            "the executor id is no longer advanced by an increment: successive executors share an id", None)
    # the create branch and the replace/reuse branch
    ex_local = None
    for n in func_nodes(fac):
        if isinstance(n, ast.Assign) and isinstance(n.value, ast.Name) and n.value.id in globs and isinstance(n.targets[0], ast.Name) \
                and n.targets[0].id not in globs:
            ex_local = n.targets[0].id
    if ex_local is None:
        raise AnalysisError("factory: local copy of the singleton not found")
    # replace condition
    repl_if = None
    for n in func_nodes(fac):
        if isinstance(n, ast.If):
            attrs = {x.attr for x in ast.walk(n.test) if isinstance(x, ast.Attribute)}
            if {"broken", "shutdown"} & attrs and any(isinstance(c, ast.Call) and e.callees_of(c) & {a.shutdown.qualname} for s in n.body for c in ast.walk(s)):
                repl_if = n
    if repl_if is None:
        R.fail("R-SINGLETON", fac.short, "replace condition", "the factory has no replace branch (broken / shutdown / arguments changed)", e.loc(fac, fac.node))
        return
    reuse_p = [p for p in fac.params if p == "reuse"]
    if not reuse_p:
        raise AnalysisError("factory has no `reuse` parameter")

    def classify(x):
        if isinstance(x, ast.Attribute) and set(e.pt.ev(fac, x.value)) & a.flags_objs:
            return {"broken": "B", "shutdown": "S"}.get(x.attr)
        if isinstance(x, ast.Name) and x.id == "reuse":
            return "R"
        return None
    try:
        names, tab, bad = guards.compare(repl_if.test, {"B": [None, "err"], "S": [False, True], "R": [False, True]}, classify,
                                         lambda env: bool(env["B"]) or env["S"] or not env["R"])
    except guards.Inconclusive as ex:
        raise AnalysisError(str(ex))
    for env, got, want in bad:
        R.fail("R-SINGLETON", fac.short, norm(repl_if.test), f"replace condition is {got} for broken={bool(env['B'])}, shutdown={env['S']}, "
               f"reuse={env['R']} (must be {want}): a broken/shut-down executor is handed out, or a healthy one is needlessly replaced",
               e.loc(fac, repl_if.test), instance=f"row {env}")
    if not bad:
        R.ok("R-SINGLETON", f"{fac.short}: replace condition equals broken or shutdown or not reuse (8 rows)", e.loc(fac, repl_if.test))
    # reuse == "auto" resolution: equality between the fresh kwargs and the stored ones
    auto = [n for n in func_nodes(fac) if isinstance(n, ast.Assign) and isinstance(n.targets[0], ast.Name) and n.targets[0].id == "reuse"]
    okauto = False
    kwargs_name = None
    for n in auto:
        v = n.value
        if isinstance(v, ast.Compare) and len(v.ops) == 1 and isinstance(v.ops[0], ast.Eq):
            sides = [v.left, v.comparators[0]]
            gl = [x for x in sides if isinstance(x, ast.Name) and x.id in globs]
            lo = [x for x in sides if isinstance(x, ast.Name) and x.id not in globs]
            if gl and lo:
                kwargs_name = lo[0].id
                okauto = True
    R.check(okauto, "R-SINGLETON", f"{fac.short}: reuse='auto' means the new arguments equal the stored ones", fac.short, "reuse = kwargs == _executor_kwargs",
            "reuse='auto' is not resolved by comparing the requested arguments with those of the current executor", e.loc(fac, fac.node))
    # argument completeness
    kw_def = [d for d in e.local_defs(fac, kwargs_name)] if kwargs_name else []
    keys = set()
    okvals = True
    for d in kw_def:
        if isinstance(d, ast.Call) and isinstance(d.func, ast.Name) and d.func.id == "dict":
            for k in d.keywords:
                keys.add(k.arg)
                if not (isinstance(k.value, ast.Name) and k.value.id == k.arg):
                    okvals = False
        elif isinstance(d, ast.Dict):
            for k, v in zip(d.keys, d.values):
                if isinstance(k, ast.Constant):
                    keys.add(k.value)
                    if not (isinstance(v, ast.Name) and v.id == k.value):
                        okvals = False
    expected = set(fac.params[1:] + fac.kwonly) - {"max_workers", "kill_workers", "reuse"}
    R.check(keys == expected and okvals, "R-SINGLETON", f"{fac.short}: every constructor argument is part of the compared/stored kwargs", fac.short,
            f"kwargs keys {sorted(keys)}", f"arguments {sorted(expected - keys)} are not part of the kwargs that decide reuse and build the executor "
            f"(unexpected: {sorted(keys - expected)}): changing them silently reuses the old executor", e.loc(fac, fac.node))
    # the public function forwards every parameter by name
    for c in [n for n in func_nodes(pub) if isinstance(n, ast.Call) and e.callees_of(n) & {fac.qualname}]:
        fw = {k.arg: k.value for k in c.keywords}
        ok = set(fw) == set(pub.params + pub.kwonly) and all(isinstance(v, ast.Name) and v.id == k for k, v in fw.items())
        R.check(ok, "R-SINGLETON", f"{pub.short}: forwards every parameter by name", pub.short, norm(c)[:60],
                f"the public function drops or renames {sorted(set(pub.params) ^ set(fw))}", e.loc(pub, c))
    R.check(set(pub.params) == set(fac.params[1:]), "R-SINGLETON", "public function and factory take the same parameters", pub.short, "signature",
            "the public signature and the factory signature differ", e.loc(pub, pub.node))
    # the constructor call uses a fresh id, the same kwargs that are stored, and max_workers
    ctor = [c for c in func_nodes(fac) if isinstance(c, ast.Call) and isinstance(c.func, ast.Name) and c.func.id == fac.params[0]]
    R.check(len(ctor) == 1, "R-SINGLETON", f"{fac.short}: one construction site", fac.short, "cls(...)", "construction site not unique", e.loc(fac, fac.node))
    for c in ctor:
        st = stmt_of(e, fac, c)
        star = [k for k in c.keywords if k.arg is None and isinstance(k.value, ast.Name) and k.value.id == kwargs_name]
        idk = [k for k in c.keywords if k.arg == "executor_id"]
        okid = bool(idk) and isinstance(idk[0].value, ast.Name) and any(isinstance(d, ast.Call) for d in e.local_defs(fac, idk[0].value.id))
        mw = [k for k in c.keywords if k.arg == "max_workers" and isinstance(k.value, ast.Name) and k.value.id == "max_workers"]
        R.check(bool(star) and okid and bool(mw), "R-SINGLETON", f"{fac.short}: built from **kwargs, max_workers and a fresh executor id", fac.short,
                norm(c)[:80], "the new executor is not built from the requested arguments / a fresh id", e.loc(fac, c))
        stored = [n for n in func_nodes(fac) if isinstance(n, ast.Assign) and any(isinstance(t, ast.Name) and t.id in globs for t in n.targets)
                  and isinstance(n.value, ast.Name) and n.value.id == kwargs_name]
        R.check(bool(stored), "R-SINGLETON", f"{fac.short}: the kwargs the executor is built from are the ones stored for later comparison", fac.short,
                "_executor_kwargs = kwargs", "the stored arguments are not those of the executor in service", e.loc(fac, c))
        lockarg = c.args[0] if c.args else None
        R.check(lockarg is not None and e.lock_token(fac, lockarg) == lock, "R-SINGLETON", f"{fac.short}: the executor shares the factory lock for submit/resize",
                fac.short, norm(c)[:60], "the executor's submit/resize lock is not the factory lock", e.loc(fac, c))
        # ... directly (`_executor = executor = cls(...)`) or through the local it was bound to (`executor = cls(...); _executor = executor`)
        direct = isinstance(st, ast.Assign) and any(isinstance(t, ast.Name) and t.id in globs for t in st.targets)
        via = False
        if isinstance(st, ast.Assign) and not direct:
            locs = {t.id for t in st.targets if isinstance(t, ast.Name)}
            fg_ = e.cfg(fac)
            stn = [n for n in fg_.nodes if n.kind == "stmt" and n.ast is st]
            for n2 in fg_.nodes:
                if n2.kind == "stmt" and isinstance(n2.ast, ast.Assign) and isinstance(n2.ast.value, ast.Name) and n2.ast.value.id in locs \
                        and any(isinstance(t, ast.Name) and t.id in globs for t in n2.ast.targets) and stn \
                        and fg_.escape_path(stn[0], lambda x, n2=n2: x is n2, use_exc=False) is None:
                    via = True
        R.check(direct or via, "R-SINGLETON",
                f"{fac.short}: the new executor is stored as the singleton", fac.short, norm(st)[:60], "the new executor is not recorded as the singleton",
                e.loc(fac, c))
    # replace branch order: shutdown(wait=True) -> reset globals -> recursive call (returned)
    sdn = effect_nodes(e, fac, calls_method_of(e, [a.shutdown.qualname]))
    sdn = {n for n in sdn if any(a.shutdown.qualname in e.callees_of(c) for c in calls_in(n))}
    resetn = {n for n in g.nodes if n.kind == "stmt" and isinstance(n.ast, ast.Assign) and isinstance(n.ast.value, ast.Constant)
              and n.ast.value.value is None and any(isinstance(t, ast.Name) and t.id in globs for t in n.ast.targets)}
    recn = {n for n in g.nodes for c in calls_in(n) if fac.qualname in e.callees_of(c)}
    _order(e, R, "R-SINGLETON", fac, [("shutdown of the previous instance", sdn), ("reset of the singleton globals", resetn),
                                      ("recursive construction", recn)], "replacement out of order")
    for n in sdn:
        for c in calls_in(n):
            if a.shutdown.qualname in e.callees_of(c):
                w = [k for k in c.keywords if k.arg == "wait"]
                okw = (bool(w) and isinstance(w[0].value, ast.Constant) and w[0].value.value is True) or \
                      (c.args and isinstance(c.args[0], ast.Constant) and c.args[0].value is True)
                R.check(okw, "R-SINGLETON", f"{fac.short}: the previous instance is shut down with wait=True", fac.short, norm(c),
                        "the previous executor is not completely shut down before the new one is built", e.loc(fac, c))
    for n in recn:
        R.check(isinstance(n.ast, ast.Return), "R-SINGLETON", f"{fac.short}: the recursive construction is returned", fac.short, norm(n.ast)[:60],
                "the result of the recursive construction is dropped", e.loc(fac, n.ast))
        for c in calls_in(n):
            if fac.qualname in e.callees_of(c):
                okk = any(k.arg is None and isinstance(k.value, ast.Name) and k.value.id == kwargs_name for k in c.keywords) and \
                    any(k.arg == "max_workers" for k in c.keywords)
                R.check(okk, "R-SINGLETON", f"{fac.short}: the recursion passes the new arguments", fac.short, norm(c)[:70],
                        "the replacement is built from other arguments than the requested ones", e.loc(fac, c))
    # reuse branch resizes to the requested size
    try:
        rzq = resize_func(e).qualname
    except AnalysisError:
        rzq = None   # the factory calls no resizing method of the executor at all
    rz = [n for n in g.nodes for c in calls_in(n) if rzq is not None and rzq in e.callees_of(c)]
    ok = bool(rz) and all(any(g.on_branch(n, t, "F") for t in g.nodes if t.kind == "test" and g.dominates(t, n)) for n in rz)
    R.check(bool(rz), "R-SINGLETON", f"{fac.short}: a reused executor is resized to the requested max_workers", fac.short, "executor._resize(max_workers)",
            "a reused executor keeps its old size", e.loc(fac, fac.node))
    for n in rz:
        for c in calls_in(n):
            if c.args:
                R.check(isinstance(c.args[0], ast.Name) and c.args[0].id == "max_workers", "R-SINGLETON", f"{fac.short}: resize gets the requested size",
                        fac.short, norm(c), "resize is not given the requested max_workers", e.loc(fac, c))
    # the reusable constructor forwards everything to the base constructor
    for cq, c in e.prog.classes.items():
        if cq.startswith(REX) and "__init__" in c.methods:
            init = c.methods["__init__"]
            base = a.init
            for call in [n for n in func_nodes(init) if isinstance(n, ast.Call) and e.callees_of(n) & {base.qualname}]:
                fw = {k.arg for k in call.keywords if isinstance(k.value, ast.Name) and k.value.id == k.arg}
                want = set(base.params[1:])
                R.check(fw == want, "R-SINGLETON", f"{init.short}: forwards every base-constructor argument by name", init.short, norm(call)[:60],
                        f"constructor arguments {sorted(want - fw)} are dropped by the reusable executor", e.loc(init, call))
    # ---- polarity of the factory's case analysis (scenario obligations)
    from . import scenario as SC
    rz = resize_func(e)
    ctorn = lambda n: any(isinstance(c.func, ast.Name) and c.func.id == fac.params[0] for c in calls_in(n))
    shutn = lambda n: any(e.callees_of(c) & {a.shutdown.qualname} for c in calls_in(n))
    resn = lambda n: any(e.callees_of(c) & {rz.qualname} for c in calls_in(n))
    recn = lambda n: any(e.callees_of(c) & {fac.qualname} for c in calls_in(n))
    fl = lambda attr: (lambda x: isinstance(x, ast.Attribute) and x.attr == attr and bool(set(e.pt.ev(fac, x.value)) & a.flags_objs))

    def is_auto(val):
        def ev(x):
            if isinstance(x, ast.Compare) and len(x.ops) == 1 and isinstance(x.ops[0], (ast.Eq, ast.NotEq, ast.Is, ast.IsNot)):
                sides = [x.left, x.comparators[0]]
                if any(isinstance(s_, ast.Name) and s_.id == "reuse" for s_ in sides) and any(isinstance(s_, ast.Constant) and s_.value == "auto" for s_ in sides):
                    return val == isinstance(x.ops[0], (ast.Eq, ast.Is))
            return None
        return ev
    autoset = lambda n: n.kind == "stmt" and isinstance(n.ast, ast.Assign) and isinstance(n.ast.targets[0], ast.Name) and n.ast.targets[0].id == "reuse"
    exl = SC.name(ex_local)
    SC.must(e, R, "R-SINGLETON", fac, "there is no current executor", [(exl, "none")], ctorn, "builds one", "the first call dereferences None / returns nothing")
    SC.never(e, R, "R-SINGLETON", fac, "there is no current executor", [(exl, "none")], lambda n: shutn(n) or resn(n), "a shutdown / resize of the (absent) executor",
             "AttributeError on None in get_reusable_executor")
    healthy = [(exl, "some"), (fl("broken"), "F"), (fl("shutdown"), "F")]
    SC.must(e, R, "R-SINGLETON", fac, "the current executor is healthy and reuse is requested", healthy + [(SC.name("reuse"), "T")], resn, "resizes and returns it",
            "a reusable executor is not reused (or not resized to the requested size)", evaluators=[is_auto(False)])
    SC.never(e, R, "R-SINGLETON", fac, "the current executor is healthy and reuse is requested", healthy + [(SC.name("reuse"), "T")], lambda n: shutn(n) or ctorn(n) or recn(n),
             "a shutdown / rebuild", "a healthy executor with unchanged arguments is thrown away on every call", evaluators=[is_auto(False)])
    for scn, facts in (("the current executor is broken", [(exl, "some"), (fl("broken"), "T")]),
                       ("the current executor was shut down", [(exl, "some"), (fl("broken"), "F"), (fl("shutdown"), "T")]),
                       ("reuse is refused", [(exl, "some"), (fl("broken"), "F"), (fl("shutdown"), "F"), (SC.name("reuse"), "F")])):
        SC.must(e, R, "R-SINGLETON", fac, scn, facts, shutn, "shuts it down", "the unusable executor is handed out / leaks", evaluators=[is_auto(False)])
        SC.must(e, R, "R-SINGLETON", fac, scn, facts, recn, "builds a new one (recursive call)", "no usable executor is returned", evaluators=[is_auto(False)])
        SC.never(e, R, "R-SINGLETON", fac, scn, facts, resn, "a resize of the old executor", "a broken / shut-down / differently configured executor is returned",
                 evaluators=[is_auto(False)])
    SC.must(e, R, "R-SINGLETON", fac, "a current executor exists and reuse='auto'", [(exl, "some")], autoset, "resolves 'auto' by comparing the arguments",
            "reuse='auto' (the default) is truthy: the executor is reused although the requested context/timeout/initializer/env/reducers differ",
            evaluators=[is_auto(True)])
    SC.never(e, R, "R-SINGLETON", fac, "reuse is given explicitly (True/False)", [(exl, "some")], autoset, "the 'auto' resolution",
             "an explicit reuse=True/False is overridden by the argument comparison", evaluators=[is_auto(False)])
    # default size: max_workers=None keeps the current executor's size only when reuse is explicitly True and there is one
    mwp = "max_workers"
    keep = lambda n: n.kind == "stmt" and isinstance(n.ast, ast.Assign) and isinstance(n.ast.targets[0], ast.Name) and n.ast.targets[0].id == mwp \
        and isinstance(n.ast.value, ast.Attribute) and n.ast.value.attr == e.anchors.max_workers_attr
    cpu = lambda n: n.kind == "stmt" and isinstance(n.ast, ast.Assign) and isinstance(n.ast.targets[0], ast.Name) and n.ast.targets[0].id == mwp \
        and isinstance(n.ast.value, ast.Call) and norm(n.ast.value.func).endswith("cpu_count")

    def reuse_true(val):
        def ev(x):
            if isinstance(x, ast.Compare) and len(x.ops) == 1 and isinstance(x.ops[0], (ast.Is, ast.Eq)) and isinstance(x.left, ast.Name) and x.left.id == "reuse" \
                    and isinstance(x.comparators[0], ast.Constant) and x.comparators[0].value is True:
                return val
            return None
        return ev
    SC.must(e, R, "R-SINGLETON", fac, "no size is given, reuse is True and an executor exists", [(SC.name(mwp), "none"), (exl, "some")], keep, "keeps that executor's size",
            "a plain get_reusable_executor(reuse=True) resizes the pool to cpu_count()", evaluators=[reuse_true(True)])
    SC.never(e, R, "R-SINGLETON", fac, "no size is given and there is no executor", [(SC.name(mwp), "none"), (exl, "none")], keep, "a read of the absent executor's size",
             "AttributeError on None in the very first get_reusable_executor()", evaluators=[reuse_true(True)])
    SC.must(e, R, "R-SINGLETON", fac, "no size is given and reuse is not True", [(SC.name(mwp), "none")], cpu, "defaults to cpu_count()", "no default size",
            evaluators=[reuse_true(False)])
    SC.never(e, R, "R-SINGLETON", fac, "a size is given", [(SC.name(mwp), "some")], lambda n: keep(n) or cpu(n), "an override of the requested size",
             "the requested max_workers is ignored")
    # public defaults: the previous executor is waited for (not killed) and reuse is decided by comparing the arguments
    def _defaults(fn):
        pos = dict(zip([a_.arg for a_ in fn.node.args.args[len(fn.node.args.args) - len(fn.node.args.defaults):]], fn.node.args.defaults))
        kw = {a_.arg: d_ for a_, d_ in zip(fn.node.args.kwonlyargs, fn.node.args.kw_defaults) if d_ is not None}
        return {k: (v.value if isinstance(v, ast.Constant) else "?") for k, v in {**pos, **kw}.items()}
    for fn in (pub, fac):
        dv = _defaults(fn)
        R.check(dv.get("kill_workers") is False and dv.get("reuse") == "auto" and dv.get("max_workers", None) is None, "R-SINGLETON",
                f"{fn.short}: defaults are max_workers=None, reuse='auto', kill_workers=False", fn.short, f"{ {k: dv.get(k) for k in ('max_workers', 'reuse', 'kill_workers')} }",
                "the public defaults changed: replacing an executor kills its running tasks by default, or reuse no longer compares the arguments", e.loc(fn, fn.node))
    R.floor("R-SINGLETON", 44)


# ---------------------------------------------------------------------------
# R-RESIZE (C10)
# ---------------------------------------------------------------------------

def resize_func(e):
    fac = factory(e)
    qs = set()
    for n in func_nodes(fac):
        if isinstance(n, ast.Call):
            qs |= {q for q in e.callees_of(n) if q.startswith(REX) and q != fac.qualname and "get_next" not in q}
    qs = {q for q in qs if e.prog.funcs[q].cls is not None and e.prog.funcs[q].node.name not in ("__init__", "shutdown")}
    if len(qs) != 1:
        raise AnalysisError(f"resize routine not unique: {sorted(qs)}")
    return e.prog.funcs[qs.pop()]


def _parents(e, x):
    out = []
    p_ = e.prog.parent.get(id(x))
    while p_ is not None and not isinstance(p_, (ast.FunctionDef, ast.AsyncFunctionDef)):
        out.append(p_)
        p_ = e.prog.parent.get(id(p_))
    return out


def r_resize(e, R):
    a = e.anchors
    f = resize_func(e)
    g = e.cfg(f)
    held = e.held(f)
    # same lock as the reusable submit
    withs = [n for n in g.nodes if n.kind == "with_enter"]
    lock = e.lock_token(f, withs[0].ast.context_expr) if withs else frozenset()
    subs = [m for cq, c in e.prog.classes.items() if cq.startswith(REX) for nm, m in c.methods.items() if nm == "submit"]
    R.check(bool(subs), "R-RESIZE", "the reusable executor overrides submit", f.short, "submit", "no submit override: resize and submit are not serialised",
            e.loc(f, f.node))
    for sm in subs:
        sg = e.cfg(sm)
        sw = [n for n in sg.nodes if n.kind == "with_enter"]
        sup = [n for n in sg.nodes for c in calls_in(n) if a.submit.qualname in e.callees_of(c)]
        ok = bool(sw) and e.lock_token(sm, sw[0].ast.context_expr) == lock and bool(lock) and \
            all(any(t == lock for t in e.held(sm)[n]) for n in sup) and bool(sup)
        R.check(ok, "R-RESIZE", "submit and resize exclude each other through the same lock object", sm.short, "with self._submit_resize_lock",
                "submit and _resize are not serialised by one lock: a task submitted during a resize can be lost with a departing worker",
                e.loc(sm, sm.node))
    # (the binding of a local name to a literal constant touches no shared state: it may sit outside the lock)
    body_nodes = [n for n in g.nodes if n.kind in ("stmt", "test", "with_enter") and n not in withs[:1]
                  and not (n.kind == "stmt" and isinstance(n.ast, (ast.Assign, ast.AnnAssign)) and isinstance(n.ast.value, ast.Constant)
                           and all(isinstance(t_, ast.Name) for t_ in (n.ast.targets if isinstance(n.ast, ast.Assign) else [n.ast.target])))]
    R.check(all(any(t == lock for t in held[n]) for n in body_nodes if n.ast is not None), "R-RESIZE", f"{f.short}: whole body under the resize lock",
            f.short, "with self._submit_resize_lock", "part of the resize runs outside the submit/resize lock", e.loc(f, f.node))
    # wait for jobs before posting sentinels
    posts = [n for n in g.nodes for c in calls_in(n) if e.receiver_objs(f, c, ("put", "put_nowait")) & a.callq]
    waitj = set()
    for n in g.nodes:
        for c in calls_in(n):
            for q in e.callees_of(c):
                cf = e.prog.funcs[q]
                if any(isinstance(x, ast.While) and e.objs(cf, x.test) & a.pending for x in func_nodes(cf)):
                    waitj.add(n)
    # (the same wait written in place: a loop in this function whose guard reads the pending table)
    for n in g.nodes:
        if n.kind == "test" and n.ast is not None and e.objs(f, n.ast) & a.pending and any(
                isinstance(x, ast.While) and any(y is n.ast for y in ast.walk(x.test)) for x in func_nodes(f)):
            waitj.add(n)
    R.check(bool(posts) and bool(waitj) and all(any(g.dominates(w, p) for w in waitj) for p in posts), "R-RESIZE",
            f"{f.short}: waits for the submitted jobs before posting sentinels", f.short, "_wait_job_completion()",
            "sentinels are posted while jobs are still queued: a worker can take its sentinel before a queued task, or tasks are stranded", e.loc(f, f.node))
    # _max_workers written under the management lock and before the posts
    mw = [n for n in g.nodes if n.kind == "stmt" and isinstance(n.ast, ast.Assign) and isinstance(n.ast.targets[0], ast.Attribute)
          and n.ast.targets[0].attr == e.anchors.max_workers_attr]
    started = [n for n in mw if any(g.dominates(w, n) for w in waitj)]
    R.check(bool(started) and all(e.token_in(held[n], a.pml) for n in started) and all(any(g.dominates(m, p) for m in started) for p in posts),
            "R-RESIZE", f"{f.short}: max_workers is updated under the management lock, before the sentinels", f.short, "self._max_workers = max_workers",
            "the new size is written outside the processes management lock or after the sentinels: the manager can respawn the workers being stopped",
            e.loc(f, f.node))
    for p in posts:
        R.check(e.token_in(held[p], a.pml), "R-RESIZE", f"{f.short}: sentinels are posted under the management lock", f.short, norm(p.ast)[:50],
                "surplus sentinels are posted without the processes management lock (a worker may time out and leave concurrently: one too many leaves)",
                e.loc(f, p.ast))
        # number of sentinels = alive - target
        loop = None
        pp = e.prog.parent.get(id(p.ast))
        while pp is not None and not isinstance(pp, ast.FunctionDef):
            if isinstance(pp, ast.For):
                loop = pp
                break
            pp = e.prog.parent.get(id(pp))
        okc = False
        if loop is not None and isinstance(loop.iter, ast.Call) and isinstance(loop.iter.func, ast.Name) and loop.iter.func.id == "range" \
                and len(loop.iter.args) == 2:
            lo, hi = loop.iter.args
            tgt = f.params[1] if len(f.params) > 1 else None
            hi_def = inline_locals(e, f, hi)
            alive = isinstance(hi_def, ast.Call) and isinstance(hi_def.func, ast.Name) and hi_def.func.id == "sum" and \
                any(isinstance(x, ast.Attribute) and x.attr == "is_alive" for x in ast.walk(hi_def))
            if not alive and isinstance(hi, ast.Name):
                # the same count as an explicit loop: `n = 0; for p in <workers>: if p.is_alive(): n += 1` (or `n += p.is_alive()`)
                zero = any(isinstance(d, ast.Constant) and d.value == 0 for d in e.local_defs(f, hi.id))
                steps = [x for x in func_nodes(f) if isinstance(x, ast.AugAssign) and isinstance(x.target, ast.Name) and x.target.id == hi.id and isinstance(x.op, ast.Add)]
                def counts_alive(x):
                    if any(isinstance(y, ast.Attribute) and y.attr == "is_alive" for y in ast.walk(x.value)):
                        return True
                    pp_ = e.prog.parent.get(id(x))
                    return isinstance(x.value, ast.Constant) and x.value.value == 1 and isinstance(pp_, ast.If) and not pp_.orelse and \
                        any(isinstance(y, ast.Attribute) and y.attr == "is_alive" for y in ast.walk(pp_.test))
                in_loop = lambda x: any(isinstance(p_, ast.For) for p_ in _parents(e, x))
                alive = zero and len(steps) == 1 and counts_alive(steps[0]) and in_loop(steps[0]) and \
                    len([d for d in e.local_defs(f, hi.id)]) == 1
            okc = isinstance(lo, ast.Name) and lo.id == tgt and alive
        R.check(okc, "R-RESIZE", f"{f.short}: exactly (alive workers - target) sentinels are posted", f.short,
                norm(loop.iter) if loop is not None else norm(p.ast), "the number of sentinels is not alive - target: too many workers leave (survivors "
                "restarted needlessly) or too few (the shrink wait never ends)", e.loc(f, p.ast))
    # no kill / terminate in resize
    kill = kill_pred(e)
    kn = effect_nodes(e, f, kill) | {n for n in g.nodes for c in calls_in(n) if isinstance(c.func, ast.Attribute) and c.func.attr in ("kill", "terminate")}
    R.check(not kn, "R-RESIZE", f"{f.short}: surviving workers are kept (no kill effect)", f.short, "no KILL", "resize kills workers", e.loc(f, f.node))
    # grows through the spawn routine, after the shrink wait, then wakes the manager
    sp = effect_nodes(e, f, spawn_pred(e))
    R.check(bool(sp) and not any(g.path_exists(s, lambda n: n in posts, use_exc=False) for s in sp), "R-RESIZE", f"{f.short}: tops the pool up after the shrink phase",
            f.short, "_adjust_process_count()", "resize never spawns the missing workers", e.loc(f, f.node))
    # ---- polarity of the case analysis at the top of the resize and of the shrink wait (scenario obligations)
    from . import scenario as SC
    tgt = f.params[1]
    selfn = f.params[0]

    def same_size(val):
        def ev(x):
            if isinstance(x, ast.Compare) and len(x.ops) == 1 and isinstance(x.ops[0], (ast.Eq, ast.NotEq)):
                sides = [x.left, x.comparators[0]]
                if any(isinstance(s_, ast.Name) and s_.id == tgt for s_ in sides) and any(isinstance(s_, ast.Attribute) and s_.attr == e.anchors.max_workers_attr for s_ in sides):
                    return val == isinstance(x.ops[0], ast.Eq)
            return None
        return ev
    # which quantity decides "nothing to do"?  It must be the recorded size: a momentary count (workers registered / alive) equals the
    # request by coincidence after idle time-outs, and the recorded size then stays at its old, larger value
    noop = []
    for t_ in g.nodes:
        if t_.kind == "test" and isinstance(t_.ast, ast.Compare) and len(t_.ast.ops) == 1 and isinstance(t_.ast.ops[0], (ast.Eq, ast.NotEq)):
            sides = [t_.ast.left, t_.ast.comparators[0]]
            if any(isinstance(s_, ast.Name) and s_.id == tgt for s_ in sides):
                other = [s_ for s_ in sides if not (isinstance(s_, ast.Name) and s_.id == tgt)]
                rets_ = [n_ for n_ in g.nodes if n_.kind == "stmt" and isinstance(n_.ast, ast.Return) and (g.on_branch(n_, t_, "T") or g.on_branch(n_, t_, "F"))]
                if other and rets_:
                    noop.append((t_, other[0]))
    for t_, other in noop:
        R.check(isinstance(other, ast.Attribute) and other.attr == e.anchors.max_workers_attr and isinstance(other.value, ast.Name) and other.value.id == selfn, "R-RESIZE",
                f"{f.short}: 'nothing to do' compares the request with the recorded size", f.short, norm(t_.ast),
                f"the resize is skipped when the request equals `{norm(other)}` instead of the recorded max_workers: after some workers idled out the two differ, "
                "the recorded size keeps its old value and the next submit tops the pool back up beyond the requested size", e.loc(f, t_.ast))
    if not noop:
        raise AnalysisError("resize: the 'same size' early return is not recognised")
    mthread = lambda x: isinstance(x, ast.Attribute) and isinstance(x.value, ast.Name) and x.value.id == selfn and bool(set(e.pt.ev(f, x)) & a.manager_objs)
    raises = lambda n: n.kind == "stmt" and isinstance(n.ast, ast.Raise)
    effect = lambda n: n in posts or n in sp or n in mw or n in waitj
    SC.never(e, R, "R-RESIZE", f, "the requested size equals the current one", [(SC.name(tgt), "some")], effect, "any resizing step",
             "a no-op request waits for running jobs / restarts workers", evaluators=[same_size(True)])
    SC.must(e, R, "R-RESIZE", f, "a different size is requested before any worker was started", [(SC.name(tgt), "some"), (mthread, "none")],
            lambda n: n in mw, "records the new size", "the first submit starts the old number of workers", evaluators=[same_size(False)])
    SC.never(e, R, "R-RESIZE", f, "a different size is requested before any worker was started", [(SC.name(tgt), "some"), (mthread, "none")],
             lambda n: n in posts or n in sp, "sentinel posts / spawns", "queues of an executor that was never started are used", evaluators=[same_size(False)])
    for what, S in (("waits for the running jobs", waitj), ("posts the surplus sentinels (loop)", None), ("records the new size", set(started)), ("tops the pool up", sp)):
        if S is None:
            continue
        brk0 = lambda x: isinstance(x, ast.Attribute) and x.attr == "broken" and bool(set(e.pt.ev(f, x.value)) & a.flags_objs)
        has_brk = any(brk0(x) for n_ in g.nodes if n_.kind == "test" and n_.ast is not None for x in ast.walk(n_.ast))
        SC.must(e, R, "R-RESIZE", f, "a different size is requested on a started, healthy executor", [(SC.name(tgt), "some"), (mthread, "some")] + ([(brk0, "F")] if has_brk else []),
                lambda n, S=S: n in S, what, "the resize returns without resizing: get_reusable_executor(max_workers=n) hands out an executor of another size",
                evaluators=[same_size(False)])
    SC.must(e, R, "R-RESIZE", f, "no size is given", [(SC.name(tgt), "none")], raises, "refuses (raise)", "None is compared with integers further down")
    # the waits of the resize end when the pool breaks (a worker died: the manager kills every worker and closes the queues);
    # the resize must not go on to build new workers around the closed queues of a broken pool
    brk = lambda x: isinstance(x, ast.Attribute) and x.attr == "broken" and bool(set(e.pt.ev(f, x.value)) & a.flags_objs)
    SC.never(e, R, "R-RESIZE", f, "the pool broke while the resize was waiting", [(SC.name(tgt), "some"), (mthread, "some"), (brk, "T")], lambda n: n in sp,
             "the top-up (spawn of new workers)", "new workers are built around the closed queues of a broken pool: get_reusable_executor raises "
             "`OSError: handle is closed` (or leaves workers nobody will ever kill or reap) instead of returning", evaluators=[same_size(False)])
    # the shrink wait ends exactly when the table is down to the target (or the pool broke)
    loops = [n for n in func_nodes(f) if isinstance(n, ast.While) and any(isinstance(x, ast.Call) and isinstance(x.func, ast.Name) and x.func.id == "len"
                                                                        and x.args and e.objs(f, x.args[0]) & a.processes for x in ast.walk(n.test))]
    if not loops:
        raise AnalysisError("resize: the shrink wait loop not found")

    def classify(x):
        if isinstance(x, ast.Call) and isinstance(x.func, ast.Name) and x.func.id == "len" and x.args and e.objs(f, x.args[0]) & a.processes:
            return "P"
        if isinstance(x, ast.Name) and x.id == tgt:
            return "M"
        if isinstance(x, ast.Attribute) and x.attr == "broken" and set(e.pt.ev(f, x.value)) & a.flags_objs:
            return "B"
        return None
    for lp in loops:
        try:
            names, tab, bad = guards.compare(lp.test, {"P": [0, 1, 2, 3, 4], "M": [1, 2, 3], "B": [None, "err"]}, classify,
                                             lambda env: (env["P"] > env["M"]) and not env["B"])
        except guards.Inconclusive as ex:
            raise AnalysisError(str(ex))
        for env, got, want in bad[:1]:
            R.fail("R-RESIZE", f.short, norm(lp.test), f"the shrink wait is {got} for workers={env['P']}, target={env['M']}, broken={bool(env['B'])} (must be {want}): "
                   "it either never ends once the table has reached the target (get_reusable_executor hangs) or ends while surplus workers are still registered",
                   e.loc(f, lp.test))
        if not bad:
            R.ok("R-RESIZE", f"{f.short}: shrink wait == (workers > target and not broken) on {len(tab)} rows", e.loc(f, lp.test))
    R.floor("R-RESIZE", 14)


# ---------------------------------------------------------------------------
# R-RESIZE-DRAIN (C09, C10): the resize waits for the pending table to empty, so every entry must leave it
# ---------------------------------------------------------------------------

def r_resize_drain(e, R):
    """`_resize` (and through it every get_reusable_executor() call that changes the size) first waits, with no timeout and under the
    global executor lock, until the table of pending work items is empty.  "The resize terminates" and "the factory returns" therefore
    rest on a whole-program fact: every entry that enters the table leaves it -- the item of a cancelled future, of a task that failed
    to serialise on the feeder thread (every error class), of a task whose result arrived.  Those obligations are the ones of
    R-OWN-RESOLVE / R-DROP-RESOLVES / R-ONCE (C01, C03); they are run for this property when, and only when, such an unbounded wait on
    the table exists in the reusable executor."""
    from . import liveness as L
    from . import routing as Rt
    waits = []
    for q, f in e.prog.funcs.items():
        if f.module.name != "loky.reusable_executor":
            continue
        for n in func_nodes(f):
            if isinstance(n, ast.While) and any(isinstance(x, ast.Attribute) and "pending" in x.attr for x in ast.walk(n.test)) \
                    and not any(isinstance(x, (ast.Break, ast.Return, ast.Raise)) for s in n.body for x in ast.walk(s)):
                waits.append((f, n))
    if not waits:
        R.ok("R-RESIZE-DRAIN", "the reusable executor has no unbounded wait on the pending table: nothing to require")
        return
    for f, n in waits:
        R.ok("R-RESIZE-DRAIN", f"{f.short}: `while {norm(n.test)[:50]}` has no other exit: termination needs every table entry to leave "
                               "(obligations of R-OWN-RESOLVE, R-DROP-RESOLVES, R-ONCE follow)", e.loc(f, n))
    # a sub-rule that declines must not hide what the others find (same policy as Report.run_rules)
    before, errors = len(R.findings), []
    for rule in (L.r_own_resolve, L.r_drop_resolves, Rt.r_once):
        try:
            rule(e, R)
        except AnalysisError as err:
            errors.append(err)
    if errors and len(R.findings) == before:
        raise errors[0]
