"""Idle-timeout exits (C07) and pool size (C08).

R-TIMEOUT-EXIT, R-RESPAWN-GUARD, R-SPAWN-SITE, R-SPAWN-LOCKED.
"""
import ast
import copy

from ..model import func_nodes, norm, AnalysisError
from ..cfg import calls_in, _walk_noscope
from .. import guards
from .util import (none_test, node_has_effect, effect_nodes, calls_method_of, recv_call, stmt_of, parent, cfg_nodes)
from .liveness import spawn_pred, manager_only
from .shutdown import pid_branch_func, _is_weakref_deref, _enclosing


from .util import inline_locals  # noqa: E402


# ---------------------------------------------------------------------------
# R-TIMEOUT-EXIT
# ---------------------------------------------------------------------------

def r_timeout_exit(e, R):
    a = e.anchors
    f = a.worker_main
    g = e.cfg(f)
    gets = [n for n in g.nodes for c in calls_in(n) if e.receiver_objs(f, c, ("get",)) & a.callq]
    if len(gets) != 1:
        raise AnalysisError("worker: expected exactly one call_queue.get")
    getn = gets[0]
    getc = [c for c in calls_in(getn) if e.receiver_objs(f, c, ("get",)) & a.callq][0]
    tmo = [k for k in getc.keywords if k.arg == "timeout"]
    R.check(bool(tmo) and isinstance(tmo[0].value, ast.Name) and tmo[0].value.id in f.params, "R-TIMEOUT-EXIT",
            "worker: the task read uses the configured timeout", f.short, norm(getc),
            "the worker does not wait on the call queue with the configured idle timeout", e.loc(f, getc))
    empties = [m for m, l in getn.succ if l == "exc" and m.kind == "except" and m.ast.type is not None
               and norm(m.ast.type).endswith("Empty")]
    if not empties:
        R.fail("R-TIMEOUT-EXIT", f.short, "except queue.Empty", "no handler for the idle timeout", e.loc(f, getc))
        return
    H = empties[0]
    # announce nodes: put of the pid on the result queue
    pidnames = {n.targets[0].id for n in func_nodes(f) if isinstance(n, ast.Assign) and isinstance(n.targets[0], ast.Name)
                and isinstance(n.value, ast.Call) and norm(n.value.func) == "os.getpid"}
    ann = [n for n in g.nodes for c in calls_in(n) if e.receiver_objs(f, c, ("put",)) & a.resq and c.args
           and (isinstance(c.args[0], ast.Name) and c.args[0].id in pidnames or norm(c.args[0]) == "os.getpid()")]
    if not ann:
        raise AnalysisError("worker: pid announcement not found")
    # (i) the try-lock on the management lock
    trys = [t for t in g.nodes if t.kind == "test" and isinstance(t.ast, ast.Call)
            and e.receiver_objs(f, t.ast, ("acquire",)) & a.pml and g.dominates(H, t)]
    blocking = [n for n in g.nodes for c in calls_in(n) if e.receiver_objs(f, c, ("acquire",)) & a.pml and not e.is_nonblocking(c)]
    withs = [n for n in g.nodes if n.kind == "with_enter" and e.lock_token(f, n.ast.context_expr) and
             e.lock_token(f, n.ast.context_expr) <= a.pml]
    R.check(not blocking and not withs, "R-TIMEOUT-EXIT", "worker: never blocks on the processes management lock", f.short,
            norm((blocking + withs)[0].ast) if (blocking or withs) else "",
            "the worker acquires the processes management lock blockingly: the manager joins workers while holding it "
            "(deadlock), and a spawn in progress would be waited for instead of postponing the exit", e.loc(f, H.ast))
    ok_try = bool(trys) and all(e.is_nonblocking(t.ast) for t in trys)
    R.check(ok_try, "R-TIMEOUT-EXIT", "worker: on timeout, probes the management lock without blocking", f.short,
            "processes_management_lock.acquire(block=False)",
            "a timed-out worker leaves without probing the processes management lock: it can exit while workers are being "
            "spawned/stopped", e.loc(f, H.ast))
    if ok_try:
        T = trys[0]
        # (ii) every path from the handler to an exit/announcement passes the successful probe
        esc = g.find_path(H, lambda n: n in ann or n is g.exit, avoid=[T], use_exc=False)
        R.check(esc is None, "R-TIMEOUT-EXIT", "worker: timeout exit only through the lock probe", f.short, "Empty -> probe",
                "there is a path from the timeout handler to the exit that skips the lock probe", e.loc(f, H.ast),
                g.fmt_path(esc) if esc else None)
        # (iii) failed probe continues the loop
        esc = g.find_path(T, lambda n: n in ann or n is g.exit, avoid=[getn], use_exc=False, start_labels=["F"])
        R.check(esc is None, "R-TIMEOUT-EXIT", "worker: a failed probe goes back to waiting for tasks", f.short, "probe failed -> continue",
                "when the management lock is busy the worker still leaves", e.loc(f, T.ast), g.fmt_path(esc) if esc else None)
        # (iv) successful probe releases the lock before announcing
        rel = [n for n in g.nodes for c in calls_in(n) if e.receiver_objs(f, c, ("release",)) & a.pml]
        esc = g.find_path(T, lambda n: n in ann or n is g.exit, avoid=rel, use_exc=False, start_labels=["T"])
        R.check(esc is None and bool(rel), "R-TIMEOUT-EXIT", "worker: the probed lock is released before leaving", f.short,
                "processes_management_lock.release()", "the worker leaves holding the processes management lock",
                e.loc(f, T.ast))
    # (v) a worker never leaves with a task: from the user call every path to an announcement/exit sends a result first
    calln = [n for n in g.nodes if n.kind == "stmt" and any(_is_call_of_item(e, f, c, getn) for c in calls_in(n))]
    if not calln:
        raise AnalysisError("worker: the task call `call_item()` not found")
    send = [n for n in g.nodes for c in calls_in(n) if _sends_result(e, f, c)]
    for cn in calln:
        esc = g.find_path(cn, lambda n: n in ann or n is g.exit or n is g.raise_exit, avoid=send, use_exc=True)
        R.check(esc is None, "R-TIMEOUT-EXIT", "worker: after running a task a result is sent before anything else", f.short,
                norm(cn.ast), "the worker can leave (or loop) after running a task without sending its outcome: the task is lost",
                e.loc(f, cn.ast), g.fmt_path(esc) if esc else None)
    # sentinel/timeout exit is guarded by `item is None`
    item = _item_name(e, f, getn)
    for A in ann:
        guarded = any(t.kind == "test" and none_test(t.ast) and isinstance(none_test(t.ast)[0], ast.Name)
                      and none_test(t.ast)[0].id == item and g.on_branch(A, t, "F" if none_test(t.ast)[1] == "T" else "T")
                      for t in g.nodes)
        after_send = g.find_path(getn, lambda n: n is A, avoid=send, use_exc=False) is None
        R.check(guarded or after_send, "R-TIMEOUT-EXIT", f"worker: announcement {A!r} only without a task in hand", f.short, norm(A.ast),
                "the worker announces its exit while holding an unprocessed task", e.loc(f, A.ast))
    # (vi) announce-then-wait: every return after the loop started is preceded by announce -> wait on the exit lock
    loop_heads = [n for n in g.nodes if n.kind == "join" and n.tag == "loop-head" and g.dominates(n, getn)]
    head = loop_heads[0] if loop_heads else None
    waits = [n for n in g.nodes if (n.kind == "with_enter" and e.lock_token(f, n.ast.context_expr) <= a.exit_locks
                                    and e.lock_token(f, n.ast.context_expr))
             or any(e.receiver_objs(f, c, ("acquire",)) & a.exit_locks for c in calls_in(n))]
    rets = [p for p, l in g.exit.pred if head is not None and g.dominates(head, p)]
    R.check(bool(rets) and bool(waits), "R-TIMEOUT-EXIT", "worker: has clean exits that wait on the exit lock", f.short, "return",
            "the worker has no clean exit waiting on its exit lock", e.loc(f, f.node))
    for r in rets:
        ok = any(g.dominates(A, r) and any(g.dominates(A, w) and g.dominates(w, r) for w in waits) for A in ann)
        R.check(ok, "R-TIMEOUT-EXIT", f"worker: exit {r!r} announces its pid, then waits for the exit lock", f.short, norm(r.ast) if r.ast else "return",
                "a clean worker exit is not announced before the worker waits for / without waiting for its exit lock: the "
                "manager sees the sentinel of a still-registered worker and flags the pool broken", e.loc(f, r.ast) if r.ast else None)
    R.floor("R-TIMEOUT-EXIT", 10)


def _item_name(e, f, getn):
    st = getn.ast
    if isinstance(st, ast.Assign) and isinstance(st.targets[0], ast.Name):
        return st.targets[0].id
    raise AnalysisError("worker: result of call_queue.get is not bound to a local")


def _is_call_of_item(e, f, c, getn):
    return isinstance(c.func, ast.Name) and c.func.id == _item_name(e, f, getn) and not c.args


def _sends_result(e, f, c):
    a = e.anchors
    if e.receiver_objs(f, c, ("put",)) & a.resq:
        return True
    for q in e.callees_of(c):
        cf = e.prog.funcs[q]
        # (the helper puts on its queue parameter -- `q.put(...)`, or through a local bound to `q.put`)
        if any(isinstance(n, ast.Attribute) and n.attr == "put" and isinstance(n.value, ast.Name) and n.value.id in cf.params for n in func_nodes(cf)):
            if any(e.objs(f, arg) & a.resq for arg in c.args):
                return True
    return False


# ---------------------------------------------------------------------------
# R-RESPAWN-GUARD
# ---------------------------------------------------------------------------

def r_exit_nested(e, R):
    """A worker process may host executors of its own (nested parallelism).  After announcing a clean exit (its pid on the result queue:
    sentinel, idle time-out, memory-leak exit) the worker must stop them -- the module's exit hook -- before it returns: otherwise the
    interpreter's exit function joins the nested workers, which wait for work, the exiting worker never terminates and the parent's
    manager thread is stuck joining it."""
    a = e.anchors
    f = a.worker_main
    g = e.cfg(f)
    hook = a.atexit_hook.qualname
    pidnames = {n.targets[0].id for n in func_nodes(f) if isinstance(n, ast.Assign) and isinstance(n.targets[0], ast.Name)
                and isinstance(n.value, ast.Call) and norm(n.value.func) == "os.getpid"}
    ann = [n for n in g.nodes for c in calls_in(n) if e.receiver_objs(f, c, ("put",)) & a.resq and c.args
           and (isinstance(c.args[0], ast.Name) and c.args[0].id in pidnames or norm(c.args[0]) == "os.getpid()")]
    if not ann:
        raise AnalysisError("worker: pid announcement not found")
    hooks = [n for n in g.nodes for c in calls_in(n) if hook in e.callees_of(c)]
    for n in ann:
        p_ = g.find_path(n, lambda x: x is g.exit, avoid=hooks, use_exc=False)
        R.check(p_ is None, "R-EXIT-NESTED", f"worker: after the exit announcement at line {n.lineno} the nested executors are shut down before the worker returns", f.short,
                f"announce -> return without {hook.split(':')[1]}() [{_exit_kind(g, n)}]",
                f"after announcing its exit (line {n.lineno}) the worker can return without calling {hook.split(':')[1]}(): an executor created inside this worker keeps its "
                "own workers waiting, the interpreter's exit function joins them forever, the exiting worker never terminates and the parent's manager thread hangs in join()",
                e.loc(f, n.ast), g.fmt_path(p_) if p_ else None)
    R.floor("R-EXIT-NESTED", 2)


def _exit_kind(g, n):
    txt = " ".join(norm(x.ast)[:60].lower() for x in g.nodes if x.kind == "stmt" and x.lineno and n.lineno and 0 <= n.lineno - x.lineno <= 3)
    return "memory-leak exit" if "leak" in txt else "sentinel / idle time-out exit"


# truth of the concurrent.futures.Future state predicates on a future that was submitted and not yet dispatched (state PENDING)
_FUTURE_PRED_ON_PENDING = {"running": False, "cancelled": False, "done": False}


def _filtered_count(e, f, x, table):
    """`sum(<pred> for w in <table>[.values()])` / `len([w for w in <table>... if <pred>])`: True/False = whether <pred> holds
    for a submitted, undispatched future; None if x is not such a count (or the predicate is not a Future-state test)."""
    comp = None
    if isinstance(x, ast.Call) and isinstance(x.func, ast.Name) and x.func.id in ("sum", "len") and len(x.args) == 1 and \
            isinstance(x.args[0], (ast.GeneratorExp, ast.ListComp)) and len(x.args[0].generators) == 1:
        comp = x.args[0]
    if comp is None:
        return None
    it = comp.generators[0].iter
    while isinstance(it, ast.Call) and (isinstance(it.func, ast.Name) and it.func.id in ("list", "tuple") and it.args or
                                        isinstance(it.func, ast.Attribute) and it.func.attr in ("values", "items", "copy")):
        it = it.args[0] if isinstance(it.func, ast.Name) else it.func.value
    if not (e.objs(f, it) & table):
        return None
    preds = list(comp.generators[0].ifs) + ([comp.elt] if x.func.id == "sum" and not isinstance(comp.elt, ast.Constant) else [])
    if not preds:
        return None

    def ev(p_):
        if isinstance(p_, ast.UnaryOp) and isinstance(p_.op, ast.Not):
            v = ev(p_.operand)
            return None if v is None else not v
        if isinstance(p_, ast.BoolOp):
            vs = [ev(v) for v in p_.values]
            if None in vs:
                return None
            return all(vs) if isinstance(p_.op, ast.And) else any(vs)
        if isinstance(p_, ast.Call) and isinstance(p_.func, ast.Attribute) and not p_.args and p_.func.attr in _FUTURE_PRED_ON_PENDING:
            return _FUTURE_PRED_ON_PENDING[p_.func.attr]
        return None
    vs = [ev(p_) for p_ in preds]
    if None in vs:
        return None
    return all(vs)


def r_respawn_guard(e, R):
    a = e.anchors
    f, popc = pid_branch_func(e)
    spawn = spawn_pred(e)
    calls = [n for n in func_nodes(f) if isinstance(n, ast.Call) and e.call_has_effect(f, n, spawn)]
    if not calls:
        R.fail("R-RESPAWN-GUARD", f.short, "no respawn", "the manager no longer re-spawns workers after an exit announcement: "
               "submitted work is stranded when every worker timed out", e.loc(f, f.node))
        return
    sc = calls[0]
    ifs = []
    p = e.prog.parent.get(id(sc))
    while p is not None and not isinstance(p, ast.FunctionDef):
        if isinstance(p, ast.If):
            ifs.append(p)
        p = e.prog.parent.get(id(p))
    ifs = [i for i in ifs if not (isinstance(i.test, ast.Call) and isinstance(i.test.func, ast.Name) and i.test.func.id == "isinstance")]
    if not ifs:
        # unconditional top-up is fine
        R.ok("R-RESPAWN-GUARD", f"{f.short}: respawn is unconditional", e.loc(f, sc))
    outer = ifs[-1] if ifs else None

    def classify(x):
        fc = _filtered_count(e, f, x, a.pending)
        if fc is not None:
            # a count of the pending entries that satisfy a Future-state predicate stands for "work waiting for a worker" only
            # if the predicate holds for a submitted, not yet dispatched future (state PENDING)
            R.check(fc, "R-RESPAWN-GUARD", f"{f.short}: the pending count of the respawn guard includes submitted, not yet dispatched work", f.short, norm(x)[:80],
                    "the respawn guard counts only pending entries whose future satisfies a state predicate that is false for a submitted, not yet "
                    "dispatched task (Future.running() is true only after dispatch): when the last worker leaves on its idle timeout while such work "
                    "is waiting, the count is 0, nobody is re-spawned and the task is stranded", e.loc(f, x))
            return "NP"
        if isinstance(x, ast.Call) and isinstance(x.func, ast.Name) and x.func.id == "len" and len(x.args) == 1:
            o = e.objs(f, x.args[0])
            if o & a.pending:
                return "NP"
            if o & a.running:
                return "NR"
            if o & a.processes:
                return "P"
        if isinstance(x, ast.Attribute) and x.attr == e.anchors.max_workers_attr:
            return "M"
        if isinstance(x, ast.Attribute) and isinstance(x.value, ast.Name) and f.params and x.value.id == f.params[0] and f.cls is not None:
            # a field of the manager itself that its constructor copied from the executor's pool size: the executor's field is a plain int
            # that a resize REBINDS, so the copy goes stale (unlike the shared containers / locks the manager also keeps)
            init_ = f.cls.methods.get("__init__")
            copied = [n for n in func_nodes(init_) if isinstance(n, ast.Assign) and isinstance(n.targets[0], ast.Attribute) and n.targets[0].attr == x.attr
                      and isinstance(n.value, ast.Attribute) and n.value.attr == e.anchors.max_workers_attr] if init_ is not None else []
            if copied:
                R.fail("R-RESPAWN-GUARD", f.short, norm(x), f"the respawn guard reads `{norm(x)}`, a copy of the executor's `{e.anchors.max_workers_attr}` taken when the manager "
                       "thread was created; the reusable executor's resize rebinds that field on the executor, and the manager thread outlives every resize: after a "
                       "resize up the manager still believes the old size and does not replace a worker that timed out, so fewer than max_workers tasks run "
                       "together", e.loc(f, x))
                return "M"
        if isinstance(x, ast.Call) and _is_weakref_deref(e, f, x):
            return "E"
        if isinstance(x, ast.Name) and _is_weakref_deref(e, f, x):
            return "E"
        if isinstance(x, ast.Attribute) and set(e.pt.ev(f, x.value)) & a.flags_objs:
            return {"shutdown": "S", "broken": "B", "kill_workers": "K"}.get(x.attr)
        return None
    if outer is not None:
        expr = inline_locals(e, f, outer.test)
        K = guards.max_const(expr)
        dom = list(range(0, K + 3))
        try:
            names, tab, bad = guards.compare(
                expr, {"NP": dom, "NR": dom, "P": dom, "E": ["executor"], "M": [1, 2, 3], "S": [False, True], "B": [None], "K": [False]}, classify,
                lambda env: True if (env["NP"] > 0 and env["P"] == 0) else (False if env["NP"] == 0 else None),
                constraint=lambda env: env["NR"] <= env["NP"])
        except KeyError as ex:
            raise AnalysisError(f"respawn guard: atom {ex} missing from the domain")
        R.info["respawn_guard_rows"] = len(tab)
        for env, got, want in bad[:1]:
            if want:
                msg = (f"the respawn guard is false for pending={env['NP']}, running={env['NR']}, workers={env['P']}, shutdown={env['S']}: work is "
                       "outstanding and nobody is left to take it, yet no worker is re-spawned")
            else:
                msg = (f"the respawn guard is true for pending={env['NP']}, running={env['NR']}, workers={env['P']}: nothing is pending, yet a worker that "
                       "left on its idle timeout is replaced at once (with a 'worker stopped while some jobs were given' warning): idle workers never go away")
            R.fail("R-RESPAWN-GUARD", f.short, norm(outer.test), msg, e.loc(f, outer.test),
                   instance=f"{f.short}: guard rows with pending>0 and no worker / nothing pending")
        if not bad:
            R.ok("R-RESPAWN-GUARD", f"{f.short}: guard `{norm(outer.test)[:70]}` is true on all {sum(1 for v in tab if True)} rows "
                 "with pending>0 and no worker (liveness-critical rows)", e.loc(f, outer.test))
    # inner condition reduces to "pool below max_workers" (modulo the executor being alive: R-MGR-SELF)
    if len(ifs) >= 2:
        inner = ifs[0]
        expr = inline_locals(e, f, inner.test)
        try:
            names, tab, bad = guards.compare(
                expr, {"P": [0, 1, 2, 3], "M": [1, 2, 3], "E": ["executor"], "NP": [1], "NR": [0], "S": [False, True], "B": [None], "K": [False]}, classify,
                lambda env: True if env["P"] == 0 else (False if env["P"] >= env["M"] else None))
        except KeyError as ex:
            raise AnalysisError(f"respawn inner guard: atom {ex} missing")
        for env, got, want in bad[:1]:
            R.fail("R-RESPAWN-GUARD", f.short, norm(inner.test),
                   f"inner respawn condition is {got} for workers={env['P']}, max_workers={env['M']}, shutdown={env['S']} (must be {want}): "
                   "either no respawn although the pool is empty and work is pending (a graceful shutdown must still drain submitted work), "
                   "or a spawn beyond max_workers", e.loc(f, inner.test))
        if not bad:
            R.ok("R-RESPAWN-GUARD", f"{f.short}: inner condition `{norm(inner.test)[:60]}` = pool below max_workers", e.loc(f, inner.test))
    # the respawn happens under the management lock
    held = e.held_full(f, sc)
    R.check(e.token_in(held, a.pml), "R-RESPAWN-GUARD", f"{f.short}: respawn under the processes management lock", f.short, norm(sc),
            "workers are re-spawned without the processes management lock (a timed-out worker can leave concurrently)", e.loc(f, sc))
    R.floor("R-RESPAWN-GUARD", 3)


# ---------------------------------------------------------------------------
# R-SPAWN-SITE / R-SPAWN-LOCKED
# ---------------------------------------------------------------------------

def _spawn_unlocked_ok(e):
    """Callers of the spawn routine that may run without the management lock, by role (never by name)."""
    from .reusable import resize_func
    return {resize_func(e).qualname: "the resize routine: serialised with submit by the resize lock; pending is empty so the manager's respawn guard is false"}


def r_spawn_locked(e, R):
    a = e.anchors
    sf = a.spawn_func
    n = 0
    for cq, k, c in e.redges().get(sf.qualname, ()):
        cf = e.prog.funcs[cq]
        if cf.module.name == "__user__":
            continue
        n += 1
        held = e.held_full(cf, c)
        ok = e.token_in(held, a.pml)
        if not ok and cf.qualname in _spawn_unlocked_ok(e):
            R.ok("R-SPAWN-LOCKED", f"{cf.short}: spawn without the management lock (accepted: {_spawn_unlocked_ok(e)[cf.qualname]})", e.loc(cf, c))
            continue
        R.check(ok, "R-SPAWN-LOCKED", f"{cf.short}: spawn routine called under the processes management lock", cf.short, norm(c),
                "workers are spawned without the processes management lock: an idle worker can time out concurrently "
                "and the table/size bookkeeping races", e.loc(cf, c))
    if n < 2:
        raise AnalysisError(f"R-SPAWN-LOCKED: {n} callers of the spawn routine (floor 2)")


def r_spawn_site(e, R):
    """The only insertion into the worker table is in the spawn routine, in a
    loop guarded by len(table) < max_workers, one insertion per iteration,
    after start()."""
    a = e.anchors
    sf = a.spawn_func
    inserts = []
    for f in e.prog.funcs.values():
        if f.module.name == "__user__":
            continue
        for n in func_nodes(f):
            if isinstance(n, ast.Subscript) and isinstance(n.ctx, ast.Store) and e.objs(f, n.value) & a.processes:
                inserts.append((f, n))
            if isinstance(n, ast.Call) and e.receiver_objs(f, n, ("update", "setdefault", "__setitem__")) & a.processes:
                inserts.append((f, n))
    for f, n in inserts:
        R.check(f is sf, "R-SPAWN-SITE", f"{f.short}: insertion into the worker table is in the spawn routine", f.short, norm(n),
                "a second site registers workers: it bypasses the size guard of the spawn routine", e.loc(f, n))
    if not inserts:
        raise AnalysisError("no insertion into the worker table found")
    g = e.cfg(sf)
    for f, n in inserts:
        if f is not sf:
            continue
        wl = _enclosing(e, n, ast.While)
        ok = False
        if wl is None:
            fl = _enclosing(e, n, ast.For)
            it = fl.iter if fl is not None else None
            if isinstance(it, ast.Call) and isinstance(it.func, ast.Name) and it.func.id == "range" and len(it.args) == 1 \
                    and isinstance(it.args[0], ast.BinOp) and isinstance(it.args[0].op, ast.Sub):
                l_, r_ = it.args[0].left, it.args[0].right
                okf = isinstance(l_, ast.Attribute) and l_.attr == e.anchors.max_workers_attr and isinstance(r_, ast.Call) and isinstance(r_.func, ast.Name) \
                    and r_.func.id == "len" and bool(e.objs(sf, r_.args[0]) & a.processes)
                if okf:
                    wl = fl
                    ok = True
        if wl is not None and isinstance(wl, ast.While):
            t = wl.test
            if isinstance(t, ast.Compare) and len(t.ops) == 1:
                l, r = t.left, t.comparators[0]
                op = t.ops[0]
                if isinstance(op, ast.Gt):
                    l, r, op = r, l, ast.Lt()
                lenp = isinstance(l, ast.Call) and isinstance(l.func, ast.Name) and l.func.id == "len" and e.objs(sf, l.args[0]) & a.processes
                maxw = isinstance(r, ast.Attribute) and r.attr == e.anchors.max_workers_attr and set(e.pt.ev(sf, r.value)) & a.executor_objs
                ok = bool(lenp and maxw and isinstance(op, ast.Lt))
        R.check(ok, "R-SPAWN-SITE", f"{sf.short}: spawn loop guarded by len(table) < max_workers (strict)", sf.short,
                (f"while {norm(wl.test)}" if isinstance(wl, ast.While) else f"for ... in {norm(wl.iter)}") if wl is not None else norm(n),
                "the spawn loop is not guarded by the strict comparison len(workers) < max_workers: the pool can exceed max_workers",
                e.loc(sf, n))
        # the size guard is the *only* thing that decides whether a worker is spawned: every caller (submit's top-up, the resize,
        # the manager's respawn after an idle-timeout exit, at any time including interpreter exit, when pending work is still
        # finished) relies on the routine topping the pool up whenever it is short
        if wl is not None:
            heads = [cn for cn in g.nodes if (cn.kind == "test" and isinstance(wl, ast.While) and cn.ast is wl.test) or
                     (cn.kind in ("for_iter", "for_init") and cn.ast is wl) or (cn.kind == "join" and cn.tag == "loop-head" and cn.ast is wl)]
            if not heads:
                raise AnalysisError("spawn routine: CFG nodes of the spawn loop not found")
            esc = g.escape_path(g.entry, lambda x: x in heads, use_exc=False)
            R.check(esc is None, "R-SPAWN-SITE", f"{sf.short}: the spawn loop is reached on every call (nothing but the size guard decides)", sf.short,
                    "no early return before the spawn loop", "the spawn routine returns early in some state (a flag, interpreter exit, ...): one of its callers -- "
                    "the manager's respawn of workers that idled out while work is pending -- then silently does nothing and the pending futures never resolve",
                    e.loc(sf, esc[-1].ast if esc and esc[-1].ast is not None else sf.node), g.fmt_path(esc) if esc else None)
        # one insertion per iteration, after start()
        if wl is not None:
            stmts = [x for x in wl.body]
            ins_stmt = stmt_of(e, sf, n)
            R.check(ins_stmt in stmts, "R-SPAWN-SITE", f"{sf.short}: exactly one unconditional insertion per iteration", sf.short, norm(ins_stmt),
                    "the insertion is conditional or nested: the loop guard may never become false or several workers are added per test",
                    e.loc(sf, n))
            starts = [cn for cn in g.nodes for c in calls_in(cn) if isinstance(c.func, ast.Attribute) and c.func.attr == "start"
                      and e.objs(sf, c.func.value) & a.process_objs]
            insn = cfg_nodes(e, sf, ins_stmt)
            R.check(bool(starts) and all(any(g.dominates(s, i) for s in starts) for i in insn), "R-SPAWN-SITE",
                    f"{sf.short}: the worker is registered after start() (pid known, sentinel valid)", sf.short, "p.start()",
                    "a worker is registered before it was started", e.loc(sf, n))
            # hand-shake token: the exit lock is taken before the worker starts and attached to the process object
            # before the process is published in the table (the manager releases `p.<lock attr>` on the exit announcement)
            acq = [cn for cn in g.nodes for c in calls_in(cn) if e.receiver_objs(sf, c, ("acquire",)) & a.exit_locks]
            R.check(bool(acq) and all(any(g.dominates(x, s) for x in acq) for s in starts), "R-SPAWN-SITE",
                    f"{sf.short}: the worker's exit lock is taken before the worker is started", sf.short, "worker_exit_lock.acquire() before p.start()",
                    "the worker starts with its exit lock free: on a timeout exit it does not wait for the manager's acknowledgement, its sentinel "
                    "can be seen while it is still registered and the pool is flagged broken", e.loc(sf, n))
            # the token is binary: created with one unit and taken exactly once, so that the worker's own acquire at exit blocks
            # until the manager has removed it from the table and released it
            ctor = [n_ for n_ in func_nodes(sf) if isinstance(n_, ast.Assign) and isinstance(n_.value, ast.Call) and e.objs(sf, n_.targets[0]) & a.exit_locks] if False else \
                [n_ for n_ in func_nodes(sf) if isinstance(n_, ast.Assign) and isinstance(n_.value, ast.Call) and isinstance(n_.targets[0], ast.Name)
                 and {v for v in e.pt.ev(sf, n_.targets[0]) if v[0] == "obj"} & a.exit_locks]
            okone = bool(ctor) and all((norm(n_.value.func).split(".")[-1] in ("Lock",) and not n_.value.args) or
                                       (norm(n_.value.func).split(".")[-1] in ("BoundedSemaphore", "Semaphore") and len(n_.value.args) == 1
                                        and isinstance(n_.value.args[0], ast.Constant) and n_.value.args[0].value == 1) for n_ in ctor)
            acq_calls = [c for cn in acq for c in calls_in(cn) if e.receiver_objs(sf, c, ("acquire",)) & a.exit_locks]
            R.check(okone and len(acq_calls) == 1, "R-SPAWN-SITE", f"{sf.short}: the exit lock is a binary token (one unit, taken exactly once before start)", sf.short,
                    "; ".join(norm(n_.value)[:40] for n_ in ctor) or "exit lock constructor",
                    "the exit lock has more than one unit (or is taken twice): the worker's own acquire at exit succeeds at once (or never), so it leaves while still "
                    "registered -- its sentinel is seen by the manager and a clean idle-timeout exit is reported as a crash", e.loc(sf, n))
            att = [cn for cn in g.nodes if cn.kind == "stmt" and isinstance(cn.ast, ast.Assign) and isinstance(cn.ast.targets[0], ast.Attribute)
                   and e.objs(sf, cn.ast.targets[0].value) & a.process_objs and e.objs(sf, cn.ast.value) & a.exit_locks]
            R.check(bool(att) and all(any(g.dominates(x, i) for x in att) for i in insn), "R-SPAWN-SITE",
                    f"{sf.short}: the exit lock is attached to the process object before the process is published in the table", sf.short,
                    "p._worker_exit_lock = worker_exit_lock before processes[pid] = p",
                    "the manager can process the exit announcement of a worker whose exit lock is not attached yet (AttributeError kills the "
                    "manager thread)", e.loc(sf, n))
            # the key is the pid of the started process and the value that process
            key = n.slice if isinstance(n, ast.Subscript) else None
            okk = isinstance(key, ast.Attribute) and key.attr == "pid" and e.objs(sf, key.value) & a.process_objs
            R.check(bool(okk), "R-SPAWN-SITE", f"{sf.short}: workers are keyed by their pid", sf.short, norm(n),
                    "the worker table is not keyed by pid: the exit announcement (a pid) cannot find its worker", e.loc(sf, n))
    # submit tops the pool up on every accepting path
    sub = a.submit
    sg = e.cfg(sub)
    sp = effect_nodes(e, sub, spawn_pred(e))
    esc = sg.escape_path(sg.entry, lambda x: x in sp, use_exc=False)
    R.check(esc is None and bool(sp), "R-SPAWN-SITE", "submit: every accepting path reaches the pool top-up", sub.short, "_ensure_executor_running()",
            "submit can accept a task without topping the pool back up to max_workers", e.loc(sub, sub.node))
    # the top-up follows the registration of the work item: a worker that leaves after the top-up is then covered by
    # the manager's respawn guard (pending > 0); the other order strands the task when every worker idles out in between
    ins = [n for n in sg.nodes if n.kind == "stmt" and n.ast is not None and any(
        isinstance(x, ast.Subscript) and isinstance(x.ctx, ast.Store) and e.objs(sub, x.value) & a.pending for x in _walk_noscope(n.ast))]
    R.check(bool(ins) and bool(sp) and all(any(sg.dominates(i, s_) for i in ins) for s_ in sp), "R-SPAWN-SITE",
            "submit: the work item is registered before the pool is topped up", sub.short, "pending[...] = w before _ensure_executor_running()",
            "submit tops the pool up before registering the work item: if the workers idle out in between (short timeout), the manager's "
            "respawn guard sees no pending work, nobody re-spawns and the task never runs", e.loc(sub, sp and next(iter(sp)).ast))
    # the top-up condition in the ensure-running helper must not skip the spawn when the pool is short
    for q in e.reach([sub.qualname]):
        hf = e.prog.funcs[q]
        for nn in func_nodes(hf):
            if isinstance(nn, ast.If) and any(isinstance(c, ast.Call) and e.callees_of(c) & {sf.qualname} for c in ast.walk(nn)
                                              if isinstance(c, ast.Call)) and hf is not sf:
                t = nn.test

                def classify(x):
                    if isinstance(x, ast.Call) and isinstance(x.func, ast.Name) and x.func.id == "len" and e.objs(hf, x.args[0]) & a.processes:
                        return "P"
                    if isinstance(x, ast.Attribute) and x.attr == e.anchors.max_workers_attr:
                        return "M"
                    return None
                try:
                    names, tab, bad = guards.compare(t, {"P": [0, 1, 2, 3], "M": [1, 2, 3]}, classify,
                                                     lambda env: True if env["P"] < env["M"] else None)
                except (KeyError, guards.Inconclusive):
                    continue
                R.check(not bad, "R-SPAWN-SITE", f"{hf.short}: top-up condition `{norm(t)}` is true whenever the pool is short", hf.short,
                        norm(t), f"the top-up is skipped for workers={bad[0][0]['P']}, max_workers={bad[0][0]['M']}" if bad else "",
                        e.loc(hf, t))
    # the worker runs calls sequentially: no thread/process creation in WORKER role
    for q in a.worker_funcs:
        wf = e.prog.funcs[q]
        if not wf.module.name.startswith("loky.process_executor"):
            continue
        for c in [x for x in func_nodes(wf) if isinstance(x, ast.Call)]:
            if any(v[0] == "ext" and v[1] in ("threading.Thread",) for v in e.pt.ev(wf, c.func)) or \
                    any(k == "process" for _, k in e.pt.calls.get(id(c), ())):
                if q == a.worker_main.qualname:
                    R.fail("R-SPAWN-SITE", wf.short, norm(c), "the worker main creates threads/processes to run calls: more than "
                           "one task per worker can execute concurrently", e.loc(wf, c))
    R.ok("R-SPAWN-SITE", "worker main executes calls sequentially (no thread/process creation)", None)
    R.floor("R-SPAWN-SITE", 7)


# ---------------------------------------------------------------------------
# R-QUEUE-CAP
# ---------------------------------------------------------------------------
def _capacity_param(e, cq_cls):
    """name of the constructor parameter of the call-queue class that becomes the capacity of the underlying mp queue."""
    init = e.pt.lookup_method(cq_cls, "__init__")
    if init is None:
        return None
    fi = init if hasattr(init, "qualname") else e.prog.funcs[init]
    for c in [n for n in func_nodes(fi) if isinstance(n, ast.Call)]:
        if isinstance(c.func, ast.Attribute) and c.func.attr == "__init__" and isinstance(c.func.value, ast.Call) and isinstance(c.func.value.func, ast.Name) \
                and c.func.value.func.id == "super":
            cand = [c.args[0]] if c.args else [k.value for k in c.keywords if k.arg == "maxsize"]
            if cand and isinstance(cand[0], ast.Name) and cand[0].id in fi.params:
                return fi, cand[0].id
    return None


def _module_int(e, mod, name, depth=0):
    """value of a module-level integer constant, through `from .x import NAME`."""
    vals = []
    for s in mod.tree.body:
        if isinstance(s, ast.Assign) and any(isinstance(t_, ast.Name) and t_.id == name for t_ in s.targets):
            vals.append(s.value.value if isinstance(s.value, ast.Constant) and isinstance(s.value.value, int) and not isinstance(s.value.value, bool) else None)
        if isinstance(s, ast.ImportFrom) and depth < 3:
            for al in s.names:
                if (al.asname or al.name) == name:
                    base = mod.name.split(".") if mod.is_pkg else mod.name.split(".")[:-1]
                    if s.level:
                        base = base[:len(base) - (s.level - 1)]
                        target = ".".join(base + ([s.module] if s.module else []))
                    else:
                        target = s.module
                    m2 = e.prog.modules.get(target)
                    if m2 is not None:
                        vals.append(_module_int(e, m2, al.name, depth + 1))
    return vals[0] if len(vals) == 1 else None


def r_queue_cap(e, R):
    """The manager thread stops filling the call queue when it is full and is woken by submits and results only, never by a worker
    taking an item.  With a capacity below the number of workers, a burst of long tasks reaches only `capacity` workers until the first
    result comes back: capacity >= max_workers *in force* is a necessary condition of "max_workers long tasks do run simultaneously"."""
    a = e.anchors
    mw = a.max_workers_attr
    sites = []
    for q, f in e.prog.funcs.items():
        if q not in a.executor_funcs:
            continue
        for c in [n for n in func_nodes(f) if isinstance(n, ast.Call)]:
            if set(e.pt.ev(f, c)) & a.callq:
                sites.append((f, c))
    if len(sites) != 1:
        raise AnalysisError(f"call queue allocation site not unique ({len(sites)})")
    f, c = sites[0]
    cq_cls = {o[2] for o in a.callq}
    cp = _capacity_param(e, sorted(cq_cls)[0])
    if cp is None:
        raise AnalysisError("call queue class: the constructor parameter that becomes the queue capacity is not recognised")
    fi, pname = cp
    idx = fi.params.index(pname) - 1
    arg = next((k.value for k in c.keywords if k.arg == pname), c.args[idx] if idx < len(c.args) else None)
    R.check(arg is not None, "R-QUEUE-CAP", "the call queue is created with an explicit capacity", f.short, norm(c)[:60],
            "the call queue is created without a capacity: the manager moves every submitted task into it at once and none of them can be cancelled any more",
            e.loc(f, c))
    if arg is None:
        return
    # source expressions of the capacity: local definitions in the allocating function, and what callers pass for the parameter
    sources = []   # (owner func, expr)

    def expand(fn, x, depth=0):
        if isinstance(x, ast.Name) and x.id in fn.params and depth < 3:
            got = False
            for d in e.local_defs(fn, x.id):
                if not (isinstance(d, ast.Constant) and d.value is None):
                    expand(fn, d, depth + 1)
                    got = True
            for q2, f2 in e.prog.funcs.items():
                for c2 in [n for n in func_nodes(f2) if isinstance(n, ast.Call)]:
                    if fn.qualname in e.callees_of(c2):
                        i2 = fn.params.index(x.id) - (1 if fn.cls else 0)
                        a2 = next((k.value for k in c2.keywords if k.arg == x.id), c2.args[i2] if i2 < len(c2.args) and not any(isinstance(z, ast.Starred) for z in c2.args) else None)
                        if a2 is not None:
                            expand(f2, a2, depth + 1)
            return
        if isinstance(x, ast.Name) and x.id in fn.locals:
            defs = [d for d in e.local_defs(fn, x.id) if not (isinstance(d, ast.Constant) and d.value is None)]
            for d in defs:
                expand(fn, d, depth + 1)
            return
        # a read-only property of the executor computing the value: follow it
        if isinstance(x, ast.Attribute) and isinstance(x.value, ast.Name) and fn.params and x.value.id == fn.params[0] and fn.cls is not None and depth < 3:
            pm = e.pt.lookup_method(fn.cls.qualname, x.attr)
            pm = pm if pm is None or hasattr(pm, "qualname") else e.prog.funcs.get(pm)
            if pm is not None and "property" in pm.decorators:
                rets_ = [r_ for r_ in func_nodes(pm) if isinstance(r_, ast.Return) and r_.value is not None]
                if len(rets_) == 1:
                    expand(pm, rets_[0].value, depth + 1)
                    return
        sources.append((fn, inline_locals(e, fn, x)))
    expand(f, arg)
    if not sources:
        raise AnalysisError("call queue capacity: no source expression found")
    cpu_quals = {q for q in e.prog.funcs if q.endswith(":cpu_count")}

    def resizable(cls_q):
        """some method other than the constructor stores the pool-size field."""
        for cq, cl in e.prog.classes.items():
            if cq == cls_q:
                for nm, m in cl.methods.items():
                    if nm != "__init__" and any(isinstance(n, ast.Attribute) and n.attr == mw and isinstance(n.ctx, ast.Store) for n in func_nodes(m)):
                        return m
        return None
    for fn, x in sources:
        def classify(n, fn=fn):
            if isinstance(n, ast.Attribute) and n.attr == mw and isinstance(n.value, ast.Name) and n.value.id == fn.params[0]:
                return "M"
            if isinstance(n, ast.Call) and (e.callees_of(n) & cpu_quals or any(v[0] == "func" and v[1] in cpu_quals for v in e.pt.ev(fn, n.func))):
                return "CPU"
            if isinstance(n, ast.Name) and n.id not in fn.locals:
                v = _module_int(e, fn.module, n.id)
                if isinstance(v, int):
                    return ("const", v)
            return None

        def cl2(n):
            r = classify(n)
            return r

        worst = None
        try:
            for M in (1, 2, 3, 7, 61):
                for CPU in (1, 2, 16):
                    env = {"M": M, "CPU": CPU}
                    v = guards.eval_guard(x, _ConstEnv(env), _wrap(cl2))
                    if not isinstance(v, int):
                        raise guards.Inconclusive(f"capacity is not an integer term: {norm(x)}")
                    if v < M and worst is None:
                        worst = (M, CPU, v)
        except guards.Inconclusive as ex:
            raise AnalysisError(f"call queue capacity: {ex}")
        rz = resizable(fn.cls.qualname) if fn.cls is not None else None
        uses_m = any(classify(n) == "M" for n in ast.walk(x))
        cons = f"capacity {norm(x)}" + (" of a resizable pool" if rz is not None else "")
        why = []
        if worst is not None:
            why.append(f"the call queue holds {worst[2]} items for max_workers={worst[0]} (cpu_count={worst[1]})")
        if rz is not None:
            why.append(f"{rz.short} changes the pool size after the call queue was created with capacity `{norm(x)}`"
                       + (" (computed from the *first* max_workers)" if uses_m else " (independent of max_workers)"))
        R.check(not why, "R-QUEUE-CAP", f"{fn.short}: call queue capacity `{norm(x)}` >= max_workers in force", fn.short, cons,
                "; ".join(why) + ": the manager stops feeding the call queue when it is full and is woken by submits and results only, not when a worker takes an "
                "item, so a burst of long tasks reaches only `capacity` of the idle workers until the first result comes back", e.loc(fn, x))
    R.floor("R-QUEUE-CAP", 2)


class _ConstEnv(dict):
    def __missing__(self, k):
        if isinstance(k, tuple) and k[0] == "const":
            return k[1]
        raise KeyError(k)


def _wrap(cl):
    return cl
