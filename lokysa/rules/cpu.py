"""cpu_count (C17).  R-CPU-TERM, R-CPU-HELPERS, R-CPU-PHYSICAL."""
import ast

from ..model import func_nodes, norm, AnalysisError
from ..cfg import calls_in, _walk_noscope
from ..terms import TermBuilder, normalise, show
from .util import none_test, stmt_of, parent, cfg_nodes, inline_locals

CX = "loky.backend.context"
ENVVAR = "LOKY_MAX_CPU_COUNT"


def helper_roles(e):
    """The limit helpers by what they read, not by name: affinity = the function calling sched_getaffinity; cgroup = the
    function naming the cgroup files; user = the function taking the min of both and the environment override."""
    out = {}
    for q, f in e.prog.funcs.items():
        if f.module.name != CX or f.kind == "module":
            continue
        src = [norm(n) for n in func_nodes(f) if isinstance(n, (ast.Call, ast.Constant))]
        if any("sched_getaffinity" in t for t in src):
            out.setdefault("AFF", []).append(q)
        if any(isinstance(n, ast.Constant) and isinstance(n.value, str) and n.value.startswith("/sys/fs/cgroup") for n in func_nodes(f)):
            out.setdefault("CG", []).append(q)
    for k in ("AFF", "CG"):
        if len(out.get(k, [])) != 1:
            raise AnalysisError(f"anchor vanished: the {k} limit helper is not unique ({out.get(k)})")
    return {k: v[0] for k, v in out.items()}


def _leaves(e):
    roles = helper_roles(e)

    def leaves(func, expr, env):
        t = norm(expr)
        if t in ("os.cpu_count() or 1",):
            return "OS"
        if t == "os.cpu_count()":
            return "OS-without-None-guard"
        if isinstance(expr, ast.Call) and isinstance(expr.func, ast.Name):
            qs = e.callees_of(expr)
            if qs == {roles["AFF"]}:
                return "AFF" if _arg_is_os(e, func, expr, env) else "AFF(?)"
            if qs == {roles["CG"]}:
                return "CG" if _arg_is_os(e, func, expr, env) else "CG(?)"
            if expr.func.id == "int" and len(expr.args) == 1 and isinstance(expr.args[0], ast.Call) and norm(expr.args[0].func) == "os.environ.get":
                g = expr.args[0]
                if len(g.args) == 2 and isinstance(g.args[0], ast.Constant) and g.args[0].value == ENVVAR:
                    d = g.args[1]
                    if isinstance(d, ast.Name) and env.get(d.id) == ("leaf", "OS") or norm(d) == "os.cpu_count() or 1":
                        return "ENV"
                    return "ENV(default?)"
        return None
    return leaves


def _arg_is_os(e, func, call, env):
    if len(call.args) != 1:
        return False
    a = call.args[0]
    if isinstance(a, ast.Name):
        if env.get(a.id) == ("leaf", "OS"):
            return True
        defs = e.local_defs(func, a.id)
        return len(defs) == 1 and norm(defs[0]) == "os.cpu_count() or 1"
    return norm(a) == "os.cpu_count() or 1"


SPEC = normalise(("max", (("const", 1), ("min", (("leaf", "OS"), ("leaf", "AFF"), ("leaf", "CG"), ("leaf", "ENV"))))))


def r_cpu_term(e, R):
    f = e.prog.func(f"{CX}:cpu_count")
    g = e.cfg(f)
    flag = f.params[0] if f.params else None
    R.check(flag is not None and isinstance(f.defaults.get(flag), ast.Constant) and f.defaults[flag].value is False, "R-CPU-TERM",
            "cpu_count: only_physical_cores defaults to False", f.short, "only_physical_cores=False", "the default no longer returns the logical count", e.loc(f, f.node))
    # the return on the `not only_physical_cores` branch
    tests = [t for t in g.nodes if t.kind == "test" and isinstance(t.ast, ast.Name) and t.ast.id == flag]
    rets = [n for n in g.nodes if n.kind == "stmt" and isinstance(n.ast, ast.Return)]
    logical = [r for r in rets if any(g.on_branch(r, t, "F") for t in tests) and not any(g.on_branch(r, t, "T") for t in tests)]
    if len(logical) != 1:
        raise AnalysisError("cpu_count: the return of the logical count (only_physical_cores false) not identified")
    tb = TermBuilder(e, _leaves(e))
    term = normalise(tb.term(f, logical[0].ast.value))
    R.info["cpu_count_term"] = show(term)
    R.info["cpu_count_spec"] = show(SPEC)
    R.check(term == SPEC, "R-CPU-TERM", f"cpu_count() normalises to {show(SPEC)}", f.short, show(term),
            f"cpu_count() computes {show(term)} instead of {show(SPEC)}: some configuration (a limit below/above the others, 0, a missing "
            "limit) yields a count that is not the minimum of the applicable limits, or a count below 1", e.loc(f, logical[0].ast))
    # every return of the function is >= 1 by construction or a validated physical count
    R.floor("R-CPU-TERM", 2)


def r_cpu_helpers(e, R):
    # affinity helper: guarded return set
    af = e.prog.funcs[helper_roles(e)["AFF"]]
    p = af.params[0]
    rets = [n for n in func_nodes(af) if isinstance(n, ast.Return)]
    import re as _re
    allowed = {"len(os.sched_getaffinity(0))", "len(<psutil process>.cpu_affinity())", p}
    from .util import inline_locals as _inl
    got = {_re.sub(r"^len\((\w+|psutil\.Process\(\))\.cpu_affinity\(\)\)$", "len(<psutil process>.cpu_affinity())", norm(_inl(e, af, r.value)) if r.value is not None else "None") for r in rets}
    R.check(got <= allowed and p in got and "len(os.sched_getaffinity(0))" in got, "R-CPU-HELPERS",
            "affinity helper returns len(sched_getaffinity(0)), len(psutil affinity) or the OS count", af.short, str(sorted(got)),
            f"the affinity helper returns {sorted(got - allowed)}", e.loc(af, af.node))
    ag = e.cfg(af)
    last = [pn for pn, l in ag.exit.pred]
    R.check(all(isinstance(n.ast, ast.Return) for n in last), "R-CPU-HELPERS", "affinity helper never falls off the end (None would poison min())", af.short, "return",
            "the affinity helper can return None", e.loc(af, af.node))
    # cgroup helper
    cg = e.prog.funcs[helper_roles(e)["CG"]]
    p = cg.params[0]
    g = e.cfg(cg)
    rets = [n for n in g.nodes if n.kind == "stmt" and isinstance(n.ast, ast.Return)]
    ceil = [r for r in rets if isinstance(r.ast.value, ast.Call) and norm(r.ast.value.func) == "math.ceil"]
    other = [r for r in rets if r not in ceil]
    R.check(len(ceil) == 1 and all(norm(r.ast.value) == p for r in other) and len(other) >= 2, "R-CPU-HELPERS",
            "cgroup helper returns ceil(quota/period) or the OS count", cg.short, str([norm(r.ast.value) for r in rets]),
            "the cgroup helper returns something else than ceil(quota/period) or the unchanged OS count", e.loc(cg, cg.node))
    last = [pn for pn, l in g.exit.pred]
    R.check(all(isinstance(n.ast, ast.Return) for n in last), "R-CPU-HELPERS", "cgroup helper never falls off the end", cg.short, "return", "cgroup helper can return None",
            e.loc(cg, cg.node))
    if ceil:
        r = ceil[0]
        arg = r.ast.value.args[0]
        okq = isinstance(arg, ast.BinOp) and isinstance(arg.op, ast.Div) and isinstance(arg.left, ast.Name) and isinstance(arg.right, ast.Name)
        qv, pv = (arg.left.id, arg.right.id) if okq else (None, None)
        R.check(okq and "quota" in qv and "period" in pv, "R-CPU-HELPERS", "cgroup helper: the limit is ceil(quota / period)", cg.short, norm(arg),
                "the quotient is not quota/period (or floor instead of ceil): fractional limits such as 1.5 CPUs are rounded the wrong way",
                e.loc(cg, r.ast))
        # guarded by quota > 0 and period > 0
        # (decided by evaluating the tests that control the return over sample values of the two integers: any spelling of the guard --
        # `q > 0 and p > 0`, nested ifs, the De Morgan form with an early return -- gives the same table)
        from .. import guards as _guards
        ctl = [(t, "T" if g.on_branch(r, t, "T") else "F") for t in g.nodes if t.kind == "test" and (g.on_branch(r, t, "T") or g.on_branch(r, t, "F"))
               and {x.id for x in ast.walk(t.ast) if isinstance(x, ast.Name)} & {qv, pv} and not any(isinstance(x, ast.Constant) and isinstance(x.value, str) for x in ast.walk(t.ast))]
        reach_bad = None
        try:
            for qval in (-1, 0, 1, 3):
                for pval in (-1, 0, 1, 3):
                    env = {"Q": qval, "P": pval}
                    taken = all(bool(_guards.eval_guard(t.ast, env, lambda x: "Q" if isinstance(x, ast.Name) and x.id == qv else "P" if isinstance(x, ast.Name) and x.id == pv else None))
                                == (lab == "T") for t, lab in ctl)
                    if taken and not (qval > 0 and pval > 0) and reach_bad is None:
                        reach_bad = (qval, pval)
        except _guards.Inconclusive as ex:
            raise AnalysisError(f"cgroup helper: the guard of the quotient is not a term over quota and period: {ex}")
        gts = sorted(norm(t.ast) for t, _ in ctl)
        R.check(bool(ctl) and reach_bad is None, "R-CPU-HELPERS", "cgroup helper: ceil(quota/period) only when quota > 0 and period > 0", cg.short,
                f"guards {gts}", "a non-positive quota (cgroup v1 '-1' = unlimited) or period is used as a limit: cpu_count() collapses to 1 "
                "or divides by zero" + (f" (the quotient is reached with quota={reach_bad[0]}, period={reach_bad[1]})" if reach_bad else ""), e.loc(cg, r.ast))
        # both are converted with int() before the comparison
        conv = {n.targets[0].id for n in func_nodes(cg) if isinstance(n, ast.Assign) and isinstance(n.targets[0], ast.Name) and isinstance(n.value, ast.Call)
                and norm(n.value.func) == "int"}
        R.check({qv, pv} <= conv, "R-CPU-HELPERS", "cgroup helper: quota and period are parsed as integers", cg.short, f"int() on {sorted(conv)}",
                "string comparison of quota/period", e.loc(cg, r.ast))
        # the "max" quota means no limit
        mx = [t for t in g.nodes if t.kind == "test" and isinstance(t.ast, ast.Compare) and isinstance(t.ast.comparators[0], ast.Constant)
              and t.ast.comparators[0].value == "max" and isinstance(t.ast.ops[0], ast.Eq)]
        okm = bool(mx) and any(g.on_branch(o, mx[0], "T") for o in other) and g.on_branch(r, mx[0], "F")
        R.check(okm, "R-CPU-HELPERS", "cgroup helper: quota 'max' (v2) / absent files mean no limit", cg.short, "if cpu_quota_us == 'max': return os_cpu_count",
                "cgroup v2 'max' is not treated as unlimited", e.loc(cg, cg.node))
    # file layouts: v2 cpu.max first, then v1 pair, else default "max"
    lits = {x.value for x in ast.walk(cg.node) if isinstance(x, ast.Constant) and isinstance(x.value, str) and x.value.startswith("/sys/fs/cgroup")}
    R.check(lits == {"/sys/fs/cgroup/cpu.max", "/sys/fs/cgroup/cpu/cpu.cfs_quota_us", "/sys/fs/cgroup/cpu/cpu.cfs_period_us"}, "R-CPU-HELPERS",
            "cgroup helper reads cpu.max (v2) and cfs_quota_us / cfs_period_us (v1)", cg.short, str(sorted(lits)), "cgroup file layout changed", e.loc(cg, cg.node))
    # ---- which files are read in which layout (scenario obligations): v2 wins, else v1 (both files), else no limit
    from . import scenario as SC
    fvars = {}
    for n in func_nodes(cg):
        if isinstance(n, ast.Assign) and isinstance(n.targets[0], ast.Name) and isinstance(n.value, ast.Constant) and isinstance(n.value.value, str) \
                and n.value.value.startswith("/sys/fs/cgroup"):
            fvars[n.targets[0].id] = n.value.value
    # the files are identified by their literal path; a use is the literal itself or a local / module name bound to it (names bound once to
    # a literal are folded by the canonicaliser)
    name_of = dict(fvars)                      # local name -> literal
    fvars = {v: v for v in lits}
    v2 = [k for k in fvars if k.endswith("cpu.max")]
    v1 = sorted(k for k in fvars if "cfs_" in k)
    if len(v2) != 1 or len(v1) != 2:
        raise AnalysisError("cgroup helper: file name variables not recognised")
    def is_nm(x, nm):
        return (isinstance(x, ast.Name) and name_of.get(x.id) == nm) or (isinstance(x, ast.Constant) and x.value == nm)
    exists = lambda nm: (lambda x: isinstance(x, ast.Call) and norm(x.func).endswith("path.exists") and x.args and is_nm(x.args[0], nm))
    opens = lambda nm: (lambda n: any(isinstance(c.func, ast.Name) and c.func.id == "open" and c.args and is_nm(c.args[0], nm)
                                      for c in calls_in(n)) or (n.kind == "with_enter" and isinstance(n.ast.context_expr, ast.Call) and norm(n.ast.context_expr.func) == "open"
                                                                and n.ast.context_expr.args and is_nm(n.ast.context_expr.args[0], nm)))
    dflt = lambda n: n.kind == "stmt" and isinstance(n.ast, ast.Assign) and isinstance(n.ast.value, ast.Constant) and n.ast.value.value == "max"
    SC.must(e, R, "R-CPU-HELPERS", cg, "cgroup v2 (cpu.max exists)", [(exists(v2[0]), "T")], opens(v2[0]), "reads cpu.max", "a cgroup v2 CPU limit is ignored: cpu_count() oversubscribes the container")
    for nm in v1:
        SC.never(e, R, "R-CPU-HELPERS", cg, "cgroup v2 (cpu.max exists)", [(exists(v2[0]), "T")], opens(nm), f"a read of the v1 file {fvars[nm]}", "v1 files override the v2 limit")
        SC.must(e, R, "R-CPU-HELPERS", cg, "cgroup v1 (both cfs files exist, no cpu.max)", [(exists(v2[0]), "F")] + [(exists(k), "T") for k in v1], opens(nm),
                f"reads {fvars[nm].rsplit('/', 1)[-1]}", "a cgroup v1 CPU limit is ignored")
    SC.never(e, R, "R-CPU-HELPERS", cg, "no cpu.max file", [(exists(v2[0]), "F")], opens(v2[0]), "an open of cpu.max", "FileNotFoundError out of cpu_count() on cgroup v1 / non-Linux hosts")
    for miss in v1:
        facts = [(exists(v2[0]), "F")] + [(exists(k), "F" if k == miss else "T") for k in v1]
        SC.must(e, R, "R-CPU-HELPERS", cg, f"no cgroup files ({fvars[miss].rsplit('/', 1)[-1]} missing)", facts, dflt, "assumes no limit ('max')", "cpu_count() fails on hosts without cgroup files")
        for nm in v1:
            SC.never(e, R, "R-CPU-HELPERS", cg, f"no cgroup files ({fvars[miss].rsplit('/', 1)[-1]} missing)", facts, opens(nm), f"an open of {fvars[nm].rsplit('/', 1)[-1]}",
                     "FileNotFoundError out of cpu_count()")
    # which text becomes the numerator?  cpu.max holds "<quota> <period>" in that order; the v1 quota file feeds the numerator
    if ceil:
        arg = ceil[0].ast.value.args[0]
        if isinstance(arg, ast.BinOp) and isinstance(arg.left, ast.Name) and isinstance(arg.right, ast.Name):
            num, den = arg.left.id, arg.right.id
            withs = [n for n in func_nodes(cg) if isinstance(n, ast.With)]
            for w_ in withs:
                ce = w_.items[0].context_expr
                fname = (name_of.get(ce.args[0].id) if isinstance(ce.args[0], ast.Name) else ce.args[0].value if isinstance(ce.args[0], ast.Constant) else None) \
                    if isinstance(ce, ast.Call) and norm(ce.func) == "open" and ce.args else None
                if fname is None:
                    continue
                for st in w_.body:
                    if not isinstance(st, ast.Assign):
                        continue
                    t0 = st.targets[0]
                    if fname == v2[0]:
                        okv2 = isinstance(t0, ast.Tuple) and [getattr(x, "id", None) for x in t0.elts] == [num, den] and isinstance(st.value, ast.Call) \
                            and isinstance(st.value.func, ast.Attribute) and st.value.func.attr == "split"
                        R.check(okv2, "R-CPU-HELPERS", "cgroup v2: cpu.max is '<quota> <period>': the first field is the numerator", cg.short, norm(st)[:70],
                                "quota and period of cpu.max are swapped (period / quota): a 2.5-CPU limit yields 1, a 0.5-CPU limit yields 2", e.loc(cg, st))
                    elif fname in v1:
                        want = num if "quota" in fvars[fname] else den
                        R.check(isinstance(t0, ast.Name) and t0.id == want, "R-CPU-HELPERS", f"cgroup v1: {fvars[fname].rsplit('/', 1)[-1]} feeds the "
                                f"{'numerator' if want == num else 'denominator'}", cg.short, norm(st)[:70], "the v1 quota and period files are read into each other's variable",
                                e.loc(cg, st))
    # affinity helper: sched_getaffinity is used exactly when the platform has it
    has = lambda x: isinstance(x, ast.Call) and isinstance(x.func, ast.Name) and x.func.id == "hasattr" and len(x.args) == 2 and isinstance(x.args[1], ast.Constant) \
        and x.args[1].value == "sched_getaffinity"
    sga = lambda n: any(norm(c.func).endswith("sched_getaffinity") for c in calls_in(n))
    SC.must(e, R, "R-CPU-HELPERS", af, "os.sched_getaffinity exists", [(has, "T")], sga, "asks the OS for the affinity mask", "the affinity mask (taskset, container cpusets) is ignored")
    SC.never(e, R, "R-CPU-HELPERS", af, "os.sched_getaffinity does not exist", [(has, "F")], sga, "a call of os.sched_getaffinity", "AttributeError out of cpu_count() on macOS / Windows")
    R.floor("R-CPU-HELPERS", 22)


def r_cpu_physical(e, R):
    f = e.prog.func(f"{CX}:cpu_count")
    g = e.cfg(f)
    flag = f.params[0]
    tests = [t for t in g.nodes if t.kind == "test" and isinstance(t.ast, ast.Name) and t.ast.id == flag]
    rets = [n for n in g.nodes if n.kind == "stmt" and isinstance(n.ast, ast.Return)]
    phys = [r for r in rets if any(g.on_branch(r, t, "T") for t in tests)]
    tb = TermBuilder(e, _leaves(e))
    user_term = normalise(("min", (("leaf", "AFF"), ("leaf", "CG"), ("leaf", "ENV"))))
    kinds = {}
    for r in phys:
        v = r.ast.value
        # (a) user-limited: max(user, 1) guarded by user < OS
        try:
            t = normalise(tb.term(f, v))
        except AnalysisError:
            t = None
        if t == normalise(("max", (user_term, ("const", 1)))):
            gd = [x for x in g.nodes if x.kind == "test" and isinstance(x.ast, ast.Compare) and g.on_branch(r, x, "T")]
            okg = False
            for x in gd:
                c = x.ast
                if len(c.ops) == 1 and isinstance(c.ops[0], ast.Lt):
                    try:
                        lt = normalise(tb.term(f, c.left))
                        rt = normalise(tb.term(f, c.comparators[0]))
                        okg = okg or (lt == user_term and rt == ("leaf", "OS"))
                    except AnalysisError:
                        pass
            kinds["user"] = okg
        elif t == SPEC:
            kinds["fallback"] = True
        elif isinstance(v, ast.Name):
            # the physical count, guarded by "found"
            gd = [x for x in g.nodes if x.kind == "test" and isinstance(x.ast, ast.Compare) and g.on_branch(r, x, "T")
                  and isinstance(x.ast.comparators[0], ast.Constant) and x.ast.comparators[0].value == "not found" and isinstance(x.ast.ops[0], ast.NotEq)
                  and isinstance(x.ast.left, ast.Name) and x.ast.left.id == v.id]
            kinds["physical"] = bool(gd)
        else:
            kinds["other:" + norm(v)[:30]] = False
    R.check(kinds.get("user") is True, "R-CPU-PHYSICAL", "only_physical_cores: a user-imposed limit below the OS count wins, as max(limit, 1)", f.short, str(kinds),
            "with only_physical_cores=True a user limit (affinity/cgroup/env) below the OS count is not respected, or can yield 0", e.loc(f, f.node))
    R.check(kinds.get("physical") is True, "R-CPU-PHYSICAL", "only_physical_cores: the detected physical count is returned only when detection succeeded", f.short, str(kinds),
            "the physical count is returned although detection reported 'not found'", e.loc(f, f.node))
    R.check(kinds.get("fallback") is True, "R-CPU-PHYSICAL", "only_physical_cores: falls back to the logical value when detection fails", f.short, str(kinds),
            "no fallback to the logical count", e.loc(f, f.node))
    R.check(all(v for v in kinds.values()) and len(kinds) == 3, "R-CPU-PHYSICAL", "only_physical_cores: exactly three kinds of return", f.short, str(kinds),
            f"unexpected return in the physical-cores path: {kinds}", e.loc(f, f.node))
    # the warning is issued only when an exception was reported (first failure)
    warns = [n for n in g.nodes for c in calls_in(n) if norm(c.func) == "warnings.warn"]
    okw = bool(warns) and all(any(x.kind == "test" and none_test(x.ast) and g.on_branch(w, x, none_test(x.ast)[1]) for x in g.nodes) for w in warns)
    R.check(okw, "R-CPU-PHYSICAL", "the fallback warns only when the probe reported an exception (i.e. once)", f.short, "if exception is not None: warn",
            "the fallback warning is unconditional (every call) or never issued", e.loc(f, f.node))
    # the probe: validation inside the try, any failure -> ('not found', exc), cache written on every path, cached early return
    # the probe: the function of the module that keeps a module-level cache (declares a global) and returns a pair
    cands = [f_ for q_, f_ in e.prog.funcs.items() if f_.module.name == CX and f_.kind != "module" and f_.globals_decl
             and any(isinstance(n, ast.Return) and isinstance(n.value, ast.Tuple) and len(n.value.elts) == 2 for n in func_nodes(f_))]
    if len(cands) != 1:
        raise AnalysisError(f"anchor vanished: the cached physical-core probe ({[c.short for c in cands]})")
    pf = cands[0]
    pg = e.cfg(pf)
    cache = sorted(pf.globals_decl)
    R.check(len(cache) == 1, "R-CPU-PHYSICAL", "the probe caches its result in one module global", pf.short, str(cache), "cache global missing", e.loc(pf, pf.node))
    if cache:
        cv = cache[0]
        stores = [n for n in pg.nodes if n.kind == "stmt" and isinstance(n.ast, ast.Assign) and isinstance(n.ast.targets[0], ast.Name) and n.ast.targets[0].id == cv]
        early = [n for n in pg.nodes if n.kind == "stmt" and isinstance(n.ast, ast.Return) and any(
            x.kind == "test" and none_test(x.ast) and isinstance(none_test(x.ast)[0], ast.Name) and none_test(x.ast)[0].id == cv and pg.on_branch(n, x, none_test(x.ast)[1])
            for x in pg.nodes)]
        R.check(bool(early), "R-CPU-PHYSICAL", "the probe returns the cached value when there is one", pf.short, f"if {cv} is not None: return", "the cache is never used", e.loc(pf, pf.node))
        finals = [n for n in pg.nodes if n.kind == "stmt" and isinstance(n.ast, ast.Return) and n not in early]
        R.check(bool(stores) and all(any(pg.dominates(s, r) for s in stores) for r in finals), "R-CPU-PHYSICAL", "the probe writes the cache on every non-cached path",
                pf.short, f"{cv} = cpu_count_physical", "a failed probe is not cached: the subprocess probe (and the warning) repeat on every call", e.loc(pf, pf.node))
        # validation >= 1 inside the try whose handler converts to 'not found'
        val = [n for n in pg.nodes if n.kind == "test" and isinstance(n.ast, ast.Compare) and isinstance(n.ast.ops[0], ast.Lt)
               and isinstance(n.ast.comparators[0], ast.Constant) and n.ast.comparators[0].value == 1]
        hs = [h for h in pg.nodes if h.kind == "except"]
        okv = bool(val) and bool(hs) and all(any(isinstance(m.ast, ast.Raise) and pg.on_branch(m, v, "T") for m in pg.nodes if m.kind == "stmt") for v in val) \
            and all(any(m is h for m, l in v.succ if l == "exc") or True for v in val for h in hs)
        raise_in_try = [m for m in pg.nodes if m.kind == "stmt" and isinstance(m.ast, ast.Raise) and any(pg.on_branch(m, v, "T") for v in val)]
        okv = okv and all(any(t is h for t, l in m.succ if l == "exc") for m in raise_in_try for h in hs)
        R.check(okv, "R-CPU-PHYSICAL", "the probe rejects counts < 1 inside the try (converted to 'not found')", pf.short, "if cpu_count_physical < 1: raise ValueError",
                "a detected count of 0 is returned as the number of physical cores (or the validation error escapes)", e.loc(pf, pf.node))
        okh = bool(hs) and all(norm(h.ast.type) == "Exception" for h in hs) and all(
            any(isinstance(s, ast.Assign) and isinstance(s.value, ast.Constant) and s.value.value == "not found" for s in h.ast.body) and
            any(isinstance(s, ast.Assign) and isinstance(s.value, ast.Name) and s.value.id == h.ast.name for s in h.ast.body) for h in hs)
        R.check(okh, "R-CPU-PHYSICAL", "any probe failure becomes ('not found', exception)", pf.short, "except Exception as e: ...", "a probe failure propagates out of cpu_count",
                e.loc(pf, pf.node))
    # the probe hands out the exception of a failed detection exactly once (later calls hit the cache): a call of it whose answer
    # is then dropped on some path -- e.g. probing before the "user limit wins" early return -- consumes that one report, and the
    # fallback of a later call warns never instead of once
    pcalls = [(n, c) for n in g.nodes for c in calls_in(n) if e.callees_of(c) & {pf.qualname}]
    R.check(bool(pcalls), "R-CPU-PHYSICAL", "cpu_count consults the cached probe", f.short, pf.short, "the physical-core probe is never called", e.loc(f, f.node))
    for n, c in pcalls:
        st = stmt_of(e, f, c)
        res = [x.id for tg in getattr(st, "targets", []) for x in ast.walk(tg) if isinstance(x, ast.Name)]
        uses = lambda m: m is not n and m.ast is not None and any(isinstance(x, ast.Name) and x.id in res and isinstance(x.ctx, ast.Load) for x in _walk_noscope(
            m.ast.context_expr if m.kind == "with_enter" else m.ast))
        dropped = g.find_path(n, lambda m: m.kind == "stmt" and isinstance(m.ast, ast.Return), avoid=uses, use_exc=False) if res else [n]
        R.check(dropped is None, "R-CPU-PHYSICAL", "the probe's answer (count, one-shot exception) is examined on every path that follows the call", f.short, norm(st)[:70],
                "cpu_count calls the physical-core probe and then returns on some path without looking at its answer: the probe reports the exception of a "
                "failed detection only on the call that ran it, so that report is lost and a later call falls back to the logical value with no warning at all",
                e.loc(f, c), g.fmt_path(dropped) if dropped else None)
    R.floor("R-CPU-PHYSICAL", 11)
