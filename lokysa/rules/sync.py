"""Synchronisation primitives (C13, C14).

R-SEM-LIFE, R-CTX-FACTORY, R-SEM-TABLE, R-STATE-SYM, R-COND-PAIR,
R-COND-TOKENS, R-EVENT-LOCKED.
"""
import ast

from ..model import func_nodes, norm, AnalysisError
from ..cfg import calls_in, _walk_noscope
from .util import (none_test, effect_nodes, calls_method_of, stmt_of, parent, cfg_nodes)

SY = "loky.backend.synchronize"
CX = "loky.backend.context"
RT = "loky.backend.resource_tracker"


def _cls(e, name):
    return e.prog.cls(f"{SY}:{name}")


def _m(e, cls, name):
    c = _cls(e, cls)
    if name not in c.methods:
        raise AnalysisError(f"anchor vanished: {cls}.{name}")
    return c.methods[name]


def _reducers_field(e, clsq):
    """The field of a loky queue class that its constructor fills from the public `reducers` argument."""
    ini = e.prog.cls(clsq).methods["__init__"]
    for n in func_nodes(ini):
        if isinstance(n, ast.Assign) and isinstance(n.targets[0], ast.Attribute) and isinstance(n.targets[0].value, ast.Name) and n.targets[0].value.id == ini.params[0] \
                and isinstance(n.value, ast.Name) and n.value.id == "reducers":
            return n.targets[0].attr
    raise AnalysisError(f"{clsq}: the field holding the reducers is not recognised")


def binder_method(e, cls):
    """The method of `cls` that (re)binds self.acquire / self.release (called by the constructor and by __setstate__)."""
    c = _cls(e, cls)
    out = [m for nm, m in c.methods.items() if nm not in ("__init__", "__setstate__") and
           {"acquire", "release"} <= {n.attr for n in func_nodes(m) if isinstance(n, ast.Attribute) and isinstance(n.ctx, ast.Store) and isinstance(n.value, ast.Name)
                                      and m.params and n.value.id == m.params[0]}]
    if len(out) != 1:
        raise AnalysisError(f"anchor vanished: the method of {cls} binding acquire/release")
    return out[0]


def calls_binder(e, func, cls):
    b = binder_method(e, cls)
    return any(isinstance(n, ast.Call) and (b.qualname in e.callees_of(n) or norm(n.func) == f"{func.params[0]}.{b.qualname.split('.')[-1]}") for n in func_nodes(func))


def cleanup_routine(e):
    """The routine that unlinks a named semaphore and unregisters it from the tracker."""
    c = _cls(e, "SemLock")
    out = [m for m in c.methods.values() if any(isinstance(n, ast.Call) and _is_call_to(n, "sem_unlink") for n in func_nodes(m))]
    if not out:
        # the same routine as a module-level function of the module
        out = [f for q, f in e.prog.funcs.items() if q.startswith(SY + ":") and f.cls is None and f.kind == "def"
               and any(isinstance(n, ast.Call) and _is_call_to(n, "sem_unlink") for n in func_nodes(f))]
    if len(out) != 1:
        raise AnalysisError("anchor vanished: the SemLock routine calling sem_unlink")
    return out[0]


def _is_call_to(c, dotted_suffix):
    return norm(c.func) == dotted_suffix or norm(c.func).endswith("." + dotted_suffix)


# ---------------------------------------------------------------------------
# R-SEM-LIFE (C13)
# ---------------------------------------------------------------------------

def r_sem_life(e, R):
    init = _m(e, "SemLock", "__init__")
    g = e.cfg(init)
    create = [n for n in g.nodes if n.kind == "stmt" and isinstance(n.ast, ast.Assign) and isinstance(n.ast.targets[0], ast.Attribute)
              and n.ast.targets[0].attr == "_semlock" and isinstance(n.ast.value, ast.Call)]
    reg = [(n, c) for n in g.nodes for c in calls_in(n) if _is_call_to(c, "register") and len(c.args) == 2
           and any(v[0] in ("bound",) or v[0] == "ext" for v in e.pt.ev(init, c.func)) and "resource_tracker" in norm(c.func)]
    fin = [(n, c) for n in g.nodes for c in calls_in(n) if _is_call_to(c, "Finalize")]
    R.check(len(create) >= 1 and bool(reg) and bool(fin), "R-SEM-LIFE", "SemLock.__init__: creates the semaphore, registers it, installs a finaliser",
            init.short, "register / Finalize", "a created named semaphore is not registered with the tracker or has no finaliser", e.loc(init, init.node))
    regn = {n for n, _ in reg}
    finn = {n for n, _ in fin}
    for cn in create:
        for S, nm in ((regn, "registration with the resource tracker"), (finn, "finaliser")):
            esc = g.escape_path(cn, lambda n, S=S: n in S, use_exc=False)
            R.check(esc is None, "R-SEM-LIFE", f"SemLock.__init__: every path from the creation reaches the {nm}", init.short, nm,
                    f"a path creates the named semaphore and returns without the {nm}: it is never unlinked when its owner dies (leak in /dev/shm)",
                    e.loc(init, cn.ast), g.fmt_path(esc) if esc else None)
    for n, c in reg:
        R.check(isinstance(c.args[1], ast.Constant) and c.args[1].value == "semlock", "R-SEM-LIFE", "SemLock.__init__: registered with type 'semlock'",
                init.short, norm(c), "the semaphore is registered under a type whose cleanup is not sem_unlink", e.loc(init, c))
    for (_, rc) in reg:
        for (_, fc) in fin:
            args = fc.args[2] if len(fc.args) > 2 else next((k.value for k in fc.keywords if k.arg == "args"), None)
            okn = isinstance(args, (ast.Tuple, ast.List)) and len(args.elts) == 1 and norm(args.elts[0]) == norm(rc.args[0])
            R.check(okn, "R-SEM-LIFE", "SemLock.__init__: the finaliser unlinks the name that was registered", init.short,
                    f"{norm(rc.args[0])} / {norm(args) if args is not None else '?'}", "the finaliser and the registration refer to different names", e.loc(init, fc))
            okname = norm(rc.args[0]).endswith("_semlock.name")
            R.check(okname, "R-SEM-LIFE", "SemLock.__init__: the registered name is the name of the created semaphore", init.short, norm(rc.args[0]),
                    "the registered name is not the created semaphore's name", e.loc(init, rc))
            cb = {v[1] for v in e.pt.ev(init, fc.args[1]) if v[0] == "func"} if len(fc.args) > 1 else set()
            R.check(cb == {cleanup_routine(e).qualname}, "R-SEM-LIFE", "SemLock.__init__: the finaliser callback is the cleanup routine", init.short,
                    norm(fc)[:70], f"the finaliser calls {sorted(cb)}", e.loc(init, fc))
            R.check(isinstance(fc.args[0], ast.Name) and fc.args[0].id == init.params[0], "R-SEM-LIFE", "SemLock.__init__: the finaliser is tied to the object's lifetime",
                    init.short, norm(fc)[:40], "the finaliser is not attached to the semaphore object", e.loc(init, fc))
    # _cleanup: unlink then, in finally, unregister
    cl = cleanup_routine(e)
    cg = e.cfg(cl)
    unl = [n for n in cg.nodes for c in calls_in(n) if _is_call_to(c, "sem_unlink")]
    unr = [n for n in cg.nodes for c in calls_in(n) if _is_call_to(c, "unregister") and len(c.args) == 2 and isinstance(c.args[1], ast.Constant)
           and c.args[1].value == "semlock"]
    R.check(bool(unl) and bool(unr), "R-SEM-LIFE", "_cleanup: unlinks and unregisters", cl.short, "sem_unlink / unregister", "cleanup does not unlink+unregister",
            e.loc(cl, cl.node))
    esc = cg.find_path(cg.entry, lambda n: n is cg.exit or n is cg.raise_exit, avoid=unr, use_exc=True)
    R.check(esc is None, "R-SEM-LIFE", "_cleanup: unregisters on every path, including a failing unlink (finally)", cl.short, "finally: unregister",
            "when sem_unlink fails the name stays registered: the tracker later reports a leak / unlinks a name reused by someone else", e.loc(cl, cl.node))
    R.check(all(not cg.path_exists(u, lambda n: n in unl, use_exc=True) for u in unr), "R-SEM-LIFE", "_cleanup: unlink happens before unregister",
            cl.short, "unlink then unregister", "the name is unregistered before it is unlinked: a crash in between leaks the semaphore", e.loc(cl, cl.node))
    for n in unl + unr:
        for c in calls_in(n):
            if c.args and (_is_call_to(c, "sem_unlink") or _is_call_to(c, "unregister")):
                R.check(isinstance(c.args[0], ast.Name) and c.args[0].id == cl.params[0], "R-SEM-LIFE", f"_cleanup: {norm(c.func).split('.')[-1]} applies to the name it was given",
                        cl.short, norm(c), "cleanup unlinks/unregisters another name", e.loc(cl, c))
    hs = [h for h in cg.nodes if h.kind == "except"]
    R.check(all(h.ast.type is not None and norm(h.ast.type) == "FileNotFoundError" for h in hs), "R-SEM-LIFE", "_cleanup: only 'already unlinked' is tolerated",
            cl.short, "except FileNotFoundError", "cleanup swallows other errors", e.loc(cl, cl.node))
    # unpickled copies never register / unlink / finalise
    ss = _m(e, "SemLock", "__setstate__")
    w = e.func_calls_trans(ss.qualname, lambda f, c: _is_call_to(c, "register") or _is_call_to(c, "sem_unlink") or _is_call_to(c, "Finalize")
                           or _is_call_to(c, "unregister"))
    R.check(w is None, "R-SEM-LIFE", "SemLock.__setstate__: an unpickled copy neither registers, unlinks nor installs a finaliser", ss.short,
            norm(w[-1][1]) if w else "", "a copy unpickled in a child registers/unlinks the semaphore: it disappears while the parent still uses it "
            "(or the refcount is off)", e.loc(ss, ss.node))
    # every primitive is built through SemLock.__init__
    for cname in ("Semaphore", "BoundedSemaphore", "Lock", "RLock"):
        m = _m(e, cname, "__init__")
        mg = e.cfg(m)
        base = {n for n in mg.nodes for c in calls_in(n) if init.qualname in e.callees_of(c)}
        esc = mg.escape_path(mg.entry, lambda n: n in base, use_exc=False)
        R.check(bool(base) and esc is None, "R-SEM-LIFE", f"{cname}.__init__ goes through SemLock.__init__ (registration + finaliser)", m.short,
                "SemLock.__init__", f"{cname} creates its semaphore without SemLock.__init__: never registered/unlinked", e.loc(m, m.node))
    ci = _m(e, "Condition", "__init__")
    sems = [n for n in func_nodes(ci) if isinstance(n, ast.Assign) and isinstance(n.value, ast.Call) and
            any(v == ("class", f"{SY}:Semaphore") for v in e.pt.ev(ci, n.value.func))]
    R.check(len(sems) == 3, "R-SEM-LIFE", "Condition is built from three loky Semaphores and a loky lock", ci.short, "Semaphore(0) x3", "Condition not built from loky semaphores",
            e.loc(ci, ci.node))
    lk = [n for n in func_nodes(ci) if isinstance(n, ast.Assign) and isinstance(n.targets[0], ast.Attribute) and n.targets[0].attr == "_lock"]
    okl = bool(lk) and any(v == ("class", f"{SY}:RLock") for x in ast.walk(lk[0].value) if isinstance(x, ast.Call) for v in e.pt.ev(ci, x.func))
    R.check(okl, "R-SEM-LIFE", "Condition: default lock is loky's RLock", ci.short, "lock or RLock()", "Condition default lock is not loky's RLock", e.loc(ci, ci.node))
    ei = _m(e, "Event", "__init__")
    oke = any(isinstance(n, ast.Call) and any(v == ("class", f"{SY}:Condition") for v in e.pt.ev(ei, n.func)) for n in func_nodes(ei)) and \
        any(isinstance(n, ast.Call) and any(v == ("class", f"{SY}:Semaphore") for v in e.pt.ev(ei, n.func)) for n in func_nodes(ei))
    R.check(oke, "R-SEM-LIFE", "Event is built from loky's Condition and Semaphore", ei.short, "Condition(Lock()) + Semaphore(0)", "Event not built from loky primitives",
            e.loc(ei, ei.node))
    R.floor("R-SEM-LIFE", 18)


def r_ctx_factory(e, R):
    """LokyContext factory methods return loky's own classes."""
    ctx = e.prog.cls(f"{CX}:LokyContext")
    want = {"Semaphore": f"{SY}:Semaphore", "BoundedSemaphore": f"{SY}:BoundedSemaphore", "Lock": f"{SY}:Lock", "RLock": f"{SY}:RLock",
            "Condition": f"{SY}:Condition", "Event": f"{SY}:Event", "Queue": "loky.backend.queues:Queue", "SimpleQueue": "loky.backend.queues:SimpleQueue"}
    for nm, cq in want.items():
        m = ctx.methods.get(nm)
        if m is None:
            R.fail("R-CTX-FACTORY", "LokyContext", nm, f"LokyContext.{nm} is missing on the POSIX arm: multiprocessing's own primitive (not tracked by "
                   "loky's resource tracker) would be used", None)
            continue
        rets = [n for n in func_nodes(m) if isinstance(n, ast.Return)]
        ok = bool(rets)
        for r in rets:
            cls = {v[2] for v in e.pt.ev(m, r.value) if v[0] == "obj"}
            ok = ok and cls == {cq}
        R.check(ok, "R-CTX-FACTORY", f"LokyContext.{nm}() returns loky's {cq.split(':')[1]}", m.short, norm(rets[0].value) if rets else "",
                f"LokyContext.{nm} does not return loky's own class: its semaphores are not registered with loky's tracker / reducers are ignored",
                e.loc(m, m.node))
    proc = ctx.attrs.get("Process")
    R.check(bool(proc) and any(v == ("class", "loky.backend.process:LokyProcess") for x in proc for v in e.pt.ev(e.prog.modules[CX].body_func, x)),
            "R-CTX-FACTORY", "LokyContext.Process is LokyProcess", "LokyContext", "Process = LokyProcess", "the loky context does not start LokyProcess", None)
    R.floor("R-CTX-FACTORY", 9)


# ---------------------------------------------------------------------------
# R-SEM-TABLE (C14)
# ---------------------------------------------------------------------------

def r_sem_table(e, R):
    mod = e.prog.modules[SY]
    consts = {}
    for n in func_nodes(mod.body_func):
        if isinstance(n, ast.Assign) and isinstance(n.targets[0], ast.Tuple) and isinstance(n.value, ast.Call) and norm(n.value) == "range(2)":
            for i, t in enumerate(n.targets[0].elts):
                consts[t.id] = i
        if isinstance(n, ast.Assign) and isinstance(n.targets[0], ast.Name) and n.targets[0].id == "SEM_VALUE_MAX":
            consts["SEM_VALUE_MAX"] = norm(n.value)
    R.check(consts.get("RECURSIVE_MUTEX") == 0 and consts.get("SEMAPHORE") == 1, "R-SEM-TABLE", "kind constants: RECURSIVE_MUTEX=0, SEMAPHORE=1 (the C API's values)",
            SY, f"{consts}", "the kind constants no longer match the C implementation (a Lock would become recursive or vice versa)", None)
    R.check(str(consts.get("SEM_VALUE_MAX", "")).endswith("SemLock.SEM_VALUE_MAX"), "R-SEM-TABLE", "SEM_VALUE_MAX is the C implementation's maximum", SY,
            str(consts.get("SEM_VALUE_MAX")), "SEM_VALUE_MAX is not the platform maximum", None)
    init = _m(e, "SemLock", "__init__")
    spec = {"Lock": ("SEMAPHORE", "1", "1"), "RLock": ("RECURSIVE_MUTEX", "1", "1"),
            "Semaphore": ("SEMAPHORE", "value", "SEM_VALUE_MAX"), "BoundedSemaphore": ("SEMAPHORE", "value", "value")}
    for cname, want in spec.items():
        m = _m(e, cname, "__init__")
        calls = [c for c in func_nodes(m) if isinstance(c, ast.Call) and init.qualname in e.callees_of(c)]
        ok = False
        got = None
        for c in calls:
            args = list(c.args)
            if args and isinstance(args[0], ast.Name) and args[0].id == m.params[0]:
                args = args[1:]  # explicit SemLock.__init__(self, ...)
            got = tuple(norm(a_) for a_ in args[:3])
            ok = got == want
        R.check(ok, "R-SEM-TABLE", f"{cname}: (kind, value, maxvalue) = {want}", m.short, f"{got}",
                f"{cname} is built with (kind, value, maxvalue) = {got} instead of {want}: "
                + {"Lock": "a Lock that can be released twice / is recursive", "RLock": "an RLock that is not re-entrant for its owner",
                   "Semaphore": "a Semaphore with a wrong bound", "BoundedSemaphore": "a BoundedSemaphore that accepts over-release"}[cname], e.loc(m, m.node))
        if cname in ("Semaphore", "BoundedSemaphore"):
            R.check(len(m.params) == 2 and m.params[1] == "value", "R-SEM-TABLE", f"{cname}: the initial value is the constructor argument", m.short, "value",
                    "initial value not taken from the argument", e.loc(m, m.node))
    # the counting semaphores of Condition (sleepers, woken, wake-up tokens) and the flag of Event start at 0: the token balance of
    # wait / notify (R-COND-TOKENS) and "an Event starts unset" are stated relative to that
    for cname in ("Condition", "Event"):
        ci_ = _m(e, cname, "__init__")
        sem_calls = [c for c in func_nodes(ci_) if isinstance(c, ast.Call) and any(v[0] == "class" and v[1].endswith(":Semaphore") for v in e.pt.ev(ci_, c.func))]
        for c in sem_calls:
            v0 = c.args[0] if c.args else next((k.value for k in c.keywords if k.arg == "value"), None)
            R.check(isinstance(v0, ast.Constant) and v0.value == 0 and not isinstance(v0.value, bool), "R-SEM-TABLE", f"{cname}: `{norm(c)}` starts at 0", ci_.short, norm(c),
                    f"a counting semaphore of {cname} does not start at 0: " + ("a fresh Event is already set" if cname == "Event" else
                    "the first notify finds a phantom sleeper / woken waiter or a stale wake-up token (a wait returns without a notify, or notify blocks for a waiter "
                    "that does not exist)"), e.loc(ci_, c))
        if not sem_calls:
            raise AnalysisError(f"{cname}.__init__: no Semaphore construction found")
    # SemLock.__init__ passes (kind, value, maxvalue, name, unlink_now=False) in that order
    g = e.cfg(init)
    for n in func_nodes(init):
        if isinstance(n, ast.Call) and norm(n.func) == "_SemLock":
            a3 = [norm(x) for x in n.args[:3]]
            R.check(a3 == init.params[1:4], "R-SEM-TABLE", "SemLock.__init__: forwards (kind, value, maxvalue) in order to the C semaphore", init.short, norm(n)[:70],
                    f"the C semaphore is created with {a3} instead of {init.params[1:4]}", e.loc(init, n))
            un = n.args[4] if len(n.args) > 4 else None
            okd = (isinstance(un, ast.Constant) and un.value is False) or (
                isinstance(un, ast.Name) and all(isinstance(d, ast.Constant) and d.value is False for d in e.local_defs(init, un.id)))
            R.check(okd, "R-SEM-TABLE", "SemLock.__init__: unlink_now is False (the name must stay until the finaliser/tracker unlinks it)", init.short, norm(n)[:70],
                    "the semaphore name is unlinked at creation: children cannot rebuild it by name", e.loc(init, n))
    # methods delegate to the C object
    mm = binder_method(e, "SemLock")
    okm = {norm(n.targets[0]): norm(n.value) for n in func_nodes(mm) if isinstance(n, ast.Assign)}
    R.check(okm.get("self.acquire") == "self._semlock.acquire" and okm.get("self.release") == "self._semlock.release", "R-SEM-TABLE",
            "SemLock: acquire/release are the C object's own methods", mm.short, str(okm), "acquire/release do not delegate to the C semaphore", e.loc(mm, mm.node))
    en, ex = _m(e, "SemLock", "__enter__"), _m(e, "SemLock", "__exit__")
    oke = any(isinstance(n, ast.Call) and norm(n.func) == "self._semlock.acquire" for n in func_nodes(en)) and \
        any(isinstance(n, ast.Call) and norm(n.func) == "self._semlock.release" for n in func_nodes(ex))
    R.check(oke, "R-SEM-TABLE", "SemLock: `with` acquires on entry and releases on exit", "SemLock", "__enter__/__exit__", "context manager does not pair acquire/release", None)
    R.floor("R-SEM-TABLE", 10)


# ---------------------------------------------------------------------------
# R-STATE-SYM
# ---------------------------------------------------------------------------

def _state_pair(e, R, cq, rule="R-STATE-SYM"):
    c = e.prog.cls(cq)
    gs, ss = c.methods.get("__getstate__"), c.methods.get("__setstate__")
    nm = cq.split(":")[1]
    if gs is None or ss is None:
        R.fail(rule, nm, "__getstate__/__setstate__", f"{nm} lost its custom pickling", None)
        return
    rets = [n for n in func_nodes(gs) if isinstance(n, ast.Return) and isinstance(n.value, ast.Tuple)]
    if len(rets) != 1:
        raise AnalysisError(f"{nm}.__getstate__ does not return a tuple display")
    out = [x.attr if isinstance(x, ast.Attribute) and isinstance(x.value, ast.Name) and x.value.id == gs.params[0] else None for x in rets[0].value.elts]
    ins = None
    for n in func_nodes(ss):
        if isinstance(n, ast.Assign) and isinstance(n.targets[0], ast.Tuple) and isinstance(n.value, ast.Name) and n.value.id == ss.params[1]:
            ins = [t.attr if isinstance(t, ast.Attribute) and isinstance(t.value, ast.Name) and t.value.id == ss.params[0] else None for t in n.targets[0].elts]
    ok = ins is not None and None not in out and out == ins
    R.check(ok, rule, f"{nm}: __getstate__ and __setstate__ agree on {len(out)} fields in order", nm, f"{out} / {ins}",
            f"{nm}.__getstate__ ships {out} but __setstate__ installs {ins}: a copy sent to a worker has fields swapped or missing", e.loc(gs, gs.node))
    return out


def r_state_sym(e, R, which=("Queue", "SimpleQueue", "Condition", "SemLock")):
    if "Queue" in which:
        out = _state_pair(e, R, "loky.backend.queues:Queue")
        R.check(out is not None and _reducers_field(e, "loky.backend.queues:Queue") in out, "R-STATE-SYM", "Queue: the reducers travel with the queue", "Queue", "reducers field",
                "a queue unpickled in a worker loses its custom reducers", None)
    if "SimpleQueue" in which:
        out = _state_pair(e, R, "loky.backend.queues:SimpleQueue")
        R.check(out is not None and _reducers_field(e, "loky.backend.queues:SimpleQueue") in out, "R-STATE-SYM", "SimpleQueue: the reducers travel with the queue", "SimpleQueue", "reducers field",
                "the result queue unpickled in a worker loses its custom reducers: results are pickled with the default reducers", None)
    if "Condition" in which:
        _state_pair(e, R, f"{SY}:Condition")
        ss = _m(e, "Condition", "__setstate__")
        R.check(calls_binder(e, ss, "Condition"), "R-STATE-SYM",
                "Condition.__setstate__ rebinds acquire/release", ss.short, "_make_methods()", "an unpickled Condition has no acquire/release", e.loc(ss, ss.node))
    if "SemLock" in which:
        gs, ss = _m(e, "SemLock", "__getstate__"), _m(e, "SemLock", "__setstate__")
        rets = [n for n in func_nodes(gs) if isinstance(n, ast.Return)]
        from .util import inline_locals
        v = inline_locals(e, gs, rets[0].value) if rets else None
        got = [x.attr if isinstance(x, ast.Attribute) else None for x in v.elts] if isinstance(v, ast.Tuple) else None
        R.check(got == ["handle", "kind", "maxvalue", "name"], "R-STATE-SYM", "SemLock.__getstate__ = (handle, kind, maxvalue, name) as _rebuild expects", gs.short,
                str(got), f"SemLock ships {got}; the C _rebuild expects (handle, kind, maxvalue, name)", e.loc(gs, gs.node))
        okr = any(isinstance(n, ast.Call) and norm(n.func).endswith("_SemLock._rebuild") and len(n.args) == 1 and isinstance(n.args[0], ast.Starred)
                  and isinstance(n.args[0].value, ast.Name) and n.args[0].value.id == ss.params[1] for n in func_nodes(ss))
        R.check(okr, "R-STATE-SYM", "SemLock.__setstate__ rebuilds the C semaphore from the shipped state", ss.short, "_SemLock._rebuild(*state)",
                "an unpickled lock is not rebuilt from the shipped handle/name", e.loc(ss, ss.node))
        R.check(calls_binder(e, ss, "SemLock"), "R-STATE-SYM",
                "SemLock.__setstate__ rebinds acquire/release", ss.short, "_make_methods()", "an unpickled lock has no acquire/release", e.loc(ss, ss.node))
        R.trust("C API: _multiprocessing.SemLock._rebuild(handle, kind, maxvalue, name)")


# ---------------------------------------------------------------------------
# R-COND-PAIR / R-COND-TOKENS
# ---------------------------------------------------------------------------

_ALIASES = {}


def _set_aliases(e, m):
    """locals of method m that are plain aliases of a field of self (`lock = self._lock`, assigned once, the field never stored in m):
    the primitives' fields are set in __init__ / __setstate__ only, so the alias and the field are the same object throughout m."""
    _ALIASES.clear()
    if not m.params:
        return
    selfn = m.params[0]
    stored = {n.attr for n in func_nodes(m) if isinstance(n, ast.Attribute) and isinstance(n.ctx, ast.Store) and isinstance(n.value, ast.Name) and n.value.id == selfn}
    for name in m.locals:
        if name in m.params:
            continue
        defs = e.local_defs(m, name)
        if len(defs) == 1 and isinstance(defs[0], ast.Attribute) and isinstance(defs[0].value, ast.Name) and defs[0].value.id == selfn and defs[0].attr not in stored:
            _ALIASES[name] = defs[0].attr


def _attr_of_self(x, selfn):
    """'a.b' path of attribute chain rooted at self (or at a local alias of a field of self, see _set_aliases), else None."""
    parts = []
    while isinstance(x, ast.Attribute):
        parts.append(x.attr)
        x = x.value
    if isinstance(x, ast.Name) and x.id == selfn:
        return ".".join(reversed(parts))
    if isinstance(x, ast.Name) and x.id in _ALIASES:
        return ".".join([_ALIASES[x.id]] + list(reversed(parts)))
    return None


def cond_roles(e):
    """Roles of the three semaphores from Condition.wait: S released before
    the lock is released, W released in finally, X acquired with the timeout."""
    w = _m(e, "Condition", "wait")
    selfn = w.params[0]
    _set_aliases(e, w)
    tr = [n for n in func_nodes(w) if isinstance(n, ast.Try) and n.finalbody]
    if len(tr) != 1:
        raise AnalysisError("Condition.wait: try/finally not found")
    tr = tr[0]
    X = W = S = None
    for n in ast.walk(ast.Module(body=tr.body, type_ignores=[])):
        if isinstance(n, ast.Call) and isinstance(n.func, ast.Attribute) and n.func.attr == "acquire":
            X = _attr_of_self(n.func.value, selfn)
    for s in tr.finalbody:
        for n in ast.walk(s):
            if isinstance(n, ast.Call) and isinstance(n.func, ast.Attribute) and n.func.attr == "release" and W is None:
                W = _attr_of_self(n.func.value, selfn)
    for s in w.node.body:
        if s is tr:
            break
        for n in ast.walk(s):
            if isinstance(n, ast.Call) and isinstance(n.func, ast.Attribute) and n.func.attr == "release" and S is None \
                    and not isinstance(parent(e, stmt_of(e, w, n)), ast.For):
                S = _attr_of_self(n.func.value, selfn)
    if not (X and W and S) or len({X, W, S}) != 3:
        # fall back to notify(): the semaphore it releases is X, the one it
        # acquires blockingly is W, the one it probes in its `if` is S
        nf = _m(e, "Condition", "notify")
        sn = nf.params[0]
        X2 = W2 = S2 = None
        for n in func_nodes(nf):
            if isinstance(n, ast.Call) and isinstance(n.func, ast.Attribute) and _attr_of_self(n.func.value, sn):
                who = _attr_of_self(n.func.value, sn)
                if n.func.attr == "release":
                    X2 = who
                elif n.func.attr == "acquire" and not e.is_nonblocking(n):
                    W2 = who
            if isinstance(n, ast.If) and isinstance(n.test, ast.Call) and isinstance(n.test.func, ast.Attribute) and n.test.func.attr == "acquire":
                S2 = _attr_of_self(n.test.func.value, sn)
        if not (X2 and W2 and S2) or len({X2, W2, S2}) != 3:
            raise AnalysisError(f"Condition: semaphore roles not identified (S={S}/{S2}, W={W}/{W2}, X={X}/{X2})")
        return {"S": S2, "W": W2, "X": X2}, tr
    return {"S": S, "W": W, "X": X}, tr


def r_cond_pair(e, R):
    w = _m(e, "Condition", "wait")
    roles, tr = cond_roles(e)
    selfn = w.params[0]
    _set_aliases(e, w)
    g = e.cfg(w)
    body = w.node.body
    R.info["condition_roles"] = roles
    # ownership assertion first
    first = body[0] if not (isinstance(body[0], ast.Expr) and isinstance(body[0].value, ast.Constant)) else body[1]
    R.check(isinstance(first, ast.Assert) and "_is_mine" in norm(first.test), "R-COND-PAIR", "wait: asserts the lock is owned before anything else", w.short,
            norm(first)[:60], "wait() does not check lock ownership first: bookkeeping is corrupted by an un-owned wait", e.loc(w, first))
    # S.release() precedes the first lock release
    srel = [n for n in g.nodes for c in calls_in(n) if isinstance(c.func, ast.Attribute) and c.func.attr == "release" and _attr_of_self(c.func.value, selfn) == roles["S"]]
    lrel = [n for n in g.nodes for c in calls_in(n) if isinstance(c.func, ast.Attribute) and c.func.attr == "release" and _attr_of_self(c.func.value, selfn) == "_lock"]
    lacq = [n for n in g.nodes for c in calls_in(n) if isinstance(c.func, ast.Attribute) and c.func.attr == "acquire" and _attr_of_self(c.func.value, selfn) == "_lock"]
    xacq = [n for n in g.nodes for c in calls_in(n) if isinstance(c.func, ast.Attribute) and c.func.attr == "acquire" and _attr_of_self(c.func.value, selfn) == roles["X"]]
    wrel = [n for n in g.nodes for c in calls_in(n) if isinstance(c.func, ast.Attribute) and c.func.attr == "release" and _attr_of_self(c.func.value, selfn) == roles["W"]]
    R.check(len(srel) == 1 and bool(lrel) and all(g.dominates(srel[0], l) for l in lrel), "R-COND-PAIR",
            "wait: announces itself as a sleeper before releasing the lock", w.short, f"{roles['S']}.release() before lock release",
            "the waiter releases the lock before registering as a sleeper: a notify in between finds no sleeper and the wake-up is lost", e.loc(w, w.node))
    # same count for release and re-acquire loops
    def loop_of(n):
        p = parent(e, stmt_of(e, w, [c for c in calls_in(n)][0]))
        return p if isinstance(p, ast.For) else None
    rl = [loop_of(n) for n in lrel]
    al = [loop_of(n) for n in lacq]
    okc = bool(rl) and bool(al) and all(x is not None for x in rl + al) and len({norm(x.iter) for x in rl + al}) == 1
    R.check(okc, "R-COND-PAIR", "wait: the lock is released and re-acquired the same number of times", w.short,
            f"{[norm(x.iter) for x in rl + al if x is not None]}", "wait() returns holding the lock a different number of times than on entry "
            "(an RLock is left unbalanced)", e.loc(w, w.node))
    if okc:
        it = rl[0].iter
        cv = it.args[0] if isinstance(it, ast.Call) and it.args else None
        defs_ = e.local_defs(w, cv.id) if isinstance(cv, ast.Name) else [cv] if cv is not None else []
        okd = bool(defs_) and all(_is_recursion_level(d) for d in defs_)
        dn = [n for n in g.nodes if n.kind == "stmt" and isinstance(n.ast, ast.Assign) and isinstance(n.ast.targets[0], ast.Name) and isinstance(cv, ast.Name) and n.ast.targets[0].id == cv.id]
        R.check(okd and bool(dn) and all(g.dominates(dn[0], l) for l in lrel), "R-COND-PAIR", "wait: the count is the lock's recursion level read before releasing",
                w.short, "count = self._lock._semlock._count()", "the number of releases is not the recursion count at entry", e.loc(w, w.node))
    # finally: W.release() then re-acquire, and they cover the timed acquire
    fin_calls = [c for s in tr.finalbody for c in ast.walk(s) if isinstance(c, ast.Call) and isinstance(c.func, ast.Attribute)]
    seq = [(c.func.attr, _attr_of_self(c.func.value, selfn)) for c in fin_calls if c.func.attr in ("acquire", "release")]
    R.check(seq == [("release", roles["W"]), ("acquire", "_lock")], "R-COND-PAIR", "wait: finally = woken-count release, then lock re-acquire", w.short, str(seq),
            "wait()'s finally clause does not (only) signal 'woken' and then re-acquire the lock in that order: the notifier waits forever for the "
            "woken signal, or wait returns without the lock", e.loc(w, tr))
    in_try = [c for s in tr.body for c in ast.walk(s) if isinstance(c, ast.Call)]
    R.check(all(any(c is x for x in in_try) for n in xacq for c in calls_in(n) if isinstance(c.func, ast.Attribute) and c.func.attr == "acquire"
                and _attr_of_self(c.func.value, selfn) == roles["X"]) and bool(xacq), "R-COND-PAIR", "wait: the blocking wait is inside the try whose finally restores the lock",
            w.short, "try: acquire(True, timeout) finally: ...", "an interrupted wait does not restore the lock", e.loc(w, tr))
    # return value = result of the timed acquire
    rets = [n for n in func_nodes(w) if isinstance(n, ast.Return)]
    okr = len(rets) == 1 and isinstance(rets[0].value, ast.Call) and isinstance(rets[0].value.func, ast.Attribute) and rets[0].value.func.attr == "acquire" \
        and _attr_of_self(rets[0].value.func.value, selfn) == roles["X"]
    R.check(okr, "R-COND-PAIR", "wait: returns the result of the timed acquire of the wait semaphore", w.short, norm(rets[0]) if rets else "",
            "wait() does not report whether it was notified or timed out", e.loc(w, w.node))
    if okr:
        c = rets[0].value
        okt = len(c.args) == 2 and isinstance(c.args[0], ast.Constant) and c.args[0].value is True and isinstance(c.args[1], ast.Name) and c.args[1].id == w.params[1]
        R.check(okt, "R-COND-PAIR", "wait: blocks with the caller's timeout", w.short, norm(c), "the wait ignores the timeout argument or does not block", e.loc(w, c))
    R.floor("R-COND-PAIR", 7)


def _is_recursion_level(d):
    """the term equals `<lock>._semlock._count()` for every value of its atoms (the recursion level of an RLock is not bounded by
    the semaphore's maxvalue, which is 1 for Lock *and* RLock): evaluated over sample values; unknown atoms are refused."""
    from .. import guards

    def classify(x):
        if isinstance(x, ast.Call) and isinstance(x.func, ast.Attribute) and x.func.attr == "_count" and not x.args:
            return "C"
        if isinstance(x, ast.Attribute) and x.attr in ("maxvalue", "_maxvalue"):
            return "MV"
        return None
    if not any(classify(x) == "C" for x in ast.walk(d)):
        return False
    try:
        for C in (0, 1, 2, 5):
            for MV in (1, 2, 7):
                if guards.eval_guard(d, {"C": C, "MV": MV}, classify) != C:
                    return False
    except guards.Inconclusive as ex:
        raise AnalysisError(f"Condition.wait: the release count `{norm(d)}` is not a term over the recursion level: {ex}")
    return True


def _stmts(f):
    return [s for s in f.node.body if not (isinstance(s, ast.Expr) and isinstance(s.value, ast.Constant))]


def r_cond_tokens(e, R):
    roles, _ = cond_roles(e)
    S, W, X = roles["S"], roles["W"], roles["X"]

    def op(c, selfn):
        """('acq'|'try'|'rel', role letter) of a semaphore call."""
        if isinstance(c, ast.Call) and isinstance(c.func, ast.Attribute) and c.func.attr in ("acquire", "release"):
            who = _attr_of_self(c.func.value, selfn)
            r = {S: "S", W: "W", X: "X"}.get(who)
            if r is None:
                return None
            if c.func.attr == "release":
                return ("rel", r)
            return ("try" if e.is_nonblocking(c) else "acq", r)
        return None

    for mname in ("notify", "notify_all"):
        m = _m(e, "Condition", mname)
        selfn = m.params[0]
        _set_aliases(e, m)
        st = _stmts(m)
        # two leading assertions: ownership, wait semaphore is zero
        a0 = st[0] if st else None
        a1 = st[1] if len(st) > 1 else None
        R.check(isinstance(a0, ast.Assert) and "_is_mine" in norm(a0.test), "R-COND-TOKENS", f"{mname}: asserts the lock is owned", m.short, norm(a0)[:50] if a0 else "",
                f"{mname} runs without owning the lock: the semaphore bookkeeping races", e.loc(m, m.node))
        ok1 = isinstance(a1, ast.Assert) and isinstance(a1.test, ast.UnaryOp) and op(a1.test.operand, selfn) == ("try", "X")
        R.check(ok1, "R-COND-TOKENS", f"{mname}: checks that no stale wake-up token is pending", m.short, norm(a1)[:60] if a1 else "",
                f"{mname} does not verify the wait semaphore is zero on entry", e.loc(m, m.node))
        # drain loop: one S try-acquire per successful W try-acquire
        drains = [s for s in st if isinstance(s, ast.While) and op(s.test, selfn) == ("try", "W")]
        okd = len(drains) == 1
        if okd:
            ops = [op(c, selfn) for s in drains[0].body for c in ast.walk(s) if isinstance(c, ast.Call)]
            ops = [o for o in ops if o]
            okd = ops == [("try", "S")]
        # a token operation the protocol relies on must be a statement of its own: inside an `assert` it disappears under -O /
        # PYTHONOPTIMIZE (which loky children inherit through the environment)
        for s in ast.walk(m.node):
            if isinstance(s, ast.Assert):
                for c in ast.walk(s.test):
                    o_ = op(c, selfn)
                    if o_ and not (o_ == ("try", "X") and isinstance(s.test, ast.UnaryOp) and isinstance(s.test.op, ast.Not)):
                        R.fail("R-COND-TOKENS", m.short, f"assert {norm(s.test)[:60]}",
                               f"{mname} performs the semaphore operation `{norm(c)[:50]}` inside an assert statement: with assertions stripped (python -O, "
                               "PYTHONOPTIMIZE) the operation is not executed, the sleeper count is never decremented for a timed-out waiter and the next notify "
                               "waits forever for a waiter that is gone", e.loc(m, s))
        R.check(okd, "R-COND-TOKENS", f"{mname}: timed-out waiters are subtracted one sleeper per woken token", m.short,
                norm(drains[0])[:80] if drains else "", f"{mname} does not pair exactly one sleeping-count acquire with each woken-count acquire when "
                "accounting for time-outs: later notifies wake nobody or trip the internal assertion", e.loc(m, m.node))
        rest = st[st.index(drains[0]) + 1:] if drains else []
        if mname == "notify":
            oki = len(rest) == 1 and isinstance(rest[0], ast.If) and op(rest[0].test, selfn) == ("try", "S") and not rest[0].orelse
            seq = [op(c, selfn) for s in (rest[0].body if oki else []) for c in ast.walk(s) if isinstance(c, ast.Call)]
            seq = [o for o in seq if o]
            R.check(oki and seq == [("rel", "X"), ("acq", "W"), ("try", "X")], "R-COND-TOKENS",
                    "notify: if a sleeper is grabbed: one wake token, wait for exactly that sleeper, re-zero the wait semaphore", m.short, str(seq),
                    "notify's token balance is off (#wake tokens released != #sleepers grabbed != #woken signals awaited, or the wait semaphore is not "
                    "re-zeroed): more than one waiter wakes, the notifier hangs, or a stale token makes a later wait return spuriously", e.loc(m, m.node))
        else:
            # sleepers = 0; while S.try: X.rel; sleepers += 1 ; if sleepers: for range(sleepers): W.acq ; while X.try: pass
            cnt = [s for s in rest if isinstance(s, ast.Assign) and isinstance(s.value, ast.Constant) and s.value.value == 0]
            loops = [s for s in rest if isinstance(s, ast.While) and op(s.test, selfn) == ("try", "S")]
            ok = len(cnt) == 1 and len(loops) == 1
            cvar = cnt[0].targets[0].id if ok else None
            if ok:
                ops = [op(c, selfn) for s in loops[0].body for c in ast.walk(s) if isinstance(c, ast.Call)]
                incs = [s for s in loops[0].body if isinstance(s, ast.AugAssign) and isinstance(s.target, ast.Name) and s.target.id == cvar
                        and isinstance(s.op, ast.Add) and isinstance(s.value, ast.Constant) and s.value.value == 1]
                ok = [o for o in ops if o] == [("rel", "X")] and len(incs) == 1
            R.check(ok, "R-COND-TOKENS", "notify_all: one wake token and one count per grabbed sleeper", m.short, norm(loops[0])[:80] if loops else "",
                    "notify_all does not release exactly one wake token per sleeper it grabbed", e.loc(m, m.node))
            tail = rest[rest.index(loops[0]) + 1:] if loops else []
            okw = False
            okz = False
            for s in tail:
                blk = s.body if isinstance(s, ast.If) and isinstance(s.test, ast.Name) and s.test.id == cvar else [s]
                for b in blk:
                    if isinstance(b, ast.For) and isinstance(b.iter, ast.Call) and norm(b.iter) == f"range({cvar})":
                        ops = [op(c, selfn) for x in b.body for c in ast.walk(x) if isinstance(c, ast.Call)]
                        okw = [o for o in ops if o] == [("acq", "W")]
                    if isinstance(b, ast.While) and op(b.test, selfn) == ("try", "X"):
                        okz = all(isinstance(x, ast.Pass) for x in b.body)
            R.check(okw, "R-COND-TOKENS", "notify_all: waits for exactly as many woken signals as sleepers it woke", m.short, f"for _ in range({cvar}): woken.acquire()",
                    "notify_all awaits a different number of woken signals than wake tokens it released: it hangs, or returns before the waiters "
                    "consumed their tokens", e.loc(m, m.node))
            R.check(okz, "R-COND-TOKENS", "notify_all: re-zeroes the wait semaphore afterwards", m.short, "while wait_semaphore.acquire(False): pass",
                    "tokens left by waiters that timed out meanwhile are not drained: a later wait returns immediately without notification", e.loc(m, m.node))
    # wait_for re-checks the predicate after every wait and honours the deadline
    wf = _m(e, "Condition", "wait_for")
    loops = [n for n in func_nodes(wf) if isinstance(n, ast.While)]
    okp = len(loops) == 1 and isinstance(loops[0].test, ast.UnaryOp) and any(isinstance(c, ast.Call) and norm(c.func) == "self.wait" for c in ast.walk(loops[0]))
    R.check(okp, "R-COND-TOKENS", "wait_for: loops on the predicate around wait()", wf.short, norm(loops[0].test) if loops else "", "wait_for does not re-check its predicate",
            e.loc(wf, wf.node))
    R.floor("R-COND-TOKENS", 8)


def r_event_locked(e, R):
    ev = _cls(e, "Event")
    init = ev.methods["__init__"]
    selfn = init.params[0]
    flag = cond = None
    for n in func_nodes(init):
        if isinstance(n, ast.Assign) and isinstance(n.targets[0], ast.Attribute) and isinstance(n.value, ast.Call):
            if any(v == ("class", f"{SY}:Condition") for v in e.pt.ev(init, n.value.func)):
                cond = n.targets[0].attr
            elif any(v == ("class", f"{SY}:Semaphore") for v in e.pt.ev(init, n.value.func)):
                flag = n.targets[0].attr
                R.check(norm(n.value.args[0]) == "0" if n.value.args else False, "R-EVENT-LOCKED", "Event: the flag semaphore starts at 0 (event not set)", init.short,
                        norm(n.value), "a new Event is already set", e.loc(init, n))
    if not (flag and cond):
        raise AnalysisError("Event: flag / condition attributes not identified")
    for nm, m in ev.methods.items():
        if nm == "__init__":
            continue
        g = e.cfg(m)
        held = e.held(m)
        for n in g.nodes:
            for c in calls_in(n):
                if isinstance(c.func, ast.Attribute) and _attr_of_self(c.func.value, m.params[0]) == flag:
                    tok = [t for t in held[n]]
                    with_cond = any(isinstance(w.ast, ast.withitem) and _attr_of_self(w.ast.context_expr, m.params[0]) == cond and g.dominates(w, n)
                                    for w in g.nodes if w.kind == "with_enter")
                    R.check(with_cond and bool(tok), "R-EVENT-LOCKED", f"Event.{nm}: {norm(c)} under the event's condition", m.short, norm(c),
                            f"Event.{nm} touches the flag outside the condition's lock: set/clear/wait race (a wait can miss a set)", e.loc(m, c))
    # probes never block and restore the flag
    for nm in ("is_set", "wait"):
        m = ev.methods[nm]
        for c in [x for x in func_nodes(m) if isinstance(x, ast.Call) and isinstance(x.func, ast.Attribute) and x.func.attr == "acquire"
                  and _attr_of_self(x.func.value, m.params[0]) == flag]:
            R.check(e.is_nonblocking(c), "R-EVENT-LOCKED", f"Event.{nm}: the flag probe never blocks", m.short, norm(c), "a blocking probe of the flag deadlocks under the condition",
                    e.loc(m, c))
    # set: flag := 1 exactly (drain then release), then notify_all
    st = ev.methods["set"]
    seq = [(c.func.attr, _attr_of_self(c.func.value, st.params[0])) for c in func_nodes(st) if isinstance(c, ast.Call) and isinstance(c.func, ast.Attribute)
           and c.func.attr in ("acquire", "release", "notify_all", "notify")]
    seq.sort(key=lambda x: 0)
    calls = [c for c in func_nodes(st) if isinstance(c, ast.Call) and isinstance(c.func, ast.Attribute) and c.func.attr in ("acquire", "release", "notify_all", "notify")]
    calls.sort(key=lambda c: (c.lineno, c.col_offset))
    seq = [(c.func.attr, _attr_of_self(c.func.value, st.params[0])) for c in calls]
    R.check(seq == [("acquire", flag), ("release", flag), ("notify_all", cond)], "R-EVENT-LOCKED", "Event.set: flag := 1 (drain, release) then notify_all", st.short, str(seq),
            "Event.set does not leave the flag at exactly 1 and then wake every waiter (notify wakes only one; a double release makes clear() insufficient)",
            e.loc(st, st.node))
    cl = ev.methods["clear"]
    calls = [c for c in func_nodes(cl) if isinstance(c, ast.Call) and isinstance(c.func, ast.Attribute) and c.func.attr in ("acquire", "release")]
    R.check(len(calls) == 1 and calls[0].func.attr == "acquire" and e.is_nonblocking(calls[0]), "R-EVENT-LOCKED", "Event.clear: drains the flag without blocking", cl.short,
            norm(calls[0]) if calls else "", "Event.clear blocks when the event is not set, or does not reset the flag", e.loc(cl, cl.node))
    # wait re-reads the flag after waiting; returns True iff the flag is set then
    w = ev.methods["wait"]
    g = e.cfg(w)
    cw = [n for n in g.nodes for c in calls_in(n) if isinstance(c.func, ast.Attribute) and c.func.attr == "wait" and _attr_of_self(c.func.value, w.params[0]) == cond]
    probes = [n for n in g.nodes if n.kind == "test" and isinstance(n.ast, ast.Call) and isinstance(n.ast.func, ast.Attribute) and n.ast.func.attr == "acquire"
              and _attr_of_self(n.ast.func.value, w.params[0]) == flag]
    rt = [n for n in g.nodes if n.kind == "stmt" and isinstance(n.ast, ast.Return) and isinstance(n.ast.value, ast.Constant) and n.ast.value.value is True]
    rf = [n for n in g.nodes if n.kind == "stmt" and isinstance(n.ast, ast.Return) and isinstance(n.ast.value, ast.Constant) and n.ast.value.value is False]
    ok = bool(cw) and bool(rt) and bool(rf)
    if ok:
        after = [p for p in probes if any(g.path_exists(c, lambda n, p=p: n is p, use_exc=False) for c in cw)]
        ok = bool(after) and all(any(g.on_branch(r, p, "T") for p in after) for r in rt) and all(any(g.on_branch(r, p, "F") for p in after) for r in rf)
    R.check(ok, "R-EVENT-LOCKED", "Event.wait: re-reads the flag after waiting and returns True iff it is set then", w.short, "probe after cond.wait",
            "Event.wait reports the result of the condition wait instead of the flag: it returns True after a spurious notify although the event is "
            "clear, or False after a timeout although it was set", e.loc(w, w.node))
    for c in [c for n in cw for c in calls_in(n) if isinstance(c.func, ast.Attribute) and c.func.attr == "wait"]:
        R.check(len(c.args) == 1 and isinstance(c.args[0], ast.Name) and c.args[0].id == w.params[1], "R-EVENT-LOCKED", "Event.wait: waits with the caller's timeout", w.short,
                norm(c), "Event.wait ignores its timeout", e.loc(w, c))
    for n in rt:
        rels = [m for m in g.nodes for c in calls_in(m) if isinstance(c.func, ast.Attribute) and c.func.attr == "release" and _attr_of_self(c.func.value, w.params[0]) == flag
                and g.dominates(m, n)]
        R.check(bool(rels), "R-EVENT-LOCKED", "Event.wait: a successful probe puts the flag back", w.short, "flag.release()", "Event.wait consumes the flag: the event is cleared "
                "by the first waiter", e.loc(w, n.ast))
    # every probe of the flag (non-blocking acquire used as a test) is balanced with polarity: success => the token is put
    # back before anything else looks at the flag; failure => nothing is released (that would *set* the event)
    for nm in ("is_set", "wait"):
        m = ev.methods[nm]
        mg = e.cfg(m)
        isflag = lambda x, m=m: isinstance(x, ast.Attribute) and _attr_of_self(x, m.params[0]) == flag
        prs = [n for n in mg.nodes if n.kind == "test" and isinstance(n.ast, ast.Call) and isinstance(n.ast.func, ast.Attribute) and n.ast.func.attr == "acquire"
               and isflag(n.ast.func.value)]
        rel = lambda n, m=m: any(isinstance(c.func, ast.Attribute) and c.func.attr == "release" and isflag(c.func.value) for c in calls_in(n))
        cwn = lambda n, m=m: any(isinstance(c.func, ast.Attribute) and c.func.attr == "wait" and _attr_of_self(c.func.value, m.params[0]) == cond for c in calls_in(n))
        if not prs:
            raise AnalysisError(f"Event.{nm}: flag probe not found")
        for pr in prs:
            stop = lambda n, pr=pr: (n in prs and n is not pr) or n is mg.exit or cwn(n)
            esc = mg.find_path(pr, stop, avoid=rel, use_exc=False, start_labels=["T"])
            R.check(esc is None, "R-EVENT-LOCKED", f"Event.{nm}: a successful probe puts the flag back at once", m.short, norm(pr.ast),
                    f"Event.{nm} consumes the flag when the event is set: the event is silently cleared by whoever looks at it", e.loc(m, pr.ast),
                    mg.fmt_path(esc) if esc else None)
            bad = mg.find_path(pr, rel, avoid=lambda n, pr=pr: n in prs and n is not pr, use_exc=False, start_labels=["F"])
            R.check(bad is None, "R-EVENT-LOCKED", f"Event.{nm}: a failed probe releases nothing", m.short, norm(pr.ast),
                    f"Event.{nm} releases the flag after failing to acquire it: looking at a clear event sets it", e.loc(m, pr.ast), mg.fmt_path(bad) if bad else None)
        if nm == "is_set":
            rts = [n for n in mg.nodes if n.kind == "stmt" and isinstance(n.ast, ast.Return) and isinstance(n.ast.value, ast.Constant)]
            okp = len(prs) == 1 and all(mg.on_branch(r, prs[0], "T" if r.ast.value.value is True else "F") for r in rts) and {r.ast.value.value for r in rts} == {True, False}
            R.check(okp, "R-EVENT-LOCKED", "Event.is_set: True iff the probe succeeded", m.short, "return True / return False", "is_set reports the opposite of the flag", e.loc(m, m.node))
        else:
            first = [pr for pr in prs if not any(mg.path_exists(c_, lambda n, pr=pr: n is pr, use_exc=False) for c_ in mg.nodes if cwn(c_))]
            okw = bool(first) and all(mg.find_path(pr, cwn, use_exc=False, start_labels=["T"], avoid=lambda n: n in prs) is None and
                                      mg.escape_path(pr, cwn, until_pred=lambda n: n in prs, use_exc=False, start_labels=["F"]) is None for pr in first)
            R.check(okw, "R-EVENT-LOCKED", "Event.wait: blocks on the condition exactly when the first probe finds the event clear", m.short, "if probe: release else: cond.wait(timeout)",
                    "Event.wait sleeps although the event is set (until the timeout / forever), or returns at once although it is clear", e.loc(m, m.node))
    R.floor("R-EVENT-LOCKED", 19)


# ---------------------------------------------------------------------------
# R-AFTER-FORK (C14, C05): hooks registered with multiprocessing.util.register_after_fork
# ---------------------------------------------------------------------------

def _stdlib_after_fork_call():
    """How the stdlib invokes a registered hook, read from the interpreter's own multiprocessing/util.py (not imported):
    (number of positional arguments, exceptions are swallowed?)."""
    import importlib.util as iu
    spec = iu.find_spec("multiprocessing.util")
    with open(spec.origin, encoding="utf-8") as fh:
        tree = ast.parse(fh.read())
    for fn in [n for n in tree.body if isinstance(n, ast.FunctionDef) and n.name == "_run_after_forkers"]:
        for tr in [n for n in ast.walk(fn) if isinstance(n, ast.Try)]:
            calls = [c for s in tr.body for c in ast.walk(s) if isinstance(c, ast.Call) and isinstance(c.func, ast.Name) and c.func.id == "func"]
            if calls:
                swallowed = any(h.type is None or norm(h.type) in ("Exception", "BaseException") for h in tr.handlers) \
                    and not any(isinstance(x, ast.Raise) for h in tr.handlers for x in ast.walk(h))
                return len(calls[0].args), swallowed, spec.origin
    raise AnalysisError("stdlib: multiprocessing.util._run_after_forkers does not call func(obj) in a try block any more")


def r_after_fork(e, R):
    """The after-fork hooks loky registers are invoked by the stdlib as `func(obj)` with every exception swallowed (logged at
    INFO only): a hook of another arity silently never runs.  Each hook must be a loky function of exactly one positional
    parameter; SemLock's resets the per-process ownership state of the semaphore of the object it receives; the registry of
    manager wake-ups is emptied in the child."""
    nargs, swallowed, origin = _stdlib_after_fork_call()
    R.trust(f"stdlib: _run_after_forkers calls func(obj) with {nargs} argument(s), exceptions swallowed={swallowed} (read from {origin})")
    sites = [(f, c) for f, c in e.all_calls() if (isinstance(c.func, ast.Attribute) and c.func.attr == "register_after_fork")
             or (isinstance(c.func, ast.Name) and c.func.id == "register_after_fork")]
    for f, c in sites:
        if len(c.args) != 2:
            R.fail("R-AFTER-FORK", f.short, norm(c)[:80], "register_after_fork is not called with (object, hook)", e.loc(f, c))
            continue
        hooks = {v[1] for v in e.pt.ev(f, c.args[1]) if v[0] == "func"}
        hfs = [e.prog.funcs[q] for q in hooks if q in e.prog.funcs]
        def positional(h):
            """parameters left to the caller: a method reached through an instance (or a classmethod) has its first one bound."""
            ps = list(h.params)
            if h.cls is not None and "staticmethod" not in h.decorators and isinstance(c.args[1], ast.Attribute):
                through_class = any(v[0] == "class" for v in e.pt.ev(f, c.args[1].value))
                if "classmethod" in h.decorators or not through_class:
                    ps = ps[1:]
            return ps
        ok = bool(hfs) and len(hfs) == len(e.pt.ev(f, c.args[1])) and all(
            len([p for p in positional(h) if p not in h.defaults]) <= nargs <= len(positional(h)) or h.vararg for h in hfs)
        R.check(ok, "R-AFTER-FORK", f"{f.short}: the after-fork hook `{norm(c.args[1])[:40]}` is a function of one argument (the stdlib calls func(obj))", f.short,
                norm(c)[:90], f"the hook `{norm(c.args[1])}` registered for after-fork is not a loky function taking exactly the registered object: the stdlib calls "
                "`func(obj)` and swallows the TypeError, so the hook silently never runs in a forked child (a primitive held by the parent at fork time stays "
                "'owned' in the child: an RLock is re-entered by another process, Condition.notify passes its ownership assertion)", e.loc(f, c))
        for h in hfs if ok else ():
            p0 = positional(h)[0] if positional(h) else h.vararg
            body_calls = [x for x in func_nodes(h) if isinstance(x, ast.Call) and isinstance(x.func, ast.Attribute)]
            if f.cls is not None and f.cls.qualname == f"{SY}:SemLock":
                okb = any(x.func.attr == "_after_fork" and norm(x.func.value) == f"{p0}._semlock" and not x.args for x in body_calls) and norm(c.args[0]) == f.params[0]
                R.check(okb, "R-AFTER-FORK", "SemLock: the hook resets the ownership state of the semaphore of the object it is given", h.short,
                        f"{p0}._semlock._after_fork()", "the after-fork hook does not reset the inherited recursion count / owner of the forked copy", e.loc(h, h.node))
            else:
                okb = any(x.func.attr == "clear" and norm(x.func.value) == p0 and not x.args for x in body_calls)
                R.check(okb, "R-AFTER-FORK", f"{f.short}: the hook empties the registry it is given in the forked child", h.short, f"{p0}.clear()",
                        "a forked child keeps the parent's manager threads / wake-up pipes registered: its at-exit hook wakes and joins threads that do not exist there",
                        e.loc(h, h.node))
    R.floor("R-AFTER-FORK", 4)
