"""Serialisation customisation (C15) and the cloudpickle wrapper (C16).

R-PICKLER-FRESH, R-REGISTER-WHO, R-REDUCERS-FLOW, R-PICKLER-NAME,
R-REDUCE-ARITY, R-WRAP-DISPATCH, R-WRAP-FIELDS, R-WRAP-REDUCE.
"""
import ast

from ..model import func_nodes, norm, AnalysisError
from ..cfg import calls_in, _walk_noscope
from .util import (none_test, effect_nodes, calls_method_of, stmt_of, parent, cfg_nodes, inline_locals)
from .routing import ctor_fields, bind_args

RD = "loky.backend.reduction"
QU = "loky.backend.queues"
PE = "loky.process_executor"
CW = "loky.cloudpickle_wrapper"


def pickler_class(e):
    """The customizable pickler class: nested in set_loky_pickler, stored as
    the module's current pickler."""
    cands = [c for q, c in e.prog.classes.items() if q.startswith(RD + ":") and c.parent_func is not None and "__init__" in c.methods]
    if len(cands) != 1:
        raise AnalysisError(f"customizable pickler class not unique: {[c.qualname for c in cands]}")
    return cands[0]


FRESH_CALLS = ("dict", "copy", "deepcopy")


# ---------------------------------------------------------------------------
# role resolution of private names (a rename must not look like a violation)
# ---------------------------------------------------------------------------

def bind_call(call, func):
    """parameter name -> argument expression of a direct call of `func`."""
    out = {}
    for i, x in enumerate(call.args):
        if i < len(func.params):
            out[func.params[i]] = x
    for k in call.keywords:
        if k.arg:
            out[k.arg] = k.value
    return out


def pickler_globals(e):
    """(name global, class global): what get_loky_pickler_name() / get_loky_pickler() return."""
    out = []
    for fn in ("get_loky_pickler_name", "get_loky_pickler"):
        f = e.prog.func(f"{RD}:{fn}")
        rets = [n for n in func_nodes(f) if isinstance(n, ast.Return) and isinstance(n.value, ast.Name)]
        if len(rets) != 1:
            raise AnalysisError(f"{fn}: does not return one module global")
        out.append(rets[0].value.id)
    return tuple(out)


def module_reducer_table(e):
    """The module-level table written by the public register(type_, reduce_function)."""
    f = e.prog.func(f"{RD}:register")
    for n in func_nodes(f):
        if isinstance(n, ast.Assign) and isinstance(n.targets[0], ast.Subscript) and isinstance(n.targets[0].value, ast.Name) \
                and isinstance(n.targets[0].slice, ast.Name) and n.targets[0].slice.id == f.params[0]:
            return n.targets[0].value.id
    raise AnalysisError("register(): the module-level reducer table is not recognised")


def table_setter(e, pc):
    """The method of the pickler class that installs the instance's dispatch table."""
    c = [m for nm, m in pc.methods.items() if nm not in ("__init__", "register") and
         any(isinstance(n, ast.Attribute) and n.attr == "dispatch_table" and isinstance(n.ctx, ast.Store) for n in func_nodes(m))]
    if len(c) != 1:
        raise AnalysisError("pickler class: the method installing the dispatch table is not unique")
    return c[0]


def wrapper_fields(e):
    """(attribute holding the wrapped object, attribute holding the keep flag) read off the base wrapper's constructor."""
    base, _ = _wrapper_classes(e)
    ini = base.methods.get("__init__")
    if ini is None or len(ini.params) < 3:
        raise AnalysisError("wrapper base class: constructor (self, obj, keep_wrapper) not recognised")
    got = {}
    for n in func_nodes(ini):
        if isinstance(n, ast.Assign) and isinstance(n.targets[0], ast.Attribute) and isinstance(n.targets[0].value, ast.Name) and n.targets[0].value.id == ini.params[0] \
                and isinstance(n.value, ast.Name) and n.value.id in ini.params[1:3]:
            got[n.value.id] = n.targets[0].attr
    if set(got) != set(ini.params[1:3]):
        raise AnalysisError("wrapper base class: the two fields are not stored from the constructor's parameters")
    return got[ini.params[1]], got[ini.params[2]]


def instance_dispatch(e):
    """The function that chooses the wrapper class by callable(obj) (the only place wrappers are constructed)."""
    base, subs = _wrapper_classes(e)
    wq = {c.qualname for c in [base] + subs}
    c = set()
    for f, call in e.all_calls():
        if f.module.name == CW and {v[1] for v in e.pt.ev(f, call.func) if v[0] == "class"} & wq:
            if any(isinstance(t, ast.Call) and norm(t.func) == "callable" for t in func_nodes(f)):
                c.add(f.qualname)
    if not c:
        # no constructor site tests callable() any more: the (unique) function that constructs instance wrappers is still the dispatch
        for f, call in e.all_calls():
            if f.module.name == CW and f.cls is None and f.kind != "module" and {v[1] for v in e.pt.ev(f, call.func) if v[0] == "class"} & wq:
                c.add(f.qualname)
    if len(c) != 1:
        raise AnalysisError(f"wrapper dispatch on callable(obj) not unique: {sorted(c)}")
    return e.prog.funcs[c.pop()]


def rebuild_func(e, disp):
    """The function a kept wrapper reduces to: the callee of __reduce__'s second return that itself calls the dispatch."""
    base, _ = _wrapper_classes(e)
    rd = base.methods["__reduce__"]
    c = set()
    for r in func_nodes(rd):
        if isinstance(r, ast.Return) and isinstance(r.value, ast.Tuple) and r.value.elts:
            for v in e.pt.ev(rd, r.value.elts[0]):
                if v[0] == "func" and v[1] in e.prog.funcs and any(isinstance(n, ast.Call) and disp.qualname in e.callees_of(n) for n in func_nodes(e.prog.funcs[v[1]])):
                    c.add(v[1])
    if len(c) != 1:
        raise AnalysisError("wrapper: the rebuild function of a kept wrapper is not recognised")
    return e.prog.funcs[c.pop()]


def _is_fresh(x):
    if isinstance(x, (ast.Dict, ast.DictComp)):
        return True
    if isinstance(x, ast.Call):
        if isinstance(x.func, ast.Name) and x.func.id == "dict":
            return True
        if isinstance(x.func, ast.Attribute) and x.func.attr == "copy":
            return True
    return False


def r_pickler_fresh(e, R):
    pc = pickler_class(e)
    init = pc.methods["__init__"]
    g = e.cfg(init)
    selfn = init.params[0]
    # the installation: call (or store) that sets the instance's table
    setter = table_setter(e, pc)
    inst = []
    for n in g.nodes:
        for c in calls_in(n):
            if setter is not None and setter.qualname in e.callees_of(c):
                inst.append((n, c.args[0] if c.args else None))
        if n.kind == "stmt" and isinstance(n.ast, ast.Assign) and isinstance(n.ast.targets[0], ast.Attribute) and n.ast.targets[0].attr == "dispatch_table" \
                and isinstance(n.ast.targets[0].value, ast.Name) and n.ast.targets[0].value.id == selfn:
            inst.append((n, n.ast.value))
    R.check(bool(inst), "R-PICKLER-FRESH", "pickler constructor installs a per-instance dispatch table", init.short, "_set_dispatch_table(loky_dt)",
            "the pickler no longer installs its own dispatch table", e.loc(init, init.node))
    for n, val in inst:
        ok = False
        defs = []
        if isinstance(val, ast.Name):
            defs = e.local_defs(init, val.id)
            ok = bool(defs) and all(_is_fresh(d) for d in defs)
        elif val is not None:
            ok = _is_fresh(val)
        R.check(ok, "R-PICKLER-FRESH", "the installed table is a fresh copy on every path (dict(...) / .copy())", init.short,
                "; ".join(norm(d) for d in defs) or (norm(val) if val is not None else ""),
                "the table installed on the instance is a shared table itself (class-level, copyreg or loky's module table): registering the "
                "executor's reducers mutates process-wide pickling state and leaks into every other pickler", e.loc(init, n.ast))
    # the installation dominates every per-instance registration
    reg = pc.methods.get("register")
    regs = [n for n in g.nodes for c in calls_in(n) if reg is not None and reg.qualname in e.callees_of(c)]
    stores = [n for n in g.nodes if n.kind == "stmt" and n.ast is not None and any(
        isinstance(x, ast.Subscript) and isinstance(x.ctx, ast.Store) and isinstance(x.value, ast.Attribute) and x.value.attr == "dispatch_table"
        for x in _walk_noscope(n.ast))]
    R.check(bool(regs) or bool(stores), "R-PICKLER-FRESH", "pickler constructor registers the user reducers", init.short, "self.register(type, reduce_func)",
            "user reducers are never registered", e.loc(init, init.node))
    for r in regs + stores:
        R.check(any(g.dominates(i, r) for i, _ in inst), "R-PICKLER-FRESH", "the fresh table is installed before any reducer is registered", init.short,
                norm(r.ast)[:60], "a reducer is registered before the instance table is installed: it lands in the shared class-level table",
                e.loc(init, r.ast))
    # loky's module table is only read (update argument), user reducers come from the `reducers` parameter
    for n in func_nodes(init):
        if isinstance(n, ast.Call) and isinstance(n.func, ast.Attribute) and n.func.attr in ("update", "setdefault", "pop", "clear"):
            recv = n.func.value
            okr = isinstance(recv, ast.Name) and all(_is_fresh(d) for d in e.local_defs(init, recv.id)) and bool(e.local_defs(init, recv.id))
            R.check(okr, "R-PICKLER-FRESH", f"`{norm(n)[:50]}` mutates only the fresh local table", init.short, norm(n),
                    "a shared dispatch table is mutated in the pickler constructor", e.loc(init, n))
    # every other writer in pickler code targets the instance table
    for nm, m in pc.methods.items():
        for n in func_nodes(m):
            if isinstance(n, ast.Subscript) and isinstance(n.ctx, ast.Store):
                okw = isinstance(n.value, ast.Attribute) and n.value.attr == "dispatch_table" and isinstance(n.value.value, ast.Name) \
                    and n.value.value.id == m.params[0] and nm != "__init__" or (nm == "__init__" and isinstance(n.value, ast.Name))
                R.check(okw, "R-PICKLER-FRESH", f"{m.short}: subscript store targets the instance's own table", m.short, norm(n),
                        "pickler code writes into a table that is not the instance's own", e.loc(m, n))
    # the loop registers reducers from the constructor's parameter
    rp = [p for p in init.params if p == "reducers"]
    fors = [n for n in func_nodes(init) if isinstance(n, ast.For) and any(isinstance(x, ast.Name) and x.id in init.params for x in ast.walk(n.iter))]
    R.check(bool(rp) and bool(fors), "R-PICKLER-FRESH", "the reducers registered are the ones passed to this pickler", init.short, "for type, f in reducers.items()",
            "the pickler ignores its reducers argument", e.loc(init, init.node))
    R.floor("R-PICKLER-FRESH", 6)


def r_register_who(e, R):
    """Who may write loky's module-level dispatch table."""
    mod = e.prog.modules[RD]
    reg = e.prog.func(f"{RD}:register")
    # the table: module global subscript-stored in register
    tabs = {n.value.id for n in func_nodes(reg) if isinstance(n, ast.Subscript) and isinstance(n.ctx, ast.Store) and isinstance(n.value, ast.Name)}
    if len(tabs) != 1:
        raise AnalysisError("module-level register does not store into a single table")
    tab = tabs.pop()
    n_calls = 0
    for f, c in e.all_calls():
        if reg.qualname in e.callees_of(c):
            n_calls += 1
            R.check(f.kind == "module" and f.module.name.startswith("loky.backend."), "R-REGISTER-WHO",
                    f"{f.module.name}: module-level register({norm(c.args[0])[:30]}, ...) at import time", f.short, norm(c),
                    "loky's process-wide reducer table is written at run time (outside import-time code): reducers requested for one executor "
                    "leak into every later pickler", e.loc(f, c))
    for f in e.prog.funcs.values():
        if f.module.name == "__user__":
            continue
        for n in func_nodes(f):
            tgt = None
            if isinstance(n, ast.Subscript) and isinstance(n.ctx, (ast.Store, ast.Del)):
                tgt = n.value
            if isinstance(n, ast.Call) and isinstance(n.func, ast.Attribute) and n.func.attr in ("update", "setdefault", "pop", "clear", "popitem"):
                tgt = n.func.value
            if tgt is None:
                continue
            k = e.pt.scope_key(f, tgt.id) if isinstance(tgt, ast.Name) else None
            shared = (k == ("G", RD, tab)) or norm(tgt) in ("copyreg.dispatch_table", f"reduction.{tab}") or \
                (isinstance(tgt, ast.Attribute) and tgt.attr == "dispatch_table" and not (isinstance(tgt.value, ast.Name) and tgt.value.id in f.params[:1]))
            if shared:
                R.check(f is reg, "R-REGISTER-WHO", f"{f.short}: the only writer of a shared dispatch table is register()", f.short, norm(n)[:70],
                        "a process-wide pickling registry (loky's table, copyreg, a class-level table) is mutated", e.loc(f, n))
    if n_calls < 5:
        raise AnalysisError(f"R-REGISTER-WHO: {n_calls} register() calls found (floor 5)")


def r_reducers_flow(e, R):
    a = e.anchors
    init = a.init
    # result reducers default to the job reducers
    okd = False
    for n in func_nodes(init):
        if isinstance(n, ast.If):
            nt = none_test(n.test)
            if nt and isinstance(nt[0], ast.Name) and nt[0].id == "result_reducers" and nt[1] == "F":
                okd = any(isinstance(s, ast.Assign) and norm(s) == "result_reducers = job_reducers" for s in n.body)
    R.check(okd, "R-REDUCERS-FLOW", "constructor: result reducers default to the job reducers", init.short, "if result_reducers is None: result_reducers = job_reducers",
            "results are no longer pickled with the job reducers when no result reducers are given", e.loc(init, init.node))
    # setup: job reducers -> call queue, result reducers -> result queue, through every override
    # the set-up routine: the method of the executor class in which the call queue object is allocated (and its overrides)
    cq_alloc = {a.alloc_func(o) for o in a.callq}
    base = [e.prog.funcs[q] for q in cq_alloc if q in e.prog.funcs and e.prog.funcs[q].cls is not None and e.prog.funcs[q].cls.qualname == a.executor_cls]
    setups = [f for f in e.prog.funcs.values() if f.node is not None and base and getattr(f.node, "name", "") == base[0].node.name]
    if not base:
        raise AnalysisError("executor queue set-up routine not found")
    sf = base[0]
    jp, rp = sf.params[1], sf.params[2]
    for c in [n for n in func_nodes(sf) if isinstance(n, ast.Call)]:
        cls = {v[1] for v in e.pt.ev(sf, c.func) if v[0] == "class"}
        if not cls:
            continue
        red = [k for k in c.keywords if k.arg == "reducers"]
        if any(e.pt.has_ext_base(q, "SimpleQueue") for q in cls):
            R.check(bool(red) and isinstance(red[0].value, ast.Name) and red[0].value.id == rp, "R-REDUCERS-FLOW", "the result queue gets the result reducers", sf.short,
                    norm(c)[:70], "the result queue is built with the wrong reducers (or none)", e.loc(sf, c))
        elif any(e.pt.has_ext_base(q, "Queue") for q in cls):
            R.check(bool(red) and isinstance(red[0].value, ast.Name) and red[0].value.id == jp, "R-REDUCERS-FLOW", "the call queue gets the job reducers", sf.short,
                    norm(c)[:70], "the call queue is built with the wrong reducers (or none)", e.loc(sf, c))
    for c in [n for n in func_nodes(init) if isinstance(n, ast.Call) and e.callees_of(n) & {f.qualname for f in setups}]:
        got = [norm(x) for x in c.args[:2]]
        R.check(got == ["job_reducers", "result_reducers"], "R-REDUCERS-FLOW", "constructor passes (job_reducers, result_reducers) in that order", init.short, norm(c),
                "job and result reducers are swapped or dropped on the way to the queues", e.loc(init, c))
    for f in setups:
        if f is sf:
            continue
        for c in [n for n in func_nodes(f) if isinstance(n, ast.Call) and sf.qualname in e.callees_of(n)]:
            got = [norm(x) for x in c.args[:2]]
            R.check(got == f.params[1:3], "R-REDUCERS-FLOW", f"{f.short}: forwards both reducer maps to the base set-up", f.short, norm(c)[:60],
                    "the reusable executor drops or swaps the reducers", e.loc(f, c))
    # queue classes store and use their own reducers
    RED = {}
    for cq in (f"{QU}:Queue", f"{QU}:SimpleQueue"):
        c = e.prog.cls(cq)
        ci = c.methods["__init__"]
        fl = ctor_fields(e, ci)
        RED[c.name] = fl.get("reducers")   # the field filled from the public `reducers` argument, whatever it is called
        R.check(bool(RED[c.name]), "R-REDUCERS-FLOW", f"{c.name}.__init__ keeps its reducers", ci.short, f"self.{RED[c.name]} = reducers",
                "the queue forgets its reducers", e.loc(ci, ci.node))
    put = e.prog.func(f"{QU}:SimpleQueue.put")
    okp = any(isinstance(n, ast.Call) and e.callees_of(n) & {f"{RD}:dumps"} and any(k.arg == "reducers" and norm(k.value) == f"self.{RED.get('SimpleQueue')}" for k in n.keywords)
              for n in func_nodes(put))
    R.check(okp, "R-REDUCERS-FLOW", "SimpleQueue.put serialises with its own reducers", put.short, "dumps(obj, reducers=self._reducers)",
            "results are serialised without the result queue's reducers", e.loc(put, put.node))
    st = e.prog.func(f"{QU}:Queue._start_thread")
    feed = a.feeder
    okf = False
    for n in func_nodes(st):
        if isinstance(n, ast.Call) and any(k.arg == "target" for k in n.keywords):
            args = next((k.value for k in n.keywords if k.arg == "args"), None)
            if isinstance(args, ast.Tuple) and len(args.elts) == len(feed.params):
                i = feed.params.index("reducers") if "reducers" in feed.params else -1
                okf = i >= 0 and norm(args.elts[i]) == f"self.{RED.get('Queue')}"
                R.check(len(args.elts) == len(feed.params), "R-REDUCERS-FLOW", "feeder thread gets as many arguments as it has parameters", st.short, norm(args)[:60],
                        "feeder arity mismatch", e.loc(st, n))
    R.check(okf, "R-REDUCERS-FLOW", "the feeder thread receives the queue's own reducers in the reducers position", st.short, "args=(..., self._reducers, ...)",
            "tasks are serialised without the call queue's reducers", e.loc(st, st.node))
    # dumps -> dump -> pickler(reducers=reducers)
    for fn in ("dumps", "dump"):
        f = e.prog.func(f"{RD}:{fn}")
        ok = any(isinstance(n, ast.Call) and any(k.arg == "reducers" and isinstance(k.value, ast.Name) and k.value.id == "reducers" for k in n.keywords)
                 for n in func_nodes(f))
        R.check(ok, "R-REDUCERS-FLOW", f"{fn}: forwards reducers to the pickler", f.short, "reducers=reducers", f"{fn} drops the reducers", e.loc(f, f.node))
    R.floor("R-REDUCERS-FLOW", 10)


def r_pickler_name(e, R):
    a = e.anchors
    # call item class: the one put on the call queue by the manager
    ci = None
    for q in a.manager_funcs:
        f = e.prog.funcs[q]
        for c in func_nodes(f):
            if isinstance(c, ast.Call) and e.receiver_objs(f, c, ("put",)) & a.callq and c.args:
                cl = {o[2] for o in e.objs(f, c.args[0]) if o[0] == "obj" and o[2] in e.prog.classes}
                if cl:
                    ci = e.prog.classes[sorted(cl)[0]]
    if ci is None:
        raise AnalysisError("call item class not found")
    init, call = ci.methods.get("__init__"), ci.methods.get("__call__")
    getn = f"{RD}:get_loky_pickler_name"
    setn = f"{RD}:set_loky_pickler"
    attr = None
    for n in func_nodes(init):
        if isinstance(n, ast.Assign) and isinstance(n.value, ast.Call) and getn in e.callees_of(n.value) and isinstance(n.targets[0], ast.Attribute):
            attr = n.targets[0].attr
    R.check(attr is not None, "R-PICKLER-NAME", "call item records the pickler selected at submit time", init.short, "self.loky_pickler = get_loky_pickler_name()",
            "the pickler selected when the task is submitted is not recorded in the task", e.loc(init, init.node))
    g = e.cfg(call)
    sets = [n for n in g.nodes for c in calls_in(n) if setn in e.callees_of(c) and c.args and isinstance(c.args[0], ast.Attribute) and c.args[0].attr == attr]
    runs = [n for n in g.nodes for c in calls_in(n) if isinstance(c.func, ast.Attribute) and isinstance(c.func.value, ast.Name) and c.func.value.id == call.params[0]
            and any(isinstance(x, ast.Starred) for x in c.args)]
    R.check(bool(sets) and bool(runs) and all(any(g.dominates(s, r) and s is not r for s in sets) for r in runs), "R-PICKLER-NAME",
            "the worker re-selects the recorded pickler before running the task", call.short, "set_loky_pickler(self.loky_pickler)",
            "the worker runs the task (and pickles its result) with whatever pickler it last used, not the one selected at submission",
            e.loc(call, call.node))
    # ... and it stays selected until the result has been sent back: the result (or the exception) is serialised by the worker
    # *after* the call item returned, so any later re-selection inside the call item or between the call and the send-back
    # makes the result travel with another pickler than the one chosen at submission.
    others = [n for n in g.nodes for c in calls_in(n) if setn in e.callees_of(c) and n not in sets]
    for s_ in sets:
        late = [o for o in others if g.find_path(s_, lambda x, o=o: x is o, use_exc=True) is not None]
        R.check(not late, "R-PICKLER-NAME", "the recorded pickler stays selected when the call item returns (the result is pickled afterwards)", call.short,
                norm(late[0].ast)[:70] if late else "no later set_loky_pickler", "the call item re-selects another pickler before returning: the result / exception of the "
                "task is serialised with the worker's own default instead of the pickler selected at submission", e.loc(call, late[0].ast) if late else None)
    w = a.worker_main
    wg = e.cfg(w)
    tv = None
    for n in func_nodes(w):
        if isinstance(n, ast.Assign) and isinstance(n.targets[0], ast.Name) and isinstance(n.value, ast.Call) and e.receiver_objs(w, n.value, ("get",)) & a.callq:
            tv = n.targets[0].id
    taskn = [n for n in wg.nodes for c in calls_in(n) if isinstance(c.func, ast.Name) and c.func.id == tv]
    sends = [n for n in wg.nodes for c in calls_in(n) if e.call_has_effect(w, c, lambda f_, c_: bool(e.receiver_objs(f_, c_, ("put",)) & a.resq))]
    resel = [n for n in wg.nodes for c in calls_in(n) if e.call_has_effect(w, c, lambda f_, c_: setn in e.callees_of(c_)) and n not in taskn]
    if not taskn or not sends:
        raise AnalysisError("worker: task call / result send-back not found")
    for t in taskn:
        bad = [r for r in resel if wg.find_path(t, lambda x, r=r: x is r, avoid=sends, use_exc=True) is not None]
        R.check(not bad, "R-PICKLER-NAME", "worker: no re-selection of the pickler between running a task and sending its result", w.short,
                norm(bad[0].ast)[:70] if bad else "task call ... send-back", "the pickler is changed between the task and the serialisation of its result",
                e.loc(w, bad[0].ast) if bad else None)
    # the name is part of what travels: plain attribute of a default-pickled object
    R.check("__getstate__" not in ci.methods and "__reduce__" not in ci.methods, "R-PICKLER-NAME", "the recorded name travels with the call item (default pickling)",
            ci.name, "no custom __reduce__", "custom pickling of the call item may drop the pickler name", None)
    gl = e.prog.func(getn)
    name_glob, class_glob = pickler_globals(e)
    R.check(any(isinstance(n, ast.Return) and isinstance(n.value, ast.Name) and n.value.id == name_glob and name_glob not in gl.locals for n in func_nodes(gl)), "R-PICKLER-NAME",
            "get_loky_pickler_name returns the current selection (a module global)", gl.short, f"return {name_glob}", "the recorded name is not the current pickler", e.loc(gl, gl.node))
    sl = e.prog.func(setn)
    stores = [n for n in func_nodes(sl) if isinstance(n, ast.Assign) and isinstance(n.targets[0], ast.Name) and n.targets[0].id in (name_glob, class_glob)]
    sg = e.cfg(sl)
    R.check(len(stores) == 2 and {name_glob, class_glob} <= sl.globals_decl, "R-PICKLER-NAME", "set_loky_pickler updates class and name together", sl.short,
            f"{class_glob} = ...; {name_glob} = ...", "the pickler class and its recorded name can diverge", e.loc(sl, sl.node))
    R.floor("R-PICKLER-NAME", 5)


def r_pickler_select(e, R):
    """R-PICKLER-SELECT: which pickler set_loky_pickler installs, and that the pickler it builds honours loky's and the queue's reducers."""
    from . import scenario as SC
    sl = e.prog.func(f"{RD}:set_loky_pickler")
    g = e.cfg(sl)
    p0 = sl.params[0]
    cur, class_glob = pickler_globals(e)

    def cmp_ev(kind, val):
        def ev(x):
            if isinstance(x, ast.Compare) and len(x.ops) == 1 and isinstance(x.left, ast.Name) and x.left.id == p0:
                op, r = x.ops[0], x.comparators[0]
                if kind == "same" and isinstance(op, (ast.Eq, ast.NotEq)) and isinstance(r, ast.Name) and r.id == cur:
                    return val == isinstance(op, ast.Eq)
                if kind == "cloud" and isinstance(op, (ast.Eq, ast.NotEq)) and isinstance(r, ast.Constant) and r.value == "cloudpickle":
                    return val == isinstance(op, ast.Eq)
                if kind == "empty" and isinstance(op, (ast.In, ast.NotIn)) and isinstance(r, (ast.List, ast.Tuple, ast.Set)):
                    return val == isinstance(op, ast.In)
                if kind == "none" and isinstance(op, (ast.Is, ast.IsNot)) and isinstance(r, ast.Constant) and r.value is None:
                    return val == isinstance(op, ast.Is)
            return None
        return ev
    gstores = lambda n: n.kind == "stmt" and isinstance(n.ast, ast.Assign) and isinstance(n.ast.targets[0], ast.Name) and n.ast.targets[0].id in (class_glob, cur) \
        and n.ast.targets[0].id in sl.globals_decl
    imp = lambda n: any(norm(c.func).endswith("import_module") and c.args and isinstance(c.args[0], ast.Name) and c.args[0].id == p0 for c in calls_in(n))
    envset = lambda n: n.kind == "stmt" and isinstance(n.ast, ast.Assign) and isinstance(n.ast.targets[0], ast.Name) and n.ast.targets[0].id == p0 \
        and isinstance(n.ast.value, ast.Name) and "ENV" in n.ast.value.id.upper()
    dflt = lambda n: n.kind == "stmt" and isinstance(n.ast, ast.Assign) and isinstance(n.ast.targets[0], ast.Name) and n.ast.targets[0].id == p0 \
        and isinstance(n.ast.value, ast.Constant) and n.ast.value.value == "cloudpickle"
    other = [cmp_ev("none", False), cmp_ev("empty", False), cmp_ev("same", False), cmp_ev("cloud", False)]
    SC.must(e, R, "R-PICKLER-SELECT", sl, "another pickler module is named", [], imp, "imports that module's Pickler", "the named pickler is ignored", evaluators=other)
    SC.must(e, R, "R-PICKLER-SELECT", sl, "another pickler module is named", [], gstores, "installs the new pickler class and its name", "the selection has no effect", evaluators=other)
    SC.never(e, R, "R-PICKLER-SELECT", sl, "the named pickler is the current one", [], gstores, "a rebuild of the pickler class",
             "every task rebuilds the pickler class (and, inverted, a *different* name is what gets skipped: the selection never changes)",
             evaluators=[cmp_ev("none", False), cmp_ev("empty", False), cmp_ev("same", True)])
    SC.must(e, R, "R-PICKLER-SELECT", sl, "no name is given", [], envset, "falls back to the LOKY_PICKLER environment setting", "LOKY_PICKLER is ignored",
            evaluators=[cmp_ev("none", True)])
    SC.never(e, R, "R-PICKLER-SELECT", sl, "a name is given", [], envset, "the environment fallback", "an explicit choice is overridden by LOKY_PICKLER",
             evaluators=[cmp_ev("none", False)])
    SC.must(e, R, "R-PICKLER-SELECT", sl, "the name is empty", [], dflt, "defaults to cloudpickle", "an empty LOKY_PICKLER selects no pickler",
            evaluators=[cmp_ev("empty", True)])
    SC.never(e, R, "R-PICKLER-SELECT", sl, "a non-empty name is given", [], dflt, "the cloudpickle default", "the named pickler is replaced by cloudpickle",
             evaluators=[cmp_ev("none", False), cmp_ev("empty", False)])
    SC.never(e, R, "R-PICKLER-SELECT", sl, "cloudpickle is named", [], imp, "an import of a module called like the name",
             "cloudpickle's Pickler class (not CloudPickler) would be used", evaluators=[cmp_ev("none", False), cmp_ev("empty", False), cmp_ev("same", False), cmp_ev("cloud", True)])
    # the pickler class: its table = copy + loky's registered reducers + the queue's reducers
    pc = pickler_class(e)
    ini = pc.methods["__init__"]
    reg = pc.methods.get("register")
    ig = e.cfg(ini)
    mod_table = module_reducer_table(e)
    upd = lambda n: any(isinstance(c.func, ast.Attribute) and c.func.attr == "update" and c.args and isinstance(c.args[0], ast.Name) and c.args[0].id == mod_table
                        for c in calls_in(n))
    setter_q = table_setter(e, pc).qualname
    setdt = lambda n: any(setter_q in e.callees_of(c) or (isinstance(c.func, ast.Attribute) and c.func.attr == setter_q.split(".")[-1]) for c in calls_in(n))
    regc = lambda n: any(reg is not None and reg.qualname in e.callees_of(c) for c in calls_in(n))
    for what, pr, why in (("adds loky's module-level reducers (register())", upd, "reducers registered with loky.backend.reduction.register are ignored by every queue"),
                          ("installs the private table on the pickler", setdt, "the pickler keeps the shared class-level table")):
        esc = ig.escape_path(ig.entry, pr, use_exc=False)
        R.check(esc is None and any(pr(n) for n in ig.nodes), "R-PICKLER-SELECT", f"{ini.short}: {what} on every path", ini.short, what, why, e.loc(ini, ini.node))
    redp = ini.params[2] if len(ini.params) > 2 else None
    if redp is None:
        raise AnalysisError("pickler class: reducers parameter not found")
    def _reg_in_order(n):
        tn = [t.id for t in n.target.elts] if isinstance(n.target, ast.Tuple) and all(isinstance(t, ast.Name) for t in n.target.elts) else []
        return any(isinstance(c, ast.Call) and reg is not None and reg.qualname in e.callees_of(c) and len(c.args) == 2 and len(tn) == 2
                   and [getattr(x, "id", None) for x in c.args] == tn for c in ast.walk(n))
    loops = [n for n in func_nodes(ini) if isinstance(n, ast.For) and isinstance(n.iter, ast.Call) and isinstance(n.iter.func, ast.Attribute) and n.iter.func.attr == "items"
             and isinstance(n.iter.func.value, ast.Name) and n.iter.func.value.id == redp and _reg_in_order(n)]
    reach = ig.find_path(ig.entry, regc, use_exc=False, edge_ok=SC.Facts([(SC.name(redp), "some")]).edge_ok())
    R.check(bool(loops) and reach is not None, "R-PICKLER-SELECT", f"{ini.short}: registers every reducer of the queue on this pickler", ini.short,
            f"for type, reduce_func in {redp}.items(): self.register(type, reduce_func)", "job_reducers / result_reducers are silently ignored", e.loc(ini, ini.node))
    reset = lambda n: n.kind == "stmt" and isinstance(n.ast, ast.Assign) and isinstance(n.ast.targets[0], ast.Name) and n.ast.targets[0].id == redp
    SC.never(e, R, "R-PICKLER-SELECT", ini, "the queue has reducers", [(SC.name(redp), "some")], reset, "a reset of the reducers", "the queue's reducers are replaced by an empty mapping")
    # without reducers the iteration over `<reducers>.items()` is never reached with None: an empty mapping is substituted first, or the
    # registration loop is skipped
    iters = [n for n in ig.nodes if n.kind == "for_iter" and any(n.ast is lp for lp in loops)]
    resets = [n for n in ig.nodes if reset(n)]
    bad_ = None
    for it_ in iters:
        bad_ = bad_ or ig.find_path(ig.entry, lambda x, it_=it_: x is it_, avoid=resets, use_exc=False, edge_ok=SC.Facts([(SC.name(redp), "none")]).edge_ok())
    R.check(bool(iters) and bad_ is None, "R-PICKLER-SELECT", f"{ini.short}: without reducers, `.items()` is never evaluated on None", ini.short,
            f"{redp} is None -> {{}} or no registration loop", "None.items() raises for every queue without reducers", e.loc(ini, ini.node), ig.fmt_path(bad_) if bad_ else None)
    has_dt = lambda x: isinstance(x, ast.Call) and isinstance(x.func, ast.Name) and x.func.id == "hasattr" and len(x.args) == 2 and isinstance(x.args[1], ast.Constant) \
        and x.args[1].value == "dispatch_table"
    own = lambda n: n.kind == "stmt" and isinstance(n.ast, ast.Assign) and any(isinstance(x, ast.Attribute) and x.attr == "dispatch_table" and isinstance(x.value, ast.Name)
                                                                             and x.value.id == ini.params[0] for x in ast.walk(n.ast.value))
    glob_dt = lambda n: n.kind == "stmt" and isinstance(n.ast, ast.Assign) and "copyreg.dispatch_table" in norm(n.ast.value)
    SC.must(e, R, "R-PICKLER-SELECT", ini, "the base pickler has its own dispatch table (cloudpickle)", [(has_dt, "T")], own, "starts from a copy of that table",
            "cloudpickle's own reducers are lost: functions and classes defined in __main__ stop being picklable")
    SC.never(e, R, "R-PICKLER-SELECT", ini, "the base pickler has no dispatch table of its own (plain pickle)", [(has_dt, "F")], own, "a read of self.dispatch_table",
             "AttributeError when the plain pickle backend is selected")
    SC.must(e, R, "R-PICKLER-SELECT", ini, "the base pickler has no dispatch table of its own (plain pickle)", [(has_dt, "F")], glob_dt, "starts from a copy of copyreg.dispatch_table",
            "the copyreg reducers are lost with the plain pickle backend")
    if reg is None:
        raise AnalysisError("pickler class: register() not found")
    rg = e.cfg(reg)
    st = lambda n: n.kind == "stmt" and isinstance(n.ast, ast.Assign) and isinstance(n.ast.targets[0], ast.Subscript) and norm(n.ast.targets[0].value).endswith("dispatch_table") \
        and isinstance(n.ast.targets[0].slice, ast.Name) and n.ast.targets[0].slice.id == reg.params[1] and isinstance(n.ast.value, ast.Name) and n.ast.value.id == reg.params[2]
    R.check(rg.escape_path(rg.entry, st, use_exc=False) is None and any(st(n) for n in rg.nodes), "R-PICKLER-SELECT",
            f"{reg.short}: stores the reducer for the type in this pickler's table", reg.short, "self.dispatch_table[type] = reduce_func",
            "per-queue reducers are accepted and dropped", e.loc(reg, reg.node))
    R.floor("R-PICKLER-SELECT", 12)


def r_reduce_arity(e, R):
    reg = e.prog.func(f"{RD}:register")
    n_red = 0
    for f, c in e.all_calls():
        if reg.qualname not in e.callees_of(c) or len(c.args) != 2:
            continue
        reducers = [e.prog.funcs[v[1]] for v in e.pt.ev(f, c.args[1]) if v[0] == "func" and v[1] in e.prog.funcs]
        for rf in reducers:
            for r in [n for n in func_nodes(rf) if isinstance(n, ast.Return)]:
                v = r.value
                n_red += 1
                if not (isinstance(v, ast.Tuple) and len(v.elts) == 2 and isinstance(v.elts[1], ast.Tuple)):
                    R.fail("R-REDUCE-ARITY", rf.short, norm(r), "a reducer does not return (rebuild, args)", e.loc(rf, r))
                    continue
                rb = v.elts[0]
                args = v.elts[1].elts
                tgt = [x for x in e.pt.ev(rf, rb)]
                if any(x == ("ext", "builtins.getattr") for x in tgt):
                    R.check(len(args) == 2, "R-REDUCE-ARITY", f"{rf.short}: reduces to getattr(obj, name)", rf.short, norm(v), "getattr needs (object, name)", e.loc(rf, r))
                    last = args[-1]
                    R.check(norm(last).endswith("__name__"), "R-REDUCE-ARITY", f"{rf.short}: the attribute looked up is the method's own name", rf.short, norm(last),
                            "the method is rebuilt under another name", e.loc(rf, r))
                    continue
                fs = [e.prog.funcs[x[1]] for x in tgt if x[0] == "func" and x[1] in e.prog.funcs]
                if fs:
                    rbf = fs[0]
                    R.check(len(args) == len(rbf.params), "R-REDUCE-ARITY", f"{rf.short}: {len(args)} arguments for {rbf.short}({', '.join(rbf.params)})", rf.short, norm(v),
                            f"{rf.short} ships {len(args)} values but {rbf.short} takes {len(rbf.params)}: the object cannot be rebuilt (or silently loses state)",
                            e.loc(rf, r))
                    # role agreement: attribute shipped at position i is named like parameter i
                    for a_, p_ in zip(args, rbf.params):
                        names = {x.attr for x in ast.walk(a_) if isinstance(x, ast.Attribute)} | {x.id for x in ast.walk(a_) if isinstance(x, ast.Name)}
                        if p_ in ("func", "args", "keywords", "family", "type", "proto", "readable", "writable"):
                            R.check(p_ in names, "R-REDUCE-ARITY", f"{rf.short}: position of `{p_}` agrees between reducer and rebuild", rf.short, norm(a_),
                                    f"`{norm(a_)}` is shipped in the position of `{p_}`", e.loc(rf, r))
    # partial: the rebuild applies keywords
    rp = e.prog.funcs.get(f"{RD}:_rebuild_partial")
    if rp is not None:
        ok = any(isinstance(n, ast.Call) and norm(n.func).endswith("partial") and any(isinstance(x, ast.Starred) for x in n.args) and any(k.arg is None for k in n.keywords)
                 for n in func_nodes(rp))
        R.check(ok, "R-REDUCE-ARITY", "partial objects are rebuilt with their positional and keyword arguments", rp.short, "functools.partial(func, *args, **keywords)",
                "a partial loses its arguments or keywords on the way to the worker", e.loc(rp, rp.node))
    if n_red < 6:
        raise AnalysisError(f"R-REDUCE-ARITY: {n_red} reducer returns found (floor 6)")


# ---------------------------------------------------------------------------
# C16
# ---------------------------------------------------------------------------

def _wrapper_classes(e):
    base = e.prog.cls(f"{CW}:CloudpickledObjectWrapper")
    subs = [c for q, c in e.prog.classes.items() if q.startswith(CW) and e.pt.is_subclass(q, base.qualname) and c is not base]
    return base, subs


def _has_call(e, cq):
    return e.pt.lookup_method(cq, "__call__") is not None


def _flag_of_call_test(e, f, g, t):
    """t tests a boolean flag that is set to True exactly under a test mentioning `__call__` (the explicit-loop spelling of
    `any("__call__" in vars(k) for k in mro)`) and is False otherwise."""
    if not isinstance(t.ast, ast.Name):
        return False
    defs = e.local_defs(f, t.ast.id)
    if not defs or not all(isinstance(d, ast.Constant) and isinstance(d.value, bool) for d in defs) or {d.value for d in defs} != {True, False}:
        return False
    trues = [n for n in g.nodes if n.kind == "stmt" and isinstance(n.ast, ast.Assign) and isinstance(n.ast.targets[0], ast.Name) and n.ast.targets[0].id == t.ast.id
             and isinstance(n.ast.value, ast.Constant) and n.ast.value.value is True]
    call_tests = [x for x in g.nodes if x.kind == "test" and "__call__" in norm(x.ast)]
    return bool(trues) and all(any(g.on_branch(n, ct, "T") for ct in call_tests) for n in trues)


def r_wrap_dispatch(e, R):
    base, subs = _wrapper_classes(e)
    # (a) the instance path dispatches on callable()
    disp = instance_dispatch(e)
    OBJ, KEEP = wrapper_fields(e)
    g = e.cfg(disp)
    tests = [t for t in g.nodes if t.kind == "test" and isinstance(t.ast, ast.Call) and norm(t.ast.func) == "callable"]
    ok = False
    if tests:
        t = tests[0]
        # the class constructed on each branch: `return C(...)` on the branch, or `v = C` on the branch with `return v(...)` after the join
        sel_vars = {n.ast.targets[0].id for n in g.nodes if n.kind == "stmt" and isinstance(n.ast, ast.Assign) and isinstance(n.ast.targets[0], ast.Name)
                    and any(v[0] == "class" for v in e.pt.ev(disp, n.ast.value)) and (g.on_branch(n, t, "T") or g.on_branch(n, t, "F"))}

        def classes_on(label):
            other = "F" if label == "T" else "T"
            out, n_sites = set(), 0
            for n in g.nodes:
                if n.kind != "stmt" or not g.on_branch(n, t, label) or g.on_branch(n, t, other):
                    continue
                if isinstance(n.ast, ast.Return) and isinstance(n.ast.value, ast.Call) and not (isinstance(n.ast.value.func, ast.Name) and n.ast.value.func.id in sel_vars):
                    out |= {v[1] for v in e.pt.ev(disp, n.ast.value.func) if v[0] == "class"}
                    n_sites += 1
                if isinstance(n.ast, ast.Assign) and isinstance(n.ast.targets[0], ast.Name) and n.ast.targets[0].id in sel_vars:
                    out |= {v[1] for v in e.pt.ev(disp, n.ast.value) if v[0] == "class"}
                    n_sites += 1
            return out, n_sites
        tc, tn = classes_on("T")
        fc, fn_ = classes_on("F")
        built = not sel_vars or any(isinstance(n, ast.Return) and isinstance(n.value, ast.Call) and isinstance(n.value.func, ast.Name) and n.value.func.id in sel_vars
                                    for n in func_nodes(disp))
        ok = bool(tc) and bool(fc) and built and all(_has_call(e, c) for c in tc) and not any(_has_call(e, c) for c in fc)
    R.check(ok, "R-WRAP-DISPATCH", "instances are wrapped in the callable wrapper iff callable(obj)", disp.short, "if callable(obj): CallableObjectWrapper else CloudpickledObjectWrapper",
            "the wrapper of an object is callable although the object is not, or the reverse", e.loc(disp, disp.node))
    # (b) every construction of a wrapper goes through that dispatch, or statically has the right class
    wq = {c.qualname for c in [base] + subs}
    for f, c in e.all_calls():
        cls = {v[1] for v in e.pt.ev(f, c.func) if v[0] == "class"} & wq
        if cls and f is not disp:
            R.fail("R-WRAP-DISPATCH", f.short, norm(c)[:70], "a wrapper is constructed outside the callable() dispatch", e.loc(f, c))
    rec = rebuild_func(e, disp)
    R.check(any(isinstance(n, ast.Call) and disp.qualname in e.callees_of(n) for n in func_nodes(rec)), "R-WRAP-DISPATCH",
            "a wrapper rebuilt after a pickle round trip goes through the same dispatch", rec.short, "_wrap_non_picklable_objects(obj, keep_wrapper)",
            "after a round trip the wrapper's callability is decided differently", e.loc(rec, rec.node))
    # ... with (the object just loaded, the flag it was shipped with), in the dispatch's parameter order
    for n in func_nodes(rec):
        if isinstance(n, ast.Call) and disp.qualname in e.callees_of(n):
            loaded = {d_.targets[0].id for d_ in func_nodes(rec) if isinstance(d_, ast.Assign) and isinstance(d_.targets[0], ast.Name) and isinstance(d_.value, ast.Call)
                      and any(v == ("ext", "cloudpickle.loads") for v in e.pt.ev(rec, d_.value.func))}
            b = bind_call(n, disp)
            okb = isinstance(b.get(disp.params[0]), ast.Name) and b[disp.params[0]].id in loaded and isinstance(b.get(disp.params[1]), ast.Name) \
                and b[disp.params[1]].id == rec.params[1]
            R.check(okb, "R-WRAP-DISPATCH", "the rebuilt wrapper wraps the object just loaded, with the flag it was shipped with", rec.short, norm(n),
                    "after a round trip the wrapper wraps something else than the un-pickled object (arguments swapped / wrong variable)", e.loc(rec, n))
    # (c) the class-wrapping path: the wrapper class derives from the callable wrapper iff the wrapped class defines __call__
    pub = e.prog.func(f"{CW}:wrap_non_picklable_objects")
    nested = [c for c in subs if c.parent_func is pub]
    R.check(len(nested) == 1, "R-WRAP-DISPATCH", "wrapping a class builds one wrapper class", pub.short, "class CloudpickledClassWrapper", "class path missing", e.loc(pub, pub.node))
    for c in nested:
        bases = c.base_exprs
        okc = False
        why = "its base is fixed"
        if len(bases) == 1 and isinstance(bases[0], ast.Name):
            defs = [(n, stmt_of(e, pub, n)) for n in func_nodes(pub) if isinstance(n, ast.Name) and isinstance(n.ctx, ast.Store) and n.id == bases[0].id]
            pg = e.cfg(pub)
            by_branch = {}
            for n, st in defs:
                cls = {v[1] for v in e.pt.ev(pub, st.value) if v[0] == "class"}
                for cn in pg.nodes_of(st):
                    for t in pg.nodes:
                        if t.kind == "test" and ("__call__" in norm(inline_locals(e, pub, t.ast)) or _flag_of_call_test(e, pub, pg, t)):
                            for lab in ("T", "F"):
                                if pg.on_branch(cn, t, lab):
                                    by_branch[lab] = cls
            okc = set(by_branch) == {"T", "F"} and all(_has_call(e, q) for q in by_branch["T"]) and bool(by_branch["T"]) \
                and not any(_has_call(e, q) for q in by_branch["F"]) and bool(by_branch["F"])
            why = f"bases by branch of the __call__ test: {by_branch}"
        elif len(bases) == 1:
            cls = {v[1] for v in e.pt.ev(pub, bases[0]) if v[0] == "class"}
            why = f"its base is always {sorted(cls)}"
        R.check(okc, "R-WRAP-DISPATCH", "instances of a wrapped class are callable iff the class defines __call__", pub.short,
                f"class {c.name}({', '.join(norm(b) for b in bases)})",
                f"wrapping a class bypasses the callable dispatch ({why}): an instance of a class with __call__ is not callable until it went "
                "through a pickle round trip (or a non-callable one becomes callable)", e.loc(pub, c.node))
    cw = e.prog.cls(f"{CW}:CallableObjectWrapper")
    cm = cw.methods.get("__call__")
    okf = cm is not None and any(isinstance(n, ast.Return) and isinstance(n.value, ast.Call) and norm(n.value.func) == f"{cm.params[0]}.{OBJ}"
                                 and any(isinstance(x, ast.Starred) for x in n.value.args) and any(k.arg is None for k in n.value.keywords) for n in func_nodes(cm))
    R.check(okf, "R-WRAP-DISPATCH", "the callable wrapper forwards the call unchanged", cw.name, "return self._obj(*args, **kwargs)", "calls are not forwarded with all "
            "arguments / the result is dropped", e.loc(cm, cm.node) if cm else None)
    # ---- polarity (scenario obligations)
    from . import scenario as SC
    pg = e.cfg(pub)
    isclass = lambda x: isinstance(x, ast.Call) and norm(x.func).endswith("isclass")
    ret_cls = lambda n: n.kind == "stmt" and isinstance(n.ast, ast.Return) and isinstance(n.ast.value, ast.Name) and n.ast.value.id in {c.name.split(".")[-1] for c in nested}
    ret_inst = lambda n: n.kind == "stmt" and isinstance(n.ast, ast.Return) and isinstance(n.ast.value, ast.Call) and disp.qualname in e.callees_of(n.ast.value)
    SC.must(e, R, "R-WRAP-DISPATCH", pub, "a class is wrapped", [(isclass, "T")], ret_cls, "returns the generated wrapper class", "wrapping a class returns None / an instance wrapper around the class object")
    SC.never(e, R, "R-WRAP-DISPATCH", pub, "a class is wrapped", [(isclass, "T")], ret_inst, "the instance path", "a class is wrapped like an instance: calling it builds an unwrapped object")
    SC.must(e, R, "R-WRAP-DISPATCH", pub, "an instance / function is wrapped", [(isclass, "F")], ret_inst, "returns the instance wrapper chosen by the callable() dispatch",
            "wrapping an object returns nothing or a class")
    ga = base.methods.get("__getattr__")
    if ga is None:
        raise AnalysisError("wrapper: __getattr__ not found")
    gg = e.cfg(ga)
    ap = ga.params[1]

    def reserved(val):
        def ev(x):
            if isinstance(x, ast.Compare) and len(x.ops) == 1 and isinstance(x.ops[0], (ast.In, ast.NotIn)) and isinstance(x.left, ast.Name) and x.left.id == ap:
                return val == isinstance(x.ops[0], ast.In)
            return None
        return ev
    deleg = lambda n: n.kind == "stmt" and isinstance(n.ast, ast.Return) and isinstance(n.ast.value, ast.Call) and norm(n.ast.value.func) == "getattr" \
        and len(n.ast.value.args) == 2 and norm(n.ast.value.args[0]) == f"{ga.params[0]}.{OBJ}" and isinstance(n.ast.value.args[1], ast.Name) and n.ast.value.args[1].id == ap
    SC.must(e, R, "R-WRAP-DISPATCH", ga, "an attribute of the wrapped object is looked up", [], deleg, "forwards the lookup to the wrapped object",
            "the wrapper does not expose the attributes of the object it wraps (or recurses forever)", evaluators=[reserved(False)])
    SC.never(e, R, "R-WRAP-DISPATCH", ga, "one of the wrapper's own fields is missing (half-built / unpickling)", [], deleg, "a lookup on self._obj",
             "infinite recursion: looking up `_obj` through `self._obj` calls __getattr__ again", evaluators=[reserved(True)])
    R.floor("R-WRAP-DISPATCH", 10)


def r_wrap_fields(e, R):
    base, subs = _wrapper_classes(e)
    OBJ, KEEP = wrapper_fields(e)
    bi = base.methods["__init__"]
    battrs = {n.attr for n in func_nodes(bi) if isinstance(n, ast.Attribute) and isinstance(n.ctx, ast.Store) and isinstance(n.value, ast.Name) and n.value.id == bi.params[0]}
    R.info["wrapper_fields"] = sorted(battrs)
    for c in subs:
        ci = c.methods.get("__init__")
        if ci is None:
            continue
        calls_super = any(isinstance(n, ast.Call) and bi.qualname in e.callees_of(n) for n in func_nodes(ci))
        attrs = {n.attr for n in func_nodes(ci) if isinstance(n, ast.Attribute) and isinstance(n.ctx, ast.Store) and isinstance(n.value, ast.Name) and n.value.id == ci.params[0]}
        R.check(calls_super or attrs == battrs, "R-WRAP-FIELDS", f"{c.name}.__init__ sets the same fields as the base wrapper", ci.short, f"{sorted(attrs)}",
                f"{c.name} does not set {sorted(battrs - attrs)}: __reduce__/__getattr__ of the base class recurse or fail", e.loc(ci, ci.node))
        # the keep_wrapper flag stored is the one requested
        pub = c.parent_func
        if pub is not None:
            okk = any(isinstance(n, ast.Assign) and isinstance(n.targets[0], ast.Attribute) and n.targets[0].attr == KEEP and isinstance(n.value, ast.Name)
                      and n.value.id in pub.params for n in func_nodes(ci))
            R.check(okk, "R-WRAP-FIELDS", f"{c.name}: keeps the requested keep_wrapper flag", ci.short, "self._keep_wrapper = keep_wrapper", "keep_wrapper is ignored for classes",
                    e.loc(ci, ci.node))
            oko = any(isinstance(n, ast.Assign) and isinstance(n.targets[0], ast.Attribute) and n.targets[0].attr == OBJ and isinstance(n.value, ast.Call)
                      and isinstance(n.value.func, ast.Name) and n.value.func.id in pub.params and any(isinstance(x, ast.Starred) for x in n.value.args)
                      and any(k.arg is None for k in n.value.keywords) for n in func_nodes(ci))
            R.check(oko, "R-WRAP-FIELDS", f"{c.name}: the instance is built by the wrapped class with the caller's arguments", ci.short, "self._obj = obj(*args, **kwargs)",
                    "constructor arguments are not forwarded to the wrapped class", e.loc(ci, ci.node))
    # the wrapper's own state is exactly the base fields: nothing may copy attributes of the wrapped object onto the
    # wrapper (they would shadow __getattr__ forwarding, go stale, or overwrite _obj / _keep_wrapper)
    WRITERS = ("functools.update_wrapper", "functools.wraps", "builtins.setattr", "builtins.vars", "copy.copy")
    for c in [base] + subs:
        for m in c.methods.values():
            if not m.params:
                continue
            sn = m.params[0]
            for n in func_nodes(m):
                if isinstance(n, ast.Attribute) and isinstance(n.ctx, ast.Store) and isinstance(n.value, ast.Name) and n.value.id == sn:
                    R.check(n.attr in battrs, "R-WRAP-FIELDS", f"{m.short}: stores only the wrapper's own fields (`{n.attr}`)", m.short, norm(n),
                            f"the wrapper stores an extra attribute `{n.attr}` on itself: it shadows the wrapped object's attribute of that name",
                            e.loc(m, n))
                if isinstance(n, ast.Attribute) and n.attr == "__dict__" and isinstance(n.value, ast.Name) and n.value.id == sn:
                    R.fail("R-WRAP-FIELDS", m.short, norm(n), "the wrapper manipulates its own __dict__: copied attributes shadow __getattr__ forwarding",
                           e.loc(m, n))
                if isinstance(n, ast.Call) and any(isinstance(x, ast.Name) and x.id == sn for x in n.args) and \
                        any(v[0] == "ext" and v[1] in WRITERS for v in e.pt.ev(m, n.func)):
                    R.fail("R-WRAP-FIELDS", m.short, norm(n)[:70],
                           f"`{norm(n.func)}` copies attributes of the wrapped object (its whole __dict__, __name__, __doc__, ...) onto the wrapper: "
                           "instance attributes then shadow the forwarding __getattr__ and go stale as soon as the wrapped object changes, and a wrapped "
                           "object that is itself a wrapper overwrites _obj / _keep_wrapper", e.loc(m, n))
    ga = base.methods.get("__getattr__")
    okg = False
    if ga is not None:
        # the membership test against the literal collection of own fields, either polarity; the forwarding return sits on its
        # "not an own field" branch and nowhere else
        gg = e.cfg(ga)
        lits, fwd = set(), False
        fwd_nodes = [n for n in gg.nodes if n.kind == "stmt" and isinstance(n.ast, ast.Return) and isinstance(n.ast.value, ast.Call) and norm(n.ast.value.func) == "getattr"
                     and len(n.ast.value.args) == 2 and norm(n.ast.value.args[0]) == f"{ga.params[0]}.{OBJ}"
                     and isinstance(n.ast.value.args[1], ast.Name) and n.ast.value.args[1].id == ga.params[1]]
        for t_ in [x for x in gg.nodes if x.kind == "test"]:
            x, flip = (t_.ast.operand, True) if isinstance(t_.ast, ast.UnaryOp) and isinstance(t_.ast.op, ast.Not) else (t_.ast, False)
            if isinstance(x, ast.Compare) and len(x.ops) == 1 and isinstance(x.ops[0], (ast.NotIn, ast.In)) and isinstance(x.comparators[0], (ast.List, ast.Tuple, ast.Set)) \
                    and isinstance(x.left, ast.Name) and x.left.id == ga.params[1]:
                lits = {c.value for c in x.comparators[0].elts if isinstance(c, ast.Constant)}
                foreign = "T" if isinstance(x.ops[0], ast.NotIn) != flip else "F"
                own = "F" if foreign == "T" else "T"
                fwd = bool(fwd_nodes) and all(gg.on_branch(n, t_, foreign) and not gg.on_branch(n, t_, own) for n in fwd_nodes)
        okg = lits == battrs and fwd
    R.check(okg, "R-WRAP-FIELDS", "__getattr__ forwards every name except exactly the wrapper's own fields", base.name, f"not in {sorted(battrs)}",
            "attribute forwarding excludes the wrong names: infinite recursion during unpickling, or an attribute of the wrapped object is shadowed",
            e.loc(ga, ga.node) if ga else None)
    R.floor("R-WRAP-FIELDS", 3)


def r_wrap_reduce(e, R):
    base, subs = _wrapper_classes(e)
    rd = base.methods.get("__reduce__")
    if rd is None:
        R.fail("R-WRAP-REDUCE", base.name, "__reduce__", "the wrapper lost its __reduce__", None)
        return
    for c in subs:
        R.check("__reduce__" not in c.methods, "R-WRAP-REDUCE", f"{c.name} inherits the wrapper's __reduce__", c.name, "__reduce__", "a subclass overrides the pickling protocol", None)
    g = e.cfg(rd)
    selfn = rd.params[0]
    OBJ, KEEP = wrapper_fields(e)
    disp_ = instance_dispatch(e)
    rebuild_q = rebuild_func(e, disp_).qualname
    tests = [t for t in g.nodes if t.kind == "test" and isinstance(t.ast, ast.Attribute) and t.ast.attr == KEEP]
    rets = [n for n in g.nodes if n.kind == "stmt" and isinstance(n.ast, ast.Return)]
    if not tests or len(rets) != 2:
        R.fail("R-WRAP-REDUCE", rd.short, "keep_wrapper branches", "__reduce__ no longer branches on keep_wrapper", e.loc(rd, rd.node))
        return
    tests = [t_ for t_ in tests if all(g.on_branch(r, t_, "T") or g.on_branch(r, t_, "F") for r in rets)] or tests
    t = tests[0]
    # the payload: the name shipped by the returns; every definition of it must be a cloudpickle.dumps(self._obj)
    # executed by THIS invocation (a payload cached on the wrapper goes stale when the wrapped object changes)
    payload = None
    for r in rets:
        v = r.ast.value
        if isinstance(v, ast.Tuple) and len(v.elts) == 2 and isinstance(v.elts[1], ast.Tuple) and v.elts[1].elts and isinstance(v.elts[1].elts[0], ast.Name):
            payload = v.elts[1].elts[0].id
    defs = e.local_defs(rd, payload) if payload else []
    fresh = bool(defs) and all(isinstance(d, ast.Call) and norm(d.func) == "dumps" and d.args and norm(d.args[0]) == f"{selfn}.{OBJ}"
                               and any(v == ("ext", "cloudpickle.dumps") for v in e.pt.ev(rd, d.func)) for d in defs)
    R.check(fresh, "R-WRAP-REDUCE", "the payload is cloudpickle.dumps(self._obj) computed by this very call", rd.short,
            "; ".join(norm(d)[:50] for d in defs) or "payload", "the pickled payload is not (always) a fresh cloudpickle.dumps of the wrapped object: "
            "a cached payload ships a stale snapshot once the wrapped object has changed (second and later round trips)", e.loc(rd, rd.node))
    muts = [n for n in func_nodes(rd) if isinstance(n, ast.Attribute) and isinstance(n.ctx, ast.Store) and isinstance(n.value, ast.Name) and n.value.id == selfn]
    R.check(not muts, "R-WRAP-REDUCE", "__reduce__ does not modify the wrapper", rd.short, norm(muts[0]) if muts else "",
            "pickling has a side effect on the wrapper (state cached on it)", e.loc(rd, rd.node))
    for r in rets:
        keep = g.on_branch(r, t, "T")
        v = r.ast.value
        okv = isinstance(v, ast.Tuple) and len(v.elts) == 2 and isinstance(v.elts[1], ast.Tuple)
        if not okv:
            R.fail("R-WRAP-REDUCE", rd.short, norm(r.ast), "__reduce__ does not return (callable, args)", e.loc(rd, r.ast))
            continue
        fn, args = v.elts[0], v.elts[1].elts
        if keep:
            fs = {x[1] for x in e.pt.ev(rd, fn) if x[0] == "func"}
            okk = fs == {rebuild_q} and len(args) == 2 and isinstance(args[0], ast.Name) and args[0].id == payload \
                and norm(args[1]) == f"{selfn}.{KEEP}"
            R.check(okk, "R-WRAP-REDUCE", "keep_wrapper=True: rebuilt through the re-wrapping constructor with the same flag", rd.short, norm(v),
                    "with keep_wrapper=True the object does not arrive wrapped with the same flag", e.loc(rd, r.ast))
        else:
            okl = any(x == ("ext", "cloudpickle.loads") for x in e.pt.ev(rd, fn)) and len(args) == 1 and isinstance(args[0], ast.Name) and args[0].id == payload
            R.check(okl, "R-WRAP-REDUCE", "keep_wrapper=False: rebuilt by loads(payload) -- arrives unwrapped", rd.short, norm(v),
                    "with keep_wrapper=False the object does not arrive unwrapped", e.loc(rd, r.ast))
    # the public entry point passes its flag down
    pub = e.prog.func(f"{CW}:wrap_non_picklable_objects")
    okp = any(isinstance(n, ast.Return) and isinstance(n.value, ast.Call) and any(k.arg == "keep_wrapper" and isinstance(k.value, ast.Name) and k.value.id == "keep_wrapper"
                                                                                 for k in n.value.keywords) for n in func_nodes(pub))
    R.check(okp, "R-WRAP-REDUCE", "wrap_non_picklable_objects passes keep_wrapper to the instance wrapper", pub.short, "keep_wrapper=keep_wrapper", "keep_wrapper ignored", e.loc(pub, pub.node))
    R.floor("R-WRAP-REDUCE", 5)


# ---------------------------------------------------------------------------
# R-REDUCE-TYPES
# ---------------------------------------------------------------------------
def _fold_type(expr, local_classes):
    """The Python type a registration's first argument denotes, for the forms used to name builtin callable types: `types.X`,
    `functools.partial`, `type(<builtin type>.<attr>)`, `type(<builtin literal>.<attr>)`, `type(_C().f)` / `type(_C.f)` for a class
    defined in the module.  Folded with the analysing interpreter's own builtins (a fact base, like the stdlib conformance facts);
    None if the form is not one of these."""
    import types as _types
    import functools as _functools
    builtins_ = {"int": int, "str": str, "list": list, "dict": dict, "set": set, "tuple": tuple, "float": float, "bytes": bytes, "object": object}
    if isinstance(expr, ast.Attribute) and isinstance(expr.value, ast.Name):
        if expr.value.id == "types":
            return getattr(_types, expr.attr, None)
        if expr.value.id == "functools":
            return getattr(_functools, expr.attr, None)
    if isinstance(expr, ast.Call) and isinstance(expr.func, ast.Name) and expr.func.id == "type" and len(expr.args) == 1 and isinstance(expr.args[0], ast.Attribute):
        a0 = expr.args[0]
        base = a0.value
        if isinstance(base, ast.Name) and base.id in builtins_:
            return type(getattr(builtins_[base.id], a0.attr, None)) if hasattr(builtins_[base.id], a0.attr) else None
        if isinstance(base, ast.Constant):
            return type(getattr(base.value, a0.attr, None)) if hasattr(base.value, a0.attr) else None
        if isinstance(base, (ast.List, ast.Dict, ast.Set, ast.Tuple)) and not ast.dump(base).count("elts=[") > 1:
            obj = {ast.List: [], ast.Dict: {}, ast.Set: set(), ast.Tuple: ()}[type(base)]
            return type(getattr(obj, a0.attr)) if hasattr(obj, a0.attr) else None
        cname = base.func.id if isinstance(base, ast.Call) and isinstance(base.func, ast.Name) else base.id if isinstance(base, ast.Name) else None
        if cname in local_classes:
            kinds = local_classes[cname]
            if a0.attr in kinds:
                # a plain method looked up on an instance, or a classmethod looked up on the class / an instance: a bound method
                if (kinds[a0.attr] == "method" and isinstance(base, ast.Call)) or kinds[a0.attr] == "classmethod":
                    return _types.MethodType
                if kinds[a0.attr] == "method":
                    return _types.FunctionType
    return None


def r_reduce_types(e, R):
    """loky registers reducers for the builtin callable types.  Whether objects of a type carry the instance they are bound to (`__self__`)
    is a fact about the type; a reducer registered for such a type must ship `__self__`, otherwise `(5).__add__` arrives as `int.__add__`
    (a different callable: the future holds something else than fn(*args))."""
    mod = e.prog.modules[RD]
    local_classes = {}
    for s in mod.tree.body:
        if isinstance(s, ast.ClassDef):
            local_classes[s.name] = {m.name: ("classmethod" if any(norm(d) == "classmethod" for d in m.decorator_list) else
                                              "staticmethod" if any(norm(d) == "staticmethod" for d in m.decorator_list) else "method")
                                     for m in s.body if isinstance(m, ast.FunctionDef)}
    n = 0
    for s in mod.tree.body:
        c = s.value if isinstance(s, ast.Expr) else None
        if not (isinstance(c, ast.Call) and isinstance(c.func, ast.Name) and c.func.id == "register" and len(c.args) == 2 and isinstance(c.args[1], ast.Name)):
            continue
        red = e.prog.funcs.get(f"{RD}:{c.args[1].id}")
        if red is None or not red.params:
            continue
        ty = _fold_type(c.args[0], local_classes)
        if ty is None:
            raise AnalysisError(f"R-REDUCE-TYPES: the registered type `{norm(c.args[0])}` is not one of the foldable forms")
        n += 1
        reads = {x.attr for x in func_nodes(red) if isinstance(x, ast.Attribute) and isinstance(x.value, ast.Name) and x.value.id == red.params[0]}
        bound = "__self__" in dir(ty)
        R.check((not bound) or "__self__" in reads, "R-REDUCE-TYPES", f"reducer {red.short} registered for {ty.__name__}: ships __self__ iff the type is a bound callable",
                red.short, f"register({norm(c.args[0])}, {c.args[1].id})",
                f"`{norm(c.args[0])}` is {ty.__name__}, whose objects are bound to an instance (`__self__`), but the reducer {red.short} rebuilds the callable from "
                f"{sorted(reads)} only: the bound object is dropped, the callable that arrives in the worker is the unbound one", f"{mod.path}:{s.lineno}")
    if n < 4:
        raise AnalysisError(f"R-REDUCE-TYPES: {n} built-in registrations found (floor 4)")
