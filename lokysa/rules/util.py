"""Helpers shared by the rule modules."""
import ast

from ..model import func_nodes, norm, AnalysisError
from ..cfg import calls_in, _walk_noscope


def inline_locals(e, func, expr, depth=5):
    """Copy of expr with single-definition locals replaced by their value."""
    import copy

    class T(ast.NodeTransformer):
        def visit_Name(self, n):
            if isinstance(n.ctx, ast.Load) and depth > 0 and n.id in func.locals and n.id not in func.all_params():
                defs = [d for d in e.local_defs(func, n.id) if not (isinstance(d, ast.Constant) and d.value is None)]
                if len(defs) == 1:
                    return inline_locals(e, func, defs[0], depth - 1)
            return n
    return T().visit(copy.deepcopy(expr))


def none_test(expr):
    """(subject expr, label of the not-None branch) for `X is not None`,
    `X is None` and plain truthiness tests; None otherwise."""
    if isinstance(expr, ast.Compare) and len(expr.ops) == 1 and isinstance(expr.comparators[0], ast.Constant) \
            and expr.comparators[0].value is None:
        if isinstance(expr.ops[0], ast.IsNot) or isinstance(expr.ops[0], ast.NotEq):
            return expr.left, "T"
        if isinstance(expr.ops[0], ast.Is) or isinstance(expr.ops[0], ast.Eq):
            return expr.left, "F"
    if isinstance(expr, (ast.Name, ast.Attribute)):
        return expr, "T"
    return None


def correlated_edge_ok(e, func, src):
    """edge_ok for path searches starting at src: branches on a module-level
    constant (a bare name never assigned in func) are taken the same way as on
    the branch src itself sits on (infeasible-path pruning for the
    `if HAVE_X: acquire ... if HAVE_X: release` idiom)."""
    g = e.cfg(func)
    facts = {}
    for t in g.nodes:
        if t.kind == "test" and isinstance(t.ast, ast.Name) and t.ast.id not in func.locals:
            for lab in ("T", "F"):
                if g.on_branch(src, t, lab):
                    facts[t.ast.id] = lab

    def edge_ok(n, m, label):
        if n.kind == "test" and isinstance(n.ast, ast.Name) and n.ast.id in facts and label in ("T", "F"):
            return label == facts[n.ast.id]
        return True
    return edge_ok


def feasible_paths(e, func, dst_pred, limit=4000):
    """Acyclic entry->dst paths of func that are consistent w.r.t. tests on
    never-reassigned names (bare truth tests and None tests): a path that takes
    `x` true at one test and false at another is infeasible and dropped.
    Yields lists of (node, label)."""
    g = e.cfg(func)
    stored = {n.id for n in func_nodes(func) if isinstance(n, ast.Name) and isinstance(n.ctx, (ast.Store, ast.Del))}
    counts = {}
    for n in func_nodes(func):
        if isinstance(n, ast.Name) and isinstance(n.ctx, ast.Store):
            counts[n.id] = counts.get(n.id, 0) + 1
    stable = {p for p in func.all_params() if p not in stored} | {n for n, c in counts.items() if c == 1}

    def fact(node, label):
        if node.kind != "test" or label not in ("T", "F"):
            return None
        x = node.ast
        if isinstance(x, ast.Name) and x.id in stable:
            return ("truth", x.id, label == "T")
        nt = none_test(x)
        if nt and isinstance(nt[0], ast.Name) and nt[0].id in stable and not isinstance(x, ast.Name):
            return ("notnone", nt[0].id, label == nt[1])
        return None
    out = []
    stack = [(g.entry, [], {}, {g.entry})]
    while stack:
        n, path, facts, seen = stack.pop()
        if dst_pred(n):
            out.append(path + [(n, None)])
            if len(out) > limit:
                raise AnalysisError("too many paths")
            continue
        for m, l in n.succ:
            if m in seen or l == "exc":
                continue
            f_ = fact(n, l)
            nf = facts
            if f_ is not None:
                k = f_[:2]
                if k in facts and facts[k] != f_[2]:
                    continue  # contradicts an earlier branch on the same stable name
                # a name known to be None is also falsy, known truthy is not None
                nf = dict(facts)
                nf[k] = f_[2]
            stack.append((m, path + [(n, l)], nf, seen | {m}))
    return out


def node_calls(e, func, n, pred):
    """Calls evaluated by CFG node n satisfying pred(func, call)."""
    return [c for c in calls_in(n) if pred(func, c)]


def node_has_effect(e, func, n, pred):
    for c in calls_in(n):
        if e.call_has_effect(func, c, pred):
            return True
    return False


def effect_nodes(e, func, pred):
    """CFG nodes of func that (transitively) perform a call satisfying pred."""
    g = e.cfg(func)
    return {n for n in g.nodes if node_has_effect(e, func, n, pred)}


def calls_method_of(e, qualnames):
    qs = set(qualnames)

    def pred(func, call):
        return bool(e.callees_of(call) & qs)
    return pred


def recv_call(e, attr_names, objs):
    """pred: call is E.attr(...) (or an alias) with receiver among objs."""
    if isinstance(attr_names, str):
        attr_names = (attr_names,)
    objs = frozenset(objs)

    def pred(func, call):
        r = e.receiver_objs(func, call, attr_names)
        return bool(r & objs)
    return pred


def attr_stores(e, attrs, recv_objs, funcs=None):
    """(Func, Attribute node, enclosing stmt) for stores `E.attr = ...` with
    attr in attrs and pts(E) meeting recv_objs."""
    out = []
    fs = e.prog.funcs.values() if funcs is None else funcs
    for f in fs:
        if f.module.name == "__user__":
            continue
        for n in func_nodes(f):
            if isinstance(n, (ast.Assign, ast.AugAssign, ast.AnnAssign)):
                tgts = n.targets if isinstance(n, ast.Assign) else [n.target]
                for t in tgts:
                    for x in ([t] if not isinstance(t, (ast.Tuple, ast.List)) else t.elts):
                        if isinstance(x, ast.Attribute) and x.attr in attrs:
                            if {v for v in e.pt.ev(f, x.value)} & recv_objs:
                                out.append((f, x, n))
    return out


def attr_loads(e, attrs, recv_objs, funcs=None):
    out = []
    fs = e.prog.funcs.values() if funcs is None else funcs
    for f in fs:
        if f.module.name == "__user__":
            continue
        for n in func_nodes(f):
            if isinstance(n, ast.Attribute) and isinstance(n.ctx, ast.Load) and n.attr in attrs:
                if {v for v in e.pt.ev(f, n.value)} & recv_objs:
                    out.append((f, n))
    return out


def stmt_of(e, func, node):
    """Innermost statement containing node."""
    p = node
    while p is not None and not isinstance(p, ast.stmt):
        p = e.prog.parent.get(id(p))
    return p


def parent(e, node):
    return e.prog.parent.get(id(node))


def cfg_nodes(e, func, astnode):
    """CFG nodes evaluating astnode (statement or sub-expression)."""
    g = e.cfg(func)
    ns = g.nodes_of(astnode)
    if ns:
        return [n for n in ns if n.kind not in ("with_exit",)]
    return g.nodes_containing(astnode)


def fmt_chain(w):
    return [f"{f.short}: {norm(c)[:90]}" for f, c in w]


def sleep_call(e, func, call):
    fn = call.func
    for v in e.pt.ev(func, fn):
        if v[0] == "ext" and v[1] in ("time.sleep",):
            return True
    return False


def loops_with_sleep(e, funcs=None):
    """(Func, While node) for loops whose body (transitively in the same
    function) contains a sleep call."""
    out = []
    fs = e.prog.funcs.values() if funcs is None else funcs
    for f in fs:
        if f.module.name == "__user__":
            continue
        for n in func_nodes(f):
            if isinstance(n, ast.While):
                for x in _walk_noscope(n):
                    if isinstance(x, ast.Call) and sleep_call(e, f, x) and x is not n:
                        out.append((f, n))
                        break
    return out


def body_as_expr(stmts):
    """The value a predicate function returns, as ONE expression: a body made of local assignments and a chain of
    `if T: return X` guard clauses ending in `return Y` is `X if T else (...)`.  None if the body has another shape
    (loops, returns under try, an if arm that may fall through after side effects...)."""
    for i, s in enumerate(stmts):
        if isinstance(s, ast.Return):
            return s.value if s.value is not None else ast.Constant(value=None)
        if isinstance(s, ast.If):
            b = body_as_expr(s.body)
            if b is None:
                if any(isinstance(x, ast.Return) for y in s.body for x in ast.walk(y)):
                    return None
                continue            # an arm without return: local set-up only
            o = body_as_expr(list(s.orelse) + list(stmts[i + 1:]))
            if o is None:
                return None
            return ast.copy_location(ast.IfExp(test=s.test, body=b, orelse=o), s)
        if isinstance(s, (ast.Assign, ast.AnnAssign, ast.Pass)) or (isinstance(s, ast.Expr) and isinstance(s.value, ast.Constant)):
            continue
        return None
    return None


def attr_call(e, func, call):
    """(receiver expression, method name) of a call written `x.m(...)` or through a local alias `a = x.m; a(...)`
    (every definition of the alias names the same method), else None."""
    fn = call.func
    if isinstance(fn, ast.Attribute):
        return fn.value, fn.attr
    if isinstance(fn, ast.Name):
        defs = e.local_defs(func, fn.id)
        if defs and all(isinstance(d, ast.Attribute) for d in defs) and len({d.attr for d in defs}) == 1:
            return defs[0].value, defs[0].attr
    return None


def nonempty_test(expr):
    """(subject expr, label of the non-empty branch) for the spellings of "this builtin container is not empty":
    `x`, `not x`, `len(x) > 0`, `len(x) != 0`, `len(x) >= 1`, `0 < len(x)`, `len(x) == 0`, `len(x) < 1`, `len(x)`; None otherwise.
    (Only to be used where the subject is known to be a list / dict / deque: for those truthiness IS len() != 0.)"""
    if isinstance(expr, ast.UnaryOp) and isinstance(expr.op, ast.Not):
        r = nonempty_test(expr.operand)
        return (r[0], "F" if r[1] == "T" else "T") if r else None
    if isinstance(expr, (ast.Name, ast.Attribute)):
        return expr, "T"
    is_len = lambda x: isinstance(x, ast.Call) and isinstance(x.func, ast.Name) and x.func.id == "len" and len(x.args) == 1 and not x.keywords
    if is_len(expr):
        return expr.args[0], "T"
    if isinstance(expr, ast.Compare) and len(expr.ops) == 1:
        l, op, r = expr.left, expr.ops[0], expr.comparators[0]
        flip = {ast.Lt: ast.Gt, ast.Gt: ast.Lt, ast.LtE: ast.GtE, ast.GtE: ast.LtE, ast.Eq: ast.Eq, ast.NotEq: ast.NotEq}
        if is_len(r) and isinstance(l, ast.Constant) and type(op) in flip:
            l, op, r = r, flip[type(op)](), l
        if is_len(l) and isinstance(r, ast.Constant) and isinstance(r.value, int) and not isinstance(r.value, bool):
            k = r.value
            table = {(ast.Gt, 0): "T", (ast.NotEq, 0): "T", (ast.GtE, 1): "T", (ast.Eq, 0): "F", (ast.Lt, 1): "F", (ast.LtE, 0): "F"}
            lab = table.get((type(op), k))
            if lab:
                return l.args[0], lab
    return None
